#!/bin/bash
# usage: tools/mutant.sh <PROP> <patch.diff> [--no-tests] [--tier quick|thorough]
# Applies the patch to a scratch worktree of /repo (outside /repo and /verif), runs the repository's
# baseline test-suite there (a mutant that fails it is "not silent"), runs the check against it, and
# removes the worktree.  Prints one summary line:  MUTANT <patch> tests=<pass|fail|skipped> check=<exit code>
set -u
PROP="$1"; PATCH="$(realpath "$2")"; shift 2
TESTS=1; TIER=quick
while [ $# -gt 0 ]; do case "$1" in --no-tests) TESTS=0;; --tier) TIER="$2"; shift;; esac; shift; done
WT="$(mktemp -d /tmp/mut_XXXXXX)"; rmdir "$WT"
git -C /repo worktree add --detach "$WT" HEAD -q || exit 3
cleanup() { git -C /repo worktree remove --force "$WT" >/dev/null 2>&1; rm -rf "$WT"; }
trap cleanup EXIT
if ! git -C "$WT" apply "$PATCH"; then echo "MUTANT $PATCH apply-failed"; exit 3; fi
T=skipped
if [ "$TESTS" = 1 ]; then
  OUT=$(cd "$WT" && /venv/bin/python -m pytest -q -p no:cacheprovider --timeout=900 -x --deselect pmutt/tests/input_output/test_pmutt_io_gaussian.py pmutt/tests 2>&1 | tail -3)
  if echo "$OUT" | grep -q "failed"; then T=fail; else T=pass; fi
  echo "$OUT" | tail -1
fi
EV=/verif/evidence/$PROP.json; [ -f "$EV" ] && cp "$EV" "$WT.ev"
PMUTT_VERIF_REPO="$WT" /verif/check "$PROP" --tier "$TIER" > "$WT.log" 2>&1
RC=$?
[ -f "$WT.ev" ] && mv "$WT.ev" "$EV"
grep -E "^(VIOLATION|HARNESS|NONDET|UNREPRO)" "$WT.log" | head -5
grep -E "^  signature" "$WT.log" | head -3 | cut -c1-300
tail -1 "$WT.log" | cut -c1-200
rm -f "$WT.log"
echo "MUTANT $(basename "$PATCH") tests=$T check_exit=$RC"
