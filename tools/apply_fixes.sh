#!/bin/bash
# usage: tools/apply_fixes.sh CXX   -> applies /verif/fixes/CXX/*.diff to /repo as one commit each; prints hashes
P=$1; cd /repo || exit 1
H=""
for f in /verif/fixes/$P/*.diff; do
  if git apply --check "$f" 2>/dev/null; then git apply "$f";
  elif git apply -3 "$f" 2>/dev/null; then echo "3way $(basename $f)";
  else echo "CONFLICT $f"; echo "HASHES $H"; exit 1; fi
  git commit -qa -F "${f%.diff}.msg" && h=$(git log --format=%h -1) && H="$H $h" && echo "$h $(basename $f)"
done
echo "HASHES $H"
