#!/bin/bash
# usage: tools/run_all.sh [tier] [ids...]  -> runs checks sequentially, prints one summary line each
HERE="$(cd "$(dirname "${BASH_SOURCE[0]}")/.." && pwd)"
TIER=${1:-quick}; shift
IDS="$@"; [ -z "$IDS" ] && IDS=$(python3 -c "import json;print(' '.join(c['property_id'] for c in json.load(open('$HERE/MANIFEST.json'))['checks']))")
for id in $IDS; do
  "$HERE/check" $id --tier $TIER > /tmp/runall_$id.log 2>&1; rc=$?
  echo "$id exit=$rc $(grep -c '^VIOLATION' /tmp/runall_$id.log) viol, $(grep -c '^KNOWN-FINDING' /tmp/runall_$id.log) known | $(tail -1 /tmp/runall_$id.log | cut -c1-170)"
done
