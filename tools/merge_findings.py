#!/usr/bin/env python3
"""Merge a builder's findings fragment into known_findings.json.
usage: merge_findings.py CXX hash1 hash2 ...   (hashes fill the PENDING commits of the fixed entries in order)"""
import json, os, sys
V = os.path.dirname(os.path.dirname(os.path.realpath(__file__)))
pid, hashes = sys.argv[1], sys.argv[2:]
frag_path = os.path.join(V, 'findings.d', pid + '.json')
frag = json.load(open(frag_path))
kf = json.load(open(os.path.join(V, 'known_findings.json')))
i = 0
for e in frag['findings']:
    if e.get('status') == 'fixed' and e.get('commit') == 'PENDING':
        e['commit'] = hashes[i] if i < len(hashes) else 'PENDING'
        i += 1
    kf['findings'].append(e)
json.dump(kf, open(os.path.join(V, 'known_findings.json'), 'w'), indent=1)
os.remove(frag_path)
print('merged %d entries for %s (%d hashes used)' % (len(frag['findings']), pid, i))
