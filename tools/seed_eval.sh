#!/bin/bash
# usage: tools/seed_eval.sh <PROP> <dir with patch.diff demo.py meta.json> <name> [--tier quick|thorough]
# Confirms a seeded change independently (demo passes without / fails with the change, test-suite unchanged),
# runs the check against it, and files it under /verif/seeded/<name>/ with what was run and observed.
set -u
PROP="$1"; SRC="$(realpath "$2")"; NAME="$3"; shift 3
TIER=quick
while [ $# -gt 0 ]; do case "$1" in --tier) TIER="$2"; shift;; esac; shift; done
WT="$(mktemp -d /tmp/seedeval_XXXXXX)"; rmdir "$WT"
git -C /repo worktree add --detach "$WT" HEAD -q || exit 3
cleanup() { git -C /repo worktree remove --force "$WT" >/dev/null 2>&1; rm -rf "$WT" "$WT.log" "$WT.ev"; }
trap cleanup EXIT
( cd "$WT" && timeout 600 /venv/bin/python "$SRC/demo.py" >/dev/null 2>&1 ); D0=$?
if ! git -C "$WT" apply "$SRC/patch.diff"; then echo "SEED $NAME apply-failed"; exit 3; fi
( cd "$WT" && timeout 600 /venv/bin/python "$SRC/demo.py" >/dev/null 2>&1 ); D1=$?
TOUT=$(cd "$WT" && /venv/bin/python -m pytest -q -p no:cacheprovider --timeout=900 pmutt/tests 2>&1 | tail -1)
EV=/verif/evidence/$PROP.json; [ -f "$EV" ] && cp "$EV" "$WT.ev"
PMUTT_VERIF_REPO="$WT" /verif/check "$PROP" --tier "$TIER" > "$WT.log" 2>&1
RC=$?
[ -f "$WT.ev" ] && mv "$WT.ev" "$EV"
NV=$(grep -c "^VIOLATION" "$WT.log")
FIRST=$(grep -m1 "^  signature" "$WT.log" | cut -c1-400)
echo "SEED $NAME demo_clean=$D0 demo_seeded=$D1 tests='$TOUT' check_${TIER}_exit=$RC violations=$NV"
echo "$FIRST"
grep -E "^(HARNESS|NONDET|UNREPRO)" "$WT.log" | head -3
DEST=/verif/seeded/$NAME
mkdir -p "$DEST"
[ "$SRC" = "$(realpath "$DEST")" ] || cp "$SRC/patch.diff" "$SRC/demo.py" "$DEST/"
python3 - "$SRC/meta.json" "$DEST/meta.json" "$PROP" "$D0" "$D1" "$TOUT" "$TIER" "$RC" "$NV" "$FIRST" <<'E'
import json, sys
src, dst, prop, d0, d1, tout, tier, rc, nv, first = sys.argv[1:]
try:
    m = json.load(open(src))
except Exception:
    m = {}
old = {}
try:
    old = json.load(open(dst))
except Exception:
    pass
out = dict(property=prop, summary=m.get('summary'), needs_to_manifest=m.get('needs_to_manifest'),
           files_changed=m.get('files_changed'), author='independent sub-agent given only the property text',
           confirmed=dict(demo_on_clean_tree_exit=int(d0), demo_on_seeded_tree_exit=int(d1), test_suite_with_change=tout,
                          how='scratch worktree of /repo HEAD; demo.py run before and after git apply patch.diff; '
                              'pytest pmutt/tests with the change applied'),
           checks=dict(old.get('checks', {})))
out['checks'][tier] = dict(cmd='PMUTT_VERIF_REPO=<worktree with patch> ./check %s --tier %s' % (prop, tier),
                           exit=int(rc), violation_lines=int(nv), first_signature=first.strip())
json.dump(out, open(dst, 'w'), indent=1)
E
