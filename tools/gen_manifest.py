#!/usr/bin/env python3
"""Regenerates /verif/MANIFEST.json from the check modules present in pmc/props
(a property without a module is listed under not_applicable as 'not yet built')."""
import importlib
import json
import os
import sys

VERIF = os.path.dirname(os.path.dirname(os.path.realpath(__file__)))
sys.path.insert(0, VERIF)
ALL = ['C%02d' % i for i in range(1, 21)]
BASELINE = ("cd /repo && /venv/bin/python -m pytest -ra -q -p no:cacheprovider --timeout=900 "
            "--continue-on-collection-errors")

checks, na = [], []
for pid in ALL:
    path = os.path.join(VERIF, 'pmc', 'props', pid.lower() + '.py')
    if not os.path.exists(path):
        na.append(dict(property_id=pid, reason='check not built yet (in progress; design in DESIGN.md section 4)'))
        continue
    src = open(path).read()
    ns = {}
    # modules expose MANIFEST metadata as plain literals
    meta = {}
    for key in ('LEVEL_TEXT', 'LEVEL_NOTE', 'TECHNIQUE', 'DESIGN_REF'):
        import re
        m = re.search(r'^%s\s*=\s*(\(.*?\)|\'.*?\'|".*?")\s*$' % key, src, re.S | re.M)
        if m:
            meta[key] = eval(m.group(1))
    checks.append(dict(
        property_id=pid,
        quick_cmd='./check %s --tier quick' % pid,
        thorough_cmd='./check %s --tier thorough' % pid,
        evidence_file='/verif/evidence/%s.json' % pid,
        replay_cmd_template='./check %s --replay {path}' % pid,
        engine='pmc',
        level_claimed=dict(category='model_checking',
                           text=meta.get('LEVEL_TEXT', 'bounded exhaustive exploration on the implementation'),
                           design_ref=meta.get('DESIGN_REF', 'DESIGN.md section 4 (%s)' % pid)),
        level_note=meta.get('LEVEL_NOTE', 'verdict holds on the stated finite alphabets/lattices and bounds only'),
        technique=meta.get('TECHNIQUE', 'explicit-state / bounded exhaustive enumeration on the real code'),
    ))

man = dict(
    version=1,
    setup_cmd='./check --setup',
    hooks=dict(guard='PMUTT_VERIF',
               enable='none needed: all seams (frozen clock, scipy.minimize wrapper) are applied by the harness '
                      'inside its own worker processes; /repo carries no guarded instrumentation',
               baseline_off_cmd=BASELINE, source_commits=[], add_only=True),
    engines=[dict(name='pmc', path='/verif/pmc', serves_properties=[c['property_id'] for c in checks],
                  kind_free_text='hand-written explicit-state / bounded-exhaustive explorer in Python that '
                                 'drives the real pMuTT code (history BFS with state hashing, deviation-bounded '
                                 'product enumeration, lattice walks with edge laws); 16 forked workers')],
    checks=checks,
    not_applicable=na,
    notes='Every check imports pMuTT from /repo working tree (PMUTT_VERIF_REPO overrides for the self-test). '
          'Known genuine defects: /verif/known_findings.json.',
)
with open(os.path.join(VERIF, 'MANIFEST.json'), 'w') as f:
    json.dump(man, f, indent=1)
print('MANIFEST.json: %d checks, %d not_applicable' % (len(checks), len(na)))
