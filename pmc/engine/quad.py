"""Composite Gauss-Legendre quadrature used for the edge laws (DESIGN 1, 3.4)."""
import numpy as np

_X, _W = np.polynomial.legendre.leggauss(16)


def gl_nodes(a, b, panels=4):
    """Nodes and weights of a composite 16-point rule on [a, b]."""
    edges = np.linspace(a, b, panels + 1)
    xs, ws = [], []
    for lo, hi in zip(edges[:-1], edges[1:]):
        h = 0.5 * (hi - lo)
        xs.append(0.5 * (hi + lo) + h * _X)
        ws.append(h * _W)
    return np.concatenate(xs), np.concatenate(ws)


def integrate(f, a, b, panels=4):
    """Integral of scalar function f over [a, b] (f is called point by point)."""
    x, w = gl_nodes(a, b, panels)
    return float(sum(wi * float(f(xi)) for xi, wi in zip(x, w)))
