"""Core of the pMuTT model checker ("pmc"): per-shard context, comparisons,
violation records, state/transition bookkeeping.

A *check module* (pmc/props/cXX.py) provides

    ID            property id
    RULE          text: how cases are enumerated and what makes one non-trivial
    ASSUMPTIONS   list of strings
    shards(tier)            -> list of JSON-able shard descriptors
    run_shard(shard, ctx)   -> explores the shard exhaustively, calling ctx.*
    check_case(case, ctx)   -> re-evaluates one recorded case (replay entry)
    bounds(tier)            -> dict written to the evidence

Every violation carries a JSON-able `case` that check_case() can re-run
without the explorer.
"""
import hashlib
import json
import math
import os
import sys
import traceback
import warnings
from collections import Counter

import numpy as np

REPO_ROOT = os.path.realpath(os.environ.get('PMUTT_VERIF_REPO', '/repo'))
VERIF_ROOT = os.path.realpath(os.path.join(os.path.dirname(__file__), '..', '..'))


def jsonable(o):
    """Convert an object into something json.dumps accepts (deterministic)."""
    if isinstance(o, dict):
        return {str(k): jsonable(v) for k, v in o.items()}
    if isinstance(o, (list, tuple)):
        return [jsonable(v) for v in o]
    if isinstance(o, (set, frozenset)):
        return sorted((jsonable(v) for v in o), key=repr)
    if isinstance(o, np.ndarray):
        return jsonable(o.tolist())
    if isinstance(o, (np.integer,)):
        return int(o)
    if isinstance(o, (np.floating,)):
        return jsonable(float(o))
    if isinstance(o, (np.bool_,)):
        return bool(o)
    if isinstance(o, float):
        if math.isnan(o):
            return 'NaN'
        if math.isinf(o):
            return 'Infinity' if o > 0 else '-Infinity'
        return o
    if isinstance(o, (int, str, bool)) or o is None:
        return o
    if isinstance(o, complex):
        return repr(o)
    return repr(o)


def dumps(o):
    return json.dumps(jsonable(o), sort_keys=True)


def hkey(o):
    """64-bit stable hash of a canonical form."""
    if not isinstance(o, (str, bytes)):
        o = dumps(o)
    if isinstance(o, str):
        o = o.encode()
    return int.from_bytes(hashlib.blake2b(o, digest_size=8).digest(), 'big')


def _flat(x):
    """Flatten numbers / nested sequences into a 1-D float array; None if not numeric."""
    try:
        a = np.asarray(x, dtype=float)
    except (TypeError, ValueError):
        try:
            a = np.concatenate([np.ravel(np.asarray(v, dtype=float)) for v in x])
        except Exception:
            return None
    return np.ravel(a)


def close(obs, exp, rtol=1e-10, atol=0.0, scale=None):
    """True iff obs and exp are finite, equally shaped and within tolerance.

    |obs-exp| <= atol + rtol*scale, scale defaults to max(|obs|,|exp|) elementwise.
    NaN/inf anywhere -> False.  Returns (ok, residual_ratio) where residual_ratio
    is max |obs-exp| / allowed (0 when exactly equal).
    """
    a, b = _flat(obs), _flat(exp)
    if a is None or b is None or a.shape != b.shape:
        return False, float('inf')
    if a.size == 0:
        return True, 0.0
    if not (np.all(np.isfinite(a)) and np.all(np.isfinite(b))):
        return False, float('inf')
    if scale is None:
        sc = np.maximum(np.abs(a), np.abs(b))
    else:
        sc = np.abs(np.ravel(np.asarray(scale, dtype=float)))
        if sc.size == 1:
            sc = np.full(a.shape, sc[0])
    allowed = atol + rtol * sc
    diff = np.abs(a - b)
    with np.errstate(divide='ignore', invalid='ignore'):
        ratio = np.where(diff == 0, 0.0, diff / np.where(allowed > 0, allowed, np.nan))
    ratio = np.where(np.isnan(ratio), np.inf, ratio)
    worst = float(np.max(ratio))
    return worst <= 1.0, worst


class HarnessError(Exception):
    pass


class Ctx:
    """Bookkeeping for one shard (or one replay)."""

    MAX_VIOL_PER_SIG = 1

    def __init__(self, prop, tier, seed=0, replay=False):
        self.prop = prop
        self.tier = tier
        self.seed = seed
        self.replay = replay
        self.violations = {}      # sigkey -> record
        self.viol_counts = Counter()
        self.clauses = {}         # name -> dict
        self.states = set()
        self.transitions = 0
        self.evaluations = 0
        self.traces = 0
        self.tags = Counter()
        self.nontriv = set()
        self.samples = []
        self.refused = Counter()
        self.notes = []
        self.log = []             # replay mode: observed/expected lines

    # ---------------------------------------------------------------- counts
    def state(self, key):
        h = hkey(key)
        new = h not in self.states
        self.states.add(h)
        return new

    def trans(self, n=1):
        self.transitions += n

    def trace(self, n=1):
        self.traces += n

    def evals(self, n=1):
        self.evaluations += n

    def tag(self, name, n=1):
        self.tags[name] += n

    def nontrivial(self, key):
        self.nontriv.add(hkey(key))

    def sample(self, case, limit=4):
        if len(self.samples) < limit:
            self.samples.append(jsonable(case))

    def refuse(self, what):
        self.refused[what] += 1

    # --------------------------------------------------------------- clauses
    def _clause(self, name, tol=None):
        c = self.clauses.get(name)
        if c is None:
            c = self.clauses[name] = dict(checked=0, failed=0, worst=0.0, tol=tol,
                                          outcomes=set(), canary=None)
        if tol is not None and c['tol'] is None:
            c['tol'] = tol
        return c

    def outcome(self, clause, value):
        c = self._clause(clause)
        if len(c['outcomes']) < 5000:
            if isinstance(value, (float, np.floating)):
                value = '%.9g' % value
            c['outcomes'].add(hkey(value))

    def close(self, clause, obs, exp, sig=None, case=None, rtol=1e-10, atol=0.0,
              scale=None):
        """Numeric comparison clause.  Records a violation when it fails."""
        c = self._clause(clause, tol='rtol=%g atol=%g' % (rtol, atol))
        c['checked'] += 1
        ok, worst = close(obs, exp, rtol, atol, scale)
        if c['canary'] is None:
            # oracle canary: the same comparison must reject a value displaced by
            # 100x its tolerance
            b = _flat(exp)
            if b is not None and b.size and np.all(np.isfinite(b)):
                if scale is None:
                    sc = np.abs(b)
                else:
                    sc = np.abs(np.ravel(np.asarray(scale, dtype=float)))
                    sc = np.full(b.shape, sc[0]) if sc.size == 1 else sc
                disp = 100.0 * (atol + rtol * sc) + 1e-300
                bad, _ = close(b + disp, b, rtol, atol, scale)
                if bad and np.all(np.isfinite(b + disp)) and np.all(b + disp != b):
                    raise HarnessError('DEAF-ORACLE clause=%s' % clause)
                c['canary'] = 'rejected'
        if ok:
            if worst > c['worst']:
                c['worst'] = worst
            self.outcome(clause, _round_sig(obs))
        else:
            c['failed'] += 1
            self._violation(clause, sig, case, obs, exp)
        if self.replay:
            self.log.append(dict(clause=clause, ok=ok, observed=jsonable(obs),
                                 expected=jsonable(exp)))
        return ok

    def equal(self, clause, obs, exp, sig=None, case=None):
        """Structural equality clause (==)."""
        c = self._clause(clause, tol='exact')
        c['checked'] += 1
        try:
            ok = bool(_deep_eq(obs, exp))
        except Exception:
            ok = False
        if c['canary'] is None:
            if _deep_eq(('__canary__', exp), exp):
                raise HarnessError('DEAF-ORACLE clause=%s' % clause)
            c['canary'] = 'rejected'
        if ok:
            self.outcome(clause, jsonable(obs))
        else:
            c['failed'] += 1
            self._violation(clause, sig, case, obs, exp)
        if self.replay:
            self.log.append(dict(clause=clause, ok=ok, observed=jsonable(obs),
                                 expected=jsonable(exp)))
        return ok

    def true(self, clause, cond, sig=None, case=None, observed=None, expected=None):
        c = self._clause(clause, tol='predicate')
        c['checked'] += 1
        c['canary'] = 'n/a'
        ok = bool(cond)
        if ok:
            if observed is not None:
                self.outcome(clause, jsonable(observed))
        else:
            c['failed'] += 1
            self._violation(clause, sig, case, observed, expected)
        if self.replay:
            self.log.append(dict(clause=clause, ok=ok, observed=jsonable(observed),
                                 expected=jsonable(expected)))
        return ok

    def fail(self, clause, sig=None, case=None, observed=None, expected=None):
        return self.true(clause, False, sig, case, observed, expected)

    def _violation(self, clause, sig, case, obs, exp):
        s = dict(sig or {})
        s['clause'] = clause
        key = dumps(s)
        self.viol_counts[key] += 1
        if key not in self.violations:
            self.violations[key] = dict(property=self.prop, clause=clause, signature=jsonable(s),
                                        case=jsonable(case), observed=jsonable(obs),
                                        expected=jsonable(exp))

    # ------------------------------------------------------------ exceptions
    def run_case(self, fn, case, sig=None):
        """Run fn(case, self); an exception raised from pMuTT code is a violation of
        clause 'no-exception'; an exception raised from harness code propagates."""
        try:
            with warnings.catch_warnings():
                warnings.simplefilter('ignore')
                fn(case, self)
        except HarnessError:
            raise
        except Exception as e:
            where = classify_exception(e)
            if where is None:
                raise
            s = dict(sig or {})
            s.update(exc=type(e).__name__, where=where)
            self._clause('no-exception', tol='predicate')['checked'] += 1
            self._clause('no-exception')['failed'] += 1
            self._violation('no-exception', s, case, '%s: %s' % (type(e).__name__, str(e)[:300]),
                            'no exception')
            s2 = dict(s)
            s2['clause'] = 'no-exception'
            self.violations[dumps(s2)].setdefault('run_sig', jsonable(sig or {}))
            return False
        else:
            self._clause('no-exception', tol='predicate')['checked'] += 1
            self._clause('no-exception')['canary'] = 'n/a'
        return True

    # ----------------------------------------------------------------- merge
    def export(self):
        cl = {}
        for k, c in self.clauses.items():
            cl[k] = dict(checked=c['checked'], failed=c['failed'], worst=c['worst'], tol=c['tol'],
                         outcomes=sorted(c['outcomes']), canary=c['canary'])
        return dict(violations=self.violations, viol_counts=dict(self.viol_counts), clauses=cl,
                    states=sorted(self.states), transitions=self.transitions,
                    evaluations=self.evaluations, traces=self.traces, tags=dict(self.tags),
                    nontriv=sorted(self.nontriv), samples=self.samples,
                    refused=dict(self.refused), notes=self.notes)


def classify_exception(e):
    """Return 'module.func' if the innermost non-third-party frame of the traceback
    is inside the pMuTT tree, None if it is harness code."""
    tb = traceback.extract_tb(e.__traceback__)
    for fr in reversed(tb):
        fn = os.path.realpath(fr.filename)
        if fn.startswith(REPO_ROOT + os.sep):
            rel = os.path.relpath(fn, REPO_ROOT)
            return '%s:%s' % (rel, fr.name)
        if fn.startswith(VERIF_ROOT + os.sep):
            return None
    return None


def raised_in_pmutt(e):
    return classify_exception(e) is not None


def _round_sig(x):
    a = _flat(x)
    if a is None:
        return repr(x)
    if a.size > 8:
        a = a[:8]
    return ['%.9g' % v for v in a]


def _deep_eq(a, b):
    if isinstance(a, np.ndarray) or isinstance(b, np.ndarray):
        try:
            a_, b_ = np.asarray(a), np.asarray(b)
            return a_.shape == b_.shape and bool(np.all(a_ == b_))
        except Exception:
            return False
    if isinstance(a, dict) and isinstance(b, dict):
        return set(a) == set(b) and all(_deep_eq(a[k], b[k]) for k in a)
    if isinstance(a, (list, tuple)) and isinstance(b, (list, tuple)):
        return type(a) == type(b) and len(a) == len(b) and all(_deep_eq(x, y) for x, y in zip(a, b))
    if isinstance(a, float) and isinstance(b, float) and math.isnan(a) and math.isnan(b):
        return False
    try:
        return bool(a == b)
    except Exception:
        return False


def merge(exports):
    """Merge shard exports (in shard order) into one summary dict."""
    out = dict(violations={}, viol_counts=Counter(), clauses={}, states=set(), transitions=0,
               evaluations=0, traces=0, tags=Counter(), nontriv=set(), samples=[], refused=Counter(),
               notes=[])
    for ex in exports:
        for k, v in ex['violations'].items():
            out['violations'].setdefault(k, v)
        out['viol_counts'].update(ex['viol_counts'])
        for k, c in ex['clauses'].items():
            d = out['clauses'].setdefault(k, dict(checked=0, failed=0, worst=0.0, tol=c['tol'],
                                                  outcomes=set(), canary=None))
            d['checked'] += c['checked']
            d['failed'] += c['failed']
            d['worst'] = max(d['worst'], c['worst'])
            d['outcomes'].update(c['outcomes'])
            d['canary'] = d['canary'] or c['canary']
        out['states'].update(ex['states'])
        out['transitions'] += ex['transitions']
        out['evaluations'] += ex['evaluations']
        out['traces'] += ex['traces']
        out['tags'].update(ex['tags'])
        out['nontriv'].update(ex['nontriv'])
        out['samples'].extend(ex['samples'])
        out['refused'].update(ex['refused'])
        out['notes'].extend(ex['notes'])
    return out
