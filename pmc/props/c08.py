"""C08 - reaction quantities obey Hess's law, reversal symmetry and detailed balance;
per-species keyword routing; caller dictionaries unmodified.

Shape B: deviation-bounded product enumeration around three centre reactions (all-StatMech,
all-empirical, mixed with a BEP transition state) plus the full product of the condition
coordinates at every centre.  Every configuration is a real Reaction / ChemkinReaction /
SurfaceReaction built from fresh species; the oracle is sum(nu_i X_i) (product of powers
for q) with X_i from the species' own getter under the documented keyword routing.

Two further families (added after the seeded changes of wave 2):

* vector conditions - T given as a 1-D numpy array (globally and / or inside a species block) on
  reactions whose species document array T (Nasa, Shomate, Nasa9, BEP); the oracle is the
  element-wise *scalar* evaluation of the same linear reference (one scalar reference per
  element, stacked);
* histories - several calls on the same reaction object(s) with one conditions dictionary that
  the caller keeps and edits between calls (T / P / block entries), reactions made by
  __init__ / from_string / deepcopy / to_dict+from_dict, coefficients edited after creation,
  two reactions sharing their species objects; the oracle of every call is the linear
  reference at the conditions of *that* call, computed on a separately built twin.

One more family (added after the seeded changes of wave 4):

* nearly thermoneutral steps between states with large absolute energies - StatMech adsorbate / Nasa surface
  species carrying a slab-sized electronic energy (-1480 eV, i.e. E/RT of -2e4 ... -6e4) whose final state lies
  0, 1.5e-5 ... 1.5 eV away from the initial one (change = 0 and 1e-8 ... 1e-3 of the state values), with
  spectators, barriers of 0.62 eV and 0.2 meV, equal coefficients on both sides; judged with the existing
  clauses and with clauses whose tolerance is relative to the *change* (1e-6 |change| + 1e-13 sum|nu X|).

Two more families (added after the seeded changes of wave 5):

* constructor options - ChemkinReaction / SurfaceReaction (and Reaction: notes) built with their class-specific
  options (is_adsorption, sticking_coeff, beta, A, Ea, direction, id, use_motz_wise, notes) through __init__ /
  from_string / from_dict(to_dict()) / deepcopy, on sides that list gas-phase and non-gas species in every order with
  different coefficients; the reference is the Hess sum over the species in the order and with the coefficients of
  the case, evaluated on a twin of the same class made with default options from fresh species;
* flag representation - the direction flags rev / act handed to every getter as numpy.bool_, Python int 1 / 0,
  numpy.int64 and 0-d boolean arrays (all pairs of kinds, also only one of the two flags), at the three centres.
"""
import copy
import itertools

import numpy as np

from pmc.engine import core
from pmc.ref import rxn as R

ID = 'C08'
RULE = ('configurations = (reaction class, reactant multiset, product multiset, transition state, '
        'stoichiometry offset, T, P, include_ZPE, per-species keyword blocks, number type); every configuration within '
        '2 deviations of three centre reactions, plus the full product of the condition coordinates (class, '
        'transition state, T, P, include_ZPE, blocks; thorough: and the coefficient offset) at each centre; '
        'vector configurations = (class, empirical reactant / product multiset, transition state, offset, vector '
        'shape, where the vector is placed, P) within 2 deviations of two empirical centres plus the full product '
        'class x transition state x shape x placement x P; histories = (reaction, block pattern, (T,P) sequence, '
        'block edit, dictionary reuse, construction route, coefficient edit, second reaction on the same species) '
        'within 2 deviations of six centre histories; near-thermoneutral configurations = (species family x class, '
        'shape {hop, spectator on both sides, small partner}, energy step (9 levels), transition state {none, 0.62 eV, '
        '0.2 meV}, coefficient offset, T (2 scalars, 2 vectors), P, blocks, number type) within 2 deviations of one '
        'centre plus the full product family x class x step x transition state x T (thorough: x shape x P, vectors '
        'included); constructor-option configurations = (class, option set (7 per class), ordered reactant side, '
        'ordered product side over 1 non-gas + 3 gas-phase species, transition state, coefficient offset, construction '
        'route {__init__, from_string, from_dict(to_dict()), deepcopy}, T (2 scalars, 1 vector), P, blocks) within 2 '
        'deviations of one centre (ChemkinReaction, is_adsorption, non-gas reactant first) plus the full product class x '
        'options x reactant side x route (thorough: all ordered pairs and triples, x transition state); '
        'flag-representation configurations = (class, transition state, T, P, blocks, representation of rev, '
        'representation of act; 5 kinds each) within 2 deviations of each of the three centres plus the full product '
        'class x rev kind x act kind (thorough: x transition state x T); configurations are de-duplicated on the concrete reaction + '
        'keyword dictionary; a configuration is non-trivial when it has a keyword block, more than one '
        'species on a side, two transition-state species, a vector condition, more than one call, constructor '
        'options / a construction route, or a flag that is not a Python bool')
ASSUMPTIONS = ['species come from a pool of 7 side species + 6 transition-state species (one per model class); '
               'coefficients from the dyadic lattice {0.25,0.5,1,1.5,2,3,4}: every quantity is linear in the '
               'coefficients, so exactness on this lattice carries to all coefficients up to rounding',
               'a getter is exercised for a state only when every species of that state implements it itself '
               '(Nasa/Shomate/Nasa9: Cp, H, S, G; BEP: no electronic energy)',
               'ChemkinReaction reads species.phase at construction: configurations whose constructor refuses a StatMech species are recorded as refused',
               'clamped ChemkinReaction/SurfaceReaction get_H(oRT)_act / get_G(oRT)_act belong to C09',
               'vector conditions: 1-D numpy arrays (float and integer dtype, length 1-5, unsorted / repeated '
               'included) for T only, and only on reactions whose species document "float or (N,) ndarray" '
               '(Nasa, Shomate, Nasa9; BEP through the reaction); StatMech species take scalar T; Python '
               'lists / tuples are not documented inputs and are not enumerated',
               'integer-typed scalars (Python int T, int coefficients) are compared with the reference at the '
               'equal float value',
               'histories: up to 3 condition sets per history, each evaluated on up to 2 reactions; getters '
               'CpoR, HoRT, GoRT (with Keq) and q',
               'near-thermoneutral family: the tolerance relative to the change assumes that a reaction quantity is '
               'obtained from the species values by a handful of floating-point additions (1e-13 x sum|nu X| = some '
               'hundred units in the last place of the state values)',
               'constructor options: the class-specific options describe the rate expression / output format and are '
               'taken not to enter any thermodynamic getter of C08; the species of this family are the empirical ones '
               'that carry a phase (NS: S; XSG, SH, N9: G)',
               'flags: rev / act are documented as bool; truthy / falsy values a bool-typed option receives in practice '
               '(numpy.bool_, int 1 / 0, numpy.int64, 0-d boolean array) are read by their truth value; strings and None '
               'are not enumerated']
EXPLANATION = ('deviation-bounded exhaustive enumeration of reaction configurations, vector-condition configurations '
               'and call histories executed on the real classes; linear reference model from the species getters '
               '(element-wise scalar evaluation for vector conditions)')

TEMPS = [300.0, 850.0]
PRESS = [None, 0.2]
ZPE = [None, True, False]       # the full product uses the first two; explicit False is a deviation
CLASSES = ['Reaction', 'ChemkinReaction', 'SurfaceReaction']
TS_Q = [None, ['TSM'], ['TSN'], ['BEP'], ['TSM', 'TS2'], ['BEPE'], ['BEPR']]
TS_T = TS_Q + [['BEP', 'TS2'], ['TSN', 'TSM']]
NBLK = 8                        # the full product uses the first seven
NBLK_PRODUCT = 7
NUM = ['float', 'int']
DIM_UNITS = {'CvoR': ('Cv', 'J/mol/K', False), 'CpoR': ('Cp', 'J/mol/K', False),
             'SoR': ('S', 'J/mol/K', False), 'UoRT': ('U', 'kJ/mol', True), 'HoRT': ('H', 'kJ/mol', True),
             'FoRT': ('F', 'kJ/mol', True), 'GoRT': ('G', 'kJ/mol', True), 'EoRT': ('E', 'kJ/mol', True)}

# ---- vector family
VEC = '__vec__'
EMP_POOL = ['XSG', 'NS', 'SH', 'N9']
VEC_TS = [None, ['TSN'], ['BEP'], ['BEPR']]
VEC_SHAPES = [([300.0, 850.0], 'float'),                 # both sides of T_mid
              ([850.0, 300.0, 850.0], 'float'),          # unsorted, descending start, repeated
              ([300, 850], 'int'),                       # integer dtype
              ([300.0], 'float'),                        # length 1
              ([850.0, 850.0], 'float'),                 # all equal
              ([250.0, 400.0, 700.0, 1200.0, 3000.0], 'float'),
              ([850, 300, 300], 'int')]                  # integer dtype, descending, repeated
NVPAT = 6
SCRIBBLE = -777.0

# ---- history family
HIST_RXN = [
    dict(cls='Reaction', R=['SG'], P=['SA'], TS=['TSM'], st=2),
    dict(cls='ChemkinReaction', R=['XSG'], P=['NS'], TS=['TSN'], st=3),
    dict(cls='SurfaceReaction', R=['SG', 'NS'], P=['CM'], TS=['BEP'], st=4),
    dict(cls='Reaction', R=['XSG', 'SG'], P=['SH'], TS=['TSM', 'TS2'], st=5),
    dict(cls='Reaction', R=['SH'], P=['XSG', 'NS'], TS=['BEPR'], st=6),
    dict(cls='SurfaceReaction', R=['NS', 'SA'], P=['SH'], TS=['TSN'], st=7),
]
HIST_TP = [(300.0, None), (850.0, None), (300.0, 0.2), (850.0, 0.2)]
HIST_BLK = [1, 0, 2, 4, 6]
HIST_REUSE = ['shared', 'fresh']
HIST_ROUTE = ['init', 'from_string', 'deepcopy', 'dict']
HIST_QUANT = ['q', 'CpoR', 'HoRT', 'GoRT']

# ---- near-thermoneutral family: large absolute energies, small changes
E_SLAB = -1480.25                # eV: total energy of a slab + adsorbate
E_SPECTATOR = -310.5             # eV
NEAR_DE = [5.0e-3, 0.0, 1.5e-5, -1.5e-4, 1.5e-3, -1.5e-2, 0.15, -1.5, 1.5e-8]     # eV; level k -> final state 'B<k>'
NEAR_LEVELS = list(range(len(NEAR_DE))) + ['V']        # 'V': same minimum, other vibrations / polynomial
NEAR_BARRIER = {'T0': 0.62, 'T1': 2.0e-4}              # eV above the initial state
NEAR_FAMCLS = [['L', 'Reaction'], ['L', 'SurfaceReaction'], ['M', 'Reaction'], ['M', 'ChemkinReaction'],
               ['M', 'SurfaceReaction']]                # L: StatMech, M: Nasa (phase S)
NEAR_SHAPES = ['hop', 'spectator', 'partner']
NEAR_TS = [['T0'], None, ['T1']]
NEAR_T = [300.0, 850.0, 'v0', 'v1']                    # v0 / v1: VEC_SHAPES[0] / [1], Nasa family only
NEAR_BLK = [0, 1, 2]
NEAR_SMALL = {'L': 'SA', 'M': 'NS'}
NEAR_TAILS = ['A', 'V', 'C', 'T0', 'T1'] + ['B%d' % k for k in range(len(NEAR_DE))]
NEAR_KEYS = [f + t for f in 'LM' for t in NEAR_TAILS]
SUPPORT = dict(R.SUPPORT)
SUPPORT.update({k: (R.ALL9 if k[0] == 'L' else R.EMP4) for k in NEAR_KEYS})
STATMECH_KEYS = tuple(R.STATMECH_KEYS) + tuple(k for k in NEAR_KEYS if k[0] == 'L')
TIGHT = ' to the accuracy of the change (1e-6 |change| + 1e-13 sum|nu X|)'

# ---- constructor-option family: class-specific options (is_adsorption, sticking_coeff, beta, A, Ea, direction, id,
# use_motz_wise, notes) on reactions whose sides mix gas-phase and non-gas species in every order
OPT_POOL = ['NS', 'XSG', 'SH', 'N9']              # NS: phase 'S'; XSG, SH, N9: phase 'G'
OPT_NONGAS = ('NS',)
OPTIONS = {
    'ChemkinReaction': [dict(is_adsorption=True, sticking_coeff=0.3), {}, dict(is_adsorption=True), dict(beta=0.0),
                        dict(is_adsorption=True, sticking_coeff=1.0, beta=0.5),
                        dict(is_adsorption=False, sticking_coeff=0.3), dict(notes='from DFT')],
    'SurfaceReaction': [dict(is_adsorption=True, sticking_coeff=0.3), {}, dict(is_adsorption=True),
                        dict(A=1.0e13, beta=0.0, Ea=12.5), dict(is_adsorption=True, use_motz_wise=True, beta=0.5),
                        dict(direction='cleavage', id=7), dict(notes='from DFT')],
    'Reaction': [{}, {}, {}, {}, {}, {}, dict(notes='from DFT')],
}
NOPT = 7
OPT_CLASSES = ['ChemkinReaction', 'SurfaceReaction', 'Reaction']
OPT_TS = [['TSN'], None, ['BEP']]
OPT_ROUTE = ['init', 'from_string', 'dict', 'deepcopy']
OPT_T = [300.0, 850.0, 'v1']                      # v1: VEC_SHAPES[1]
OPT_BLK = [0, 1, 4]
OPT_ST = {'quick': [2, 3, 5, 8], 'thorough': list(range(2, 9))}

# ---- flag family: the direction flags rev / act handed over as something other than the singletons True / False
FLAG_KINDS = ['npbool', 'bool', 'int', 'npint', 'arr0']
FLAG_BLK = [0, 1, 4]

PLANNED_TAGS = (['cls:' + c for c in CLASSES] +
                ['ts:none', 'ts:explicit', 'ts:bep', 'ts:two', 'blk:none', 'blk:reactant', 'blk:product',
                 'blk:ts', 'blk:absent', 'blk:several', 'dir:rev', 'dir:act', 'side:repeated-species',
                 'side:species-on-both-sides', 'P:explicit', 'zpe:explicit', 'stoich:fractional',
                 'refused:chemkin-needs-phase', 'keq:finite',
                 'zpe:explicit-false', 'blk:option-through-block', 'num:int-T', 'num:int-coefficient',
                 'vec:global-T', 'vec:block-T', 'vec:global-and-block', 'vec:absent-block', 'vec:int-dtype',
                 'vec:length-1', 'vec:unsorted-repeated', 'vec:result-scribbled', 'vec:bep',
                 'hist:shared-blocks', 'hist:fresh-dicts', 'hist:T-changed', 'hist:P-changed',
                 'hist:block-edited-in-place', 'hist:first-conditions-again', 'hist:coefficients-edited',
                 'hist:two-reactions-share-species',
                 'near:statmech', 'near:nasa', 'near:equal-energies', 'near:thermal-only', 'near:spectator',
                 'near:barrier-0.2meV', 'near:vector-T', 'near:per-species-T', 'near:int',
                 'change:0', 'change:below-1e-6-of-state', 'change:1e-6..1e-4-of-state',
                 'change:1e-4..1e-2-of-state', 'change:large'] +
                ['hist:route:' + r for r in HIST_ROUTE] +
                ['opt:none', 'opt:is_adsorption', 'opt:is_adsorption-explicit-false', 'opt:sticking_coeff', 'opt:beta',
                 'opt:A-Ea', 'opt:direction-id', 'opt:motz-wise', 'opt:notes', 'opt:nongas-before-gas',
                 'opt:gas-before-nongas', 'opt:adsorption-nongas-before-gas', 'opt:all-gas', 'opt:three-reactants',
                 'opt:vector-T', 'opt:blocks'] +
                ['opt:route:' + r for r in OPT_ROUTE] +
                ['flag:rev:' + k for k in FLAG_KINDS if k != 'bool'] +
                ['flag:act:' + k for k in FLAG_KINDS if k != 'bool'] +
                ['flag:rev-only', 'flag:act-only', 'flag:both', 'flag:different-kinds'] +
                ['getter:' + q for q in R.QUANT])


# ------------------------------------------------------------------ alphabet
def _sides(tier, centre_side):
    pool = R.SIDE_POOL
    singles = [[k] for k in pool]
    doubles = [[k, k] for k in pool]
    pairs = [list(p) for p in itertools.combinations(pool, 2)]
    for i, p in enumerate(pairs):           # alternate the order inside a side
        if i % 2:
            p.reverse()
    if tier == 'quick':
        # every species meets one StatMech and one empirical partner at least once
        keep = [p for i, p in enumerate(pairs) if i % 2 == 0]
        out = singles + doubles + keep
    else:
        out = singles + doubles + pairs
        # 3-4 species sides: the centre side plus 1 or 2 more species (2-deviation of the side)
        for k in pool:
            out.append(list(centre_side) + [k])
        for a, b in itertools.combinations_with_replacement(pool, 2):
            out.append(list(centre_side) + [a, b])
        out = [s for s in out if len(s) <= 4]
    seen, uniq = set(), []
    for s in out:
        if tuple(s) not in seen:
            seen.add(tuple(s))
            uniq.append(s)
    return uniq


CENTRES = [
    dict(name='statmech', cls=0, R=['SG'], P=['SA'], TS=1),
    dict(name='empirical', cls=1, R=['XSG'], P=['NS'], TS=2),
    dict(name='mixed-bep', cls=2, R=['SG', 'NS'], P=['CM'], TS=3),
]


def _coords(tier, centre):
    ts = TS_Q if tier == 'quick' else TS_T
    rs = _sides(tier, centre['R'])
    ps = _sides(tier, centre['P'])
    rs = [centre['R']] + [s for s in rs if s != centre['R']]
    ps = [centre['P']] + [s for s in ps if s != centre['P']]
    tso = [ts[centre['TS']]] + [t for i, t in enumerate(ts) if i != centre['TS']]
    cls = [CLASSES[centre['cls']]] + [c for i, c in enumerate(CLASSES) if i != centre['cls']]
    # (name, options) - option 0 is the centre's value
    return [('cls', cls), ('R', rs), ('P', ps), ('TS', tso), ('st', list(range(2, 9))),
            ('T', TEMPS), ('Pr', PRESS), ('zpe', ZPE), ('blk', list(range(NBLK))), ('num', NUM)]


PRODUCT_OPTS = {'zpe': ZPE[:2], 'blk': list(range(NBLK_PRODUCT))}


def _deviations(coords, level, add, make):
    """The centre (option 0 of every coordinate) and everything within `level` deviations of it."""
    names = [n for n, _ in coords]
    base = {n: o[0] for n, o in coords}
    add(make(base))
    for lv in range(1, level + 1):
        for idxs in itertools.combinations(range(len(coords)), lv):
            for vals in itertools.product(*[coords[i][1][1:] for i in idxs]):
                cfg = dict(base)
                for i, v in zip(idxs, vals):
                    cfg[names[i]] = v
                add(make(cfg))
    return base


def _enumerate_scalar(tier, add):
    for centre in CENTRES:
        coords = _coords(tier, centre)
        base = _deviations(coords, 2, add, concretise)
        # full product of the condition coordinates (and class, TS) at the centre body
        small = ['cls', 'TS', 'T', 'Pr', 'zpe', 'blk'] + (['st'] if tier != 'quick' else [])
        opts = [PRODUCT_OPTS.get(n, dict(coords)[n]) for n in small]
        for vals in itertools.product(*opts):
            cfg = dict(base)
            cfg.update(dict(zip(small, vals)))
            add(concretise(cfg))


# ---- vector family
def _vec_sides(tier):
    singles = [[k] for k in EMP_POOL]
    doubles = [[k, k] for k in EMP_POOL]
    pairs = [list(p) for p in itertools.combinations(EMP_POOL, 2)]
    for i, p in enumerate(pairs):
        if i % 2:
            p.reverse()
    out = singles + doubles + pairs
    if tier != 'quick':
        out += [list(p) for p in itertools.combinations(EMP_POOL, 3)] + [list(EMP_POOL)]
    return out


VEC_CENTRES = [
    dict(name='vec-nasa', cls=0, R=['XSG'], P=['NS'], TS=1, product=True),
    dict(name='vec-mixed-bep', cls=2, R=['SH', 'N9'], P=['XSG'], TS=2, product=False),
]


def _vec_coords(tier, centre):
    sides = _vec_sides(tier)
    rs = [centre['R']] + [s for s in sides if s != centre['R']]
    ps = [centre['P']] + [s for s in sides if s != centre['P']]
    tso = [VEC_TS[centre['TS']]] + [t for i, t in enumerate(VEC_TS) if i != centre['TS']]
    cls = [CLASSES[centre['cls']]] + [c for i, c in enumerate(CLASSES) if i != centre['cls']]
    return [('cls', cls), ('R', rs), ('P', ps), ('TS', tso), ('st', list(range(2, 9))),
            ('shape', list(range(len(VEC_SHAPES)))), ('pat', list(range(NVPAT))), ('Pr', PRESS),
            ('T', TEMPS)]


def _enumerate_vector(tier, add):
    for centre in VEC_CENTRES:
        coords = _vec_coords(tier, centre)
        base = _deviations(coords, 2, add, concretise_vec)
        if centre['product'] or tier != 'quick':
            small = ['cls', 'TS', 'shape', 'pat', 'Pr']
            opts = [dict(coords)[n] for n in small]
            for vals in itertools.product(*opts):
                cfg = dict(base)
                cfg.update(dict(zip(small, vals)))
                add(concretise_vec(cfg))


# ---- history family
def _hist_sequences(tier):
    tp = list(range(len(HIST_TP)))
    pairs = [[a, b] for a in tp for b in tp if a != b]
    aba = [[a, b, a] for a, b in pairs]
    if tier == 'quick':
        aba = [s for i, s in enumerate(aba) if i % 3 == 0]
    # the first sequence (centre) changes T and comes back
    first = [0, 1, 0]
    out = [first] + [s for s in pairs + aba if s != first]
    if tier != 'quick':
        out += [[a, b, c] for a in tp for b in tp for c in tp if len({a, b, c}) == 3]
    return out


def _hist_coords(tier, k):
    return [('rxn', [k]), ('blk', HIST_BLK), ('seq', _hist_sequences(tier)), ('bedit', [False, True]),
            ('reuse', HIST_REUSE), ('route', HIST_ROUTE), ('edit', [False, True]), ('other', [False, True])]


def _enumerate_history(tier, add):
    for k in range(len(HIST_RXN)):
        _deviations(_hist_coords(tier, k), 2 if tier == 'quick' else 3, add, concretise_hist)


# ---- near-thermoneutral family
def _near_coords():
    return [('famcls', NEAR_FAMCLS), ('shape', NEAR_SHAPES), ('lv', NEAR_LEVELS), ('TS', NEAR_TS),
            ('st', list(range(2, 9))), ('T', NEAR_T), ('Pr', PRESS), ('blk', NEAR_BLK), ('num', NUM)]


def _enumerate_near(tier, add):
    coords = _near_coords()
    base = _deviations(coords, 2, add, concretise_near)
    small = ['famcls', 'lv', 'TS', 'T'] + (['shape', 'Pr'] if tier != 'quick' else [])
    opts = [dict(coords)[n] for n in small]
    if tier == 'quick':
        opts[3] = NEAR_T[:2]
    for vals in itertools.product(*opts):
        cfg = dict(base)
        cfg.update(dict(zip(small, vals)))
        add(concretise_near(cfg))


# ---- constructor-option family
def _opt_sides(tier, which):
    singles = [[k] for k in OPT_POOL]
    pairs = [list(p) for p in itertools.permutations(OPT_POOL, 2)]          # both orders of every pair
    triples = [list(p) for p in itertools.permutations(OPT_POOL, 3)]
    if tier == 'quick':
        if which == 'P':
            return singles + [p for i, p in enumerate(pairs) if i % 3 == 0]
        return singles + pairs + [['SH', 'NS', 'XSG'], ['NS', 'N9', 'NS']]
    return singles + pairs + triples + [['NS', 'N9', 'NS'], ['XSG', 'XSG', 'NS'], ['NS', 'XSG', 'NS', 'SH']]


OPT_CENTRE = dict(R=['NS', 'XSG'], P=['N9'])
OPT_PRODUCT_R = {'quick': [['NS', 'XSG'], ['XSG', 'NS'], ['NS', 'SH'], ['SH', 'NS', 'XSG']]}


def _opt_coords(tier):
    rs = _opt_sides(tier, 'R')
    ps = _opt_sides(tier, 'P')
    rs = [OPT_CENTRE['R']] + [s for s in rs if s != OPT_CENTRE['R']]
    ps = [OPT_CENTRE['P']] + [s for s in ps if s != OPT_CENTRE['P']]
    return [('cls', OPT_CLASSES), ('opt', list(range(NOPT))), ('R', rs), ('P', ps), ('TS', OPT_TS),
            ('st', OPT_ST[tier]), ('route', OPT_ROUTE), ('T', OPT_T), ('Pr', PRESS), ('blk', OPT_BLK)]


def _enumerate_options(tier, add):
    coords = _opt_coords(tier)
    base = _deviations(coords, 2, add, concretise_opt)
    small = ['cls', 'opt', 'R', 'route'] + (['TS'] if tier != 'quick' else [])
    opts = [dict(coords)[n] for n in small]
    if tier == 'quick':
        opts[2] = OPT_PRODUCT_R['quick']
    for vals in itertools.product(*opts):
        cfg = dict(base)
        cfg.update(dict(zip(small, vals)))
        add(concretise_opt(cfg))


# ---- flag family
def _flag_coords(tier, centre):
    coords = dict(_coords(tier, centre))
    ts = coords['TS'] if tier != 'quick' else coords['TS'][:5]
    return [('cls', coords['cls']), ('TS', ts), ('T', TEMPS), ('Pr', PRESS), ('blk', FLAG_BLK),
            ('frev', FLAG_KINDS), ('fact', FLAG_KINDS)], coords


def _enumerate_flags(tier, add):
    for centre in CENTRES:
        coords, full = _flag_coords(tier, centre)
        rest = {n: full[n][0] for n in ('R', 'P', 'st', 'zpe', 'num')}

        def make(cfg, rest=rest):
            return concretise_flag(dict(rest, **cfg))
        base = _deviations(coords, 2, add, make)
        small = ['cls', 'frev', 'fact'] + (['TS', 'T'] if tier != 'quick' else [])
        opts = [dict(coords)[n] for n in small]
        for vals in itertools.product(*opts):
            cfg = dict(base)
            cfg.update(dict(zip(small, vals)))
            add(make(cfg))


_ENUM_CACHE = {}


def _enumerate(tier):
    """All concrete cases (list of dicts), deterministic, de-duplicated."""
    if tier in _ENUM_CACHE:
        return _ENUM_CACHE[tier]
    out, seen = [], set()

    def add(case):
        if case is None:                # a combination the alphabet does not contain (vector T on StatMech species)
            return
        key = core.dumps(case)
        if key not in seen:
            seen.add(key)
            out.append(case)

    _enumerate_scalar(tier, add)
    _enumerate_vector(tier, add)
    _enumerate_history(tier, add)
    _enumerate_near(tier, add)
    _enumerate_options(tier, add)
    _enumerate_flags(tier, add)
    _ENUM_CACHE[tier] = out
    return out


def _intify(x):
    return int(x) if isinstance(x, float) and x == int(x) else x


def _side_maker(st, integer=False):
    pos = [0]

    def side(keys):
        res = []
        for k in keys:
            nu = R.COEFFS[(st + 3 * pos[0]) % 7]
            res.append([k, _intify(nu) if integer else nu])
            pos[0] += 1
        return res
    return side


def _blocks(kw, b, Rs, Ps, TS):
    r0, rl, pl = Rs[0][0], Rs[-1][0], Ps[-1][0]
    if b == 1:
        kw['%s_kwargs' % r0] = {'T': 500.0}
    elif b == 2:
        kw['%s_kwargs' % pl] = {'P': 0.05}
    elif b == 3:
        if TS:
            kw['%s_kwargs' % TS[0][0]] = {'T': 700.0}
        else:
            kw['%s_kwargs' % r0] = {'P': 3.0}
    elif b == 4:
        kw['%s_kwargs' % r0] = {'T': 500.0}
        kw['%s_kwargs' % pl] = {'T': 700.0, 'P': 0.05}
    elif b == 5:
        kw['ZZ_kwargs'] = {'T': 1000.0, 'P': 9.0}
    elif b == 6:
        names = []
        for k, _ in Rs + Ps + (TS or []):
            if k not in names:
                names.append(k)
        for i, k in enumerate(names):
            kw['%s_kwargs' % k] = {'T': 400.0 + 75.0 * i} if i % 2 == 0 else {'T': 400.0 + 75.0 * i, 'P': 0.5}
        kw['%s_kwargs' % rl] = {}
    elif b == 7:
        # an option given through the per-species route instead of directly
        kw['%s_kwargs' % r0] = {'include_ZPE': True}
        kw['%s_kwargs' % pl] = dict(kw.get('%s_kwargs' % pl, {}), include_ZPE=False, T=700.0)
    return kw


def concretise(cfg):
    """Abstract configuration -> concrete, JSON-able case."""
    integer = cfg.get('num') == 'int'
    side = _side_maker(cfg['st'], integer)
    Rs, Ps = side(cfg['R']), side(cfg['P'])
    TS = side(cfg['TS']) if cfg['TS'] else None
    kw = {'T': cfg['T']}
    if cfg['Pr'] is not None:
        kw['P'] = cfg['Pr']
    if cfg['zpe'] is not None:
        kw['include_ZPE'] = cfg['zpe']
    _blocks(kw, cfg['blk'], Rs, Ps, TS)
    if integer:
        kw = {k: ({kk: (_intify(vv) if kk == 'T' else vv) for kk, vv in v.items()} if isinstance(v, dict)
                  else (_intify(v) if k == 'T' else v)) for k, v in kw.items()}
    return dict(cls=cfg['cls'], R=Rs, P=Ps, TS=TS, kw=kw)


def _vec(values, dtype):
    return {VEC: list(values), 'dtype': dtype}


def concretise_vec(cfg):
    side = _side_maker(cfg['st'])
    Rs, Ps = side(cfg['R']), side(cfg['P'])
    TS = side(cfg['TS']) if cfg['TS'] else None
    values, dtype = VEC_SHAPES[cfg['shape']]
    cast = int if dtype == 'int' else float
    v1 = _vec(values, dtype)
    # a second vector of the same length with other values (reversed order, shifted)
    v2 = _vec([cast(x + 50) for x in reversed(values)], dtype)
    r0, pl = Rs[0][0], Ps[-1][0]
    pat = cfg['pat']
    kw = {'T': v1}
    if pat == 1:            # vector for everybody, one species at its own scalar T
        kw['%s_kwargs' % r0] = {'T': 500.0}
    elif pat == 2:          # scalar for everybody, one species at a vector
        kw = {'T': cfg['T'], '%s_kwargs' % r0: {'T': v1}}
    elif pat == 3:          # vector for everybody, another vector for one species
        kw['%s_kwargs' % pl] = {'T': v2}
    elif pat == 4:          # a block of an absent species carrying a vector of another length
        kw['ZZ_kwargs'] = {'T': _vec([1000.0, 1100.0, 1200.0, 1300.0], 'float')}
    elif pat == 5:          # the transition state (else the first reactant) at another vector, an empty block
        kw['%s_kwargs' % pl] = {}
        kw['%s_kwargs' % (TS[0][0] if TS else r0)] = {'T': v2}
    if cfg['Pr'] is not None:
        kw['P'] = cfg['Pr']
    return dict(cls=cfg['cls'], R=Rs, P=Ps, TS=TS, kw=kw)


def concretise_hist(cfg):
    body = HIST_RXN[cfg['rxn']]
    side = _side_maker(body['st'])
    Rs, Ps = side(body['R']), side(body['P'])
    TS = side(body['TS']) if body['TS'] else None
    conds = []
    for j, i in enumerate(cfg['seq']):
        T, P = HIST_TP[i]
        kw = {'T': T}
        if P is not None:
            kw['P'] = P
        _blocks(kw, cfg['blk'], Rs, Ps, TS)
        if cfg['bedit'] and j % 2 == 1:
            # the caller edits an entry of a nested block between two calls
            for k in sorted(kw):
                if k.endswith('_kwargs') and 'T' in kw[k]:
                    kw[k]['T'] = kw[k]['T'] + 150.0
                    break
        conds.append(kw)
    return dict(kind='history', cls=body['cls'], R=Rs, P=Ps, TS=TS, conds=conds, reuse=cfg['reuse'],
                route=cfg['route'], edit=bool(cfg['edit']), other=bool(cfg['other']))


def concretise_near(cfg):
    """A nearly thermoneutral step: A -> B<k> (same coefficient on both sides, a spectator with its own coefficient
    on both sides and in the transition state), species of the large-energy families."""
    fam, cls = cfg['famcls']
    vector = isinstance(cfg['T'], str)
    integer = cfg['num'] == 'int'
    if vector and (fam == 'L' or integer):
        return None
    nu = R.COEFFS[cfg['st'] % 7]
    nus = R.COEFFS[(cfg['st'] + 3) % 7]
    if integer:
        nu, nus = _intify(nu), _intify(nus)
    a, b = fam + 'A', fam + ('V' if cfg['lv'] == 'V' else 'B%d' % cfg['lv'])
    spec = {'hop': None, 'spectator': fam + 'C', 'partner': NEAR_SMALL[fam]}[cfg['shape']]
    Rs = [[a, nu]] + ([[spec, nus]] if spec else [])
    Ps = ([[spec, nus]] if spec else []) + [[b, nu]]
    TS = None
    if cfg['TS']:
        TS = [[fam + cfg['TS'][0], nu]] + ([[spec, nus]] if spec else [])
    if vector:
        values, dtype = VEC_SHAPES[int(cfg['T'][1:])]
        kw = {'T': _vec(values, dtype)}
    else:
        kw = {'T': _intify(cfg['T']) if integer else cfg['T']}
    if cfg['Pr'] is not None:
        kw['P'] = cfg['Pr']
    if cfg['blk'] == 1:
        # the step's own species are all addressed individually, at one common temperature
        for k in [a, b] + ([TS[0][0]] if TS else []):
            kw['%s_kwargs' % k] = {'T': 500 if integer else 500.0}
    elif cfg['blk'] == 2:
        kw['ZZ_kwargs'] = {'T': 1000.0, 'P': 9.0}
    return dict(cls=cls, R=Rs, P=Ps, TS=TS, kw=kw, near=True)


def concretise_opt(cfg):
    """A reaction of one of the three classes built with class-specific constructor options, through one of four
    construction routes; the sides list gas-phase and non-gas species in the given order, consecutive species always
    carry different coefficients (_side_maker)."""
    side = _side_maker(cfg['st'])
    Rs, Ps = side(cfg['R']), side(cfg['P'])
    TS = side(cfg['TS']) if cfg['TS'] else None
    if isinstance(cfg['T'], str):
        values, dtype = VEC_SHAPES[int(cfg['T'][1:])]
        kw = {'T': _vec(values, dtype)}
    else:
        kw = {'T': cfg['T']}
    if cfg['Pr'] is not None:
        kw['P'] = cfg['Pr']
    _blocks(kw, cfg['blk'], Rs, Ps, TS)
    return dict(cls=cfg['cls'], R=Rs, P=Ps, TS=TS, kw=kw, opts=dict(OPTIONS[cfg['cls']][cfg['opt']]),
                route=cfg['route'])


def concretise_flag(cfg):
    """A scalar configuration whose getters receive rev / act in the given representation."""
    case = concretise(dict(cfg))
    if (cfg['frev'], cfg['fact']) != ('bool', 'bool'):
        case['flags'] = [cfg['frev'], cfg['fact']]
    return case


def _flag(b, kind):
    """The truth value b in the representation `kind`."""
    if kind == 'bool':
        return b
    if kind == 'npbool':
        return np.bool_(b)              # what indexing / iterating a boolean array or a pandas column hands out
    if kind == 'int':
        return 1 if b else 0
    if kind == 'npint':
        return np.int64(1 if b else 0)
    if kind == 'arr0':
        return np.array(bool(b))        # 0-d boolean array
    raise KeyError(kind)


N_SHARDS = {'quick': 32, 'thorough': 64}


def bounds(tier):
    cases = _enumerate(tier)
    nh = sum(1 for c in cases if c.get('kind') == 'history')
    nv = sum(1 for c in cases if _has_vec(c) and not c.get('near') and 'opts' not in c)
    nn = sum(1 for c in cases if c.get('near'))
    no = sum(1 for c in cases if 'opts' in c)
    nf = sum(1 for c in cases if c.get('flags'))
    return dict(side_species=R.SIDE_POOL, ts_options=TS_Q if tier == 'quick' else TS_T,
                sides_per_centre=len(_sides(tier, ['SG'])), coefficients=R.COEFFS,
                classes=CLASSES, T=TEMPS, P=PRESS, include_ZPE=ZPE, block_patterns=NBLK, number_types=NUM,
                centres=[c['name'] for c in CENTRES], deviation_level=2,
                full_product='cls x TS x T x P x include_ZPE x blocks' + ('' if tier == 'quick' else ' x stoichiometry offset'),
                vector_species=EMP_POOL, vector_ts_options=VEC_TS,
                vector_shapes=[dict(values=v, dtype=d) for v, d in VEC_SHAPES],
                vector_placements=NVPAT, vector_sides=len(_vec_sides(tier)),
                vector_centres=[c['name'] for c in VEC_CENTRES],
                history_reactions=len(HIST_RXN), history_TP=HIST_TP, history_sequences=len(_hist_sequences(tier)),
                history_block_patterns=HIST_BLK, history_reuse=HIST_REUSE, history_routes=HIST_ROUTE,
                history_deviation_level=2 if tier == 'quick' else 3, history_getters=HIST_QUANT,
                configurations=len(cases), scalar_configurations=len(cases) - nh - nv - nn - no - nf,
                vector_configurations=nv, histories=nh,
                near_thermoneutral=dict(configurations=nn, slab_energy_eV=E_SLAB,
                                        steps_eV=NEAR_DE, barriers_eV=NEAR_BARRIER, family_class=NEAR_FAMCLS,
                                        shapes=NEAR_SHAPES, T=NEAR_T, blocks=NEAR_BLK),
                constructor_options=dict(configurations=no, classes=OPT_CLASSES, options=OPTIONS, species=OPT_POOL,
                                         non_gas=list(OPT_NONGAS), reactant_sides=len(_opt_sides(tier, 'R')),
                                         product_sides=len(_opt_sides(tier, 'P')), ts_options=OPT_TS,
                                         routes=OPT_ROUTE, T=OPT_T, blocks=OPT_BLK, offsets=OPT_ST[tier],
                                         deviation_level=2,
                                         full_product='cls x options x reactant side x route' +
                                         ('' if tier == 'quick' else ' x TS')),
                flag_representation=dict(configurations=nf, kinds=FLAG_KINDS, blocks=FLAG_BLK, deviation_level=2,
                                         full_product='cls x rev kind x act kind' +
                                         ('' if tier == 'quick' else ' x TS x T') + ' at each of the three centres'))


def shards(tier):
    n = N_SHARDS[tier]
    return [dict(tier=tier, k=k, n=n) for k in range(n)]


# ------------------------------------------------------------------ vector conditions
def _is_vec(v):
    return isinstance(v, dict) and VEC in v


def _veclen(kw):
    """Length of the vector conditions addressed to species of the call (None: all scalar)."""
    n = None
    for k, v in kw.items():
        if k == 'ZZ_kwargs':
            continue                                    # absent species: any length
        for x in (v.values() if isinstance(v, dict) and not _is_vec(v) else [v]):
            if _is_vec(x):
                m = len(x[VEC])
                if n is not None and m != n:
                    raise ValueError('inconsistent vector lengths in case')
                n = m
    return n


def _materialise(kw):
    """JSON-able keyword dictionary -> the dictionary really passed (vectors become numpy arrays)."""
    out = {}
    for k, v in kw.items():
        if _is_vec(v):
            out[k] = np.array(v[VEC], dtype=(np.int64 if v.get('dtype') == 'int' else np.float64))
        elif isinstance(v, dict):
            out[k] = _materialise(v)
        else:
            out[k] = v
    return out


def _refnum(x):
    return float(x) if isinstance(x, int) and not isinstance(x, bool) else x


def _slice(kw, i):
    """Reference conditions of element i (None: the scalar call): plain floats everywhere."""
    out = {}
    for k, v in kw.items():
        if k == 'ZZ_kwargs':
            out[k] = {}                                 # nobody is called ZZ
        elif _is_vec(v):
            out[k] = float(v[VEC][i])
        elif isinstance(v, dict):
            out[k] = _slice(v, i)
        else:
            out[k] = _refnum(v)
    return out


def _canon(o):
    """Type-preserving canonical form of a keyword dictionary (arrays with dtype, int vs float)."""
    if isinstance(o, np.ndarray):
        return {'ndarray': o.tolist(), 'dtype': str(o.dtype), 'shape': list(o.shape)}
    if isinstance(o, dict):
        return {k: _canon(v) for k, v in o.items()}
    if isinstance(o, (list, tuple)):
        return [type(o).__name__] + [_canon(v) for v in o]
    if isinstance(o, (int, np.integer)) and not isinstance(o, (bool, np.bool_)):
        return {'int': int(o)}
    return o


# ------------------------------------------------------------------ building the real objects
def build_species(key, surface_bep=False):
    """A fresh pool species: the shared pool of pmc.ref.rxn plus the large-energy families L (StatMech) / M (Nasa)."""
    if key not in NEAR_KEYS:
        return R.build_species(key, surface_bep=surface_bep)
    from pmutt import constants as c
    from pmutt.statmech import StatMech
    from pmutt.statmech.vib import HarmonicVib
    from pmutt.statmech.elec import GroundStateElec
    from pmutt.empirical.nasa import Nasa
    fam, tail = key[0], key[1:]
    if tail in ('A', 'V'):
        E = E_SLAB
    elif tail == 'C':
        E = E_SPECTATOR
    elif tail in NEAR_BARRIER:
        E = E_SLAB + NEAR_BARRIER[tail]
    else:
        E = E_SLAB + NEAR_DE[int(tail[1:])]
    if fam == 'L':
        vib = {'V': [1895.0, 430.5, 377.0], 'C': [2050.0, 310.0], 'T0': [1650.0, 402.5],
               'T1': [1650.0, 402.5]}.get(tail, [1901.5, 423.0, 381.25])
        return StatMech(name=key, elements={'H': 1}, vib_model=HarmonicVib(vib_wavenumbers=vib),
                        elec_model=GroundStateElec(potentialenergy=E, spin=0))
    a6 = E / c.kb('eV/K')
    d1 = {'V': 0.05, 'C': 0.6, 'T0': -0.25, 'T1': -0.25}.get(tail, 0.0)
    return Nasa(name=key, T_low=200., T_mid=600., T_high=3500., phase='S', elements={'H': 1},
                a_low=[0.55 + d1, 6.2e-3, -4.0e-6, 1.2e-9, -1.0e-13, a6, -2.75 - d1],
                a_high=[1.35 + d1, 3.9e-3, -1.9e-6, 4.0e-10, -3.0e-14, a6 - 140.0, -6.5 - d1])


def build_states(case):
    surface = case['cls'] == 'SurfaceReaction'
    objs = {}

    def get(key):
        if key not in objs:
            objs[key] = build_species(key, surface_bep=surface)
        return objs[key]
    return {'reactants': [(get(k), k, nu) for k, nu in case['R']],
            'products': [(get(k), k, nu) for k, nu in case['P']],
            'ts': [(get(k), k, nu) for k, nu in case['TS']] if case['TS'] else None}


def _reaction_class(name):
    if name == 'Reaction':
        from pmutt.reaction import Reaction as cls
    elif name == 'ChemkinReaction':
        from pmutt.reaction import ChemkinReaction as cls
    else:
        from pmutt.omkm.reaction import SurfaceReaction as cls
    return cls


def make_reaction(cls_name, states, keys_RP, opts=None):
    """The reaction of class cls_name on the species objects of states (opts: further constructor options);
    None when ChemkinReaction refuses a StatMech species."""
    kwargs = dict(reactants=[s for s, _, _ in states['reactants']],
                  reactants_stoich=[nu for _, _, nu in states['reactants']],
                  products=[s for s, _, _ in states['products']],
                  products_stoich=[nu for _, _, nu in states['products']])
    if states['ts']:
        kwargs.update(transition_state=[s for s, _, _ in states['ts']],
                      transition_state_stoich=[nu for _, _, nu in states['ts']])
    if opts:
        kwargs.update(copy.deepcopy(opts))
    cls = _reaction_class(cls_name)
    if cls_name == 'ChemkinReaction':
        # ChemkinReaction classifies itself from species.phase at construction; StatMech species have none
        try:
            return cls(**kwargs)
        except AttributeError as e:
            if "no attribute 'phase'" in str(e) and any(k in STATMECH_KEYS for k in keys_RP):
                return None
            raise
    return cls(**kwargs)


def build(case):
    """Returns (reaction, {state: [(species_obj, key, nu)]}) or (None, reason)."""
    states = build_states(case)
    rxn = make_reaction(case['cls'], states, [k for k, _ in case['R'] + case['P']])
    if rxn is None:
        return None, 'chemkin-needs-phase'
    return rxn, states


def _construct(case):
    """The reaction of an option-family case: class, constructor options and construction route of the case, on
    fresh species.  None when from_dict leaves a species undecoded."""
    cls = _reaction_class(case['cls'])
    states = build_states(case)
    keys_RP = [k for k, _ in case['R'] + case['P']]
    opts = case.get('opts') or {}
    if case['route'] == 'from_string':
        species = {key: sp for lst in states.values() if lst for sp, key, _ in lst}
        return cls.from_string(_reaction_string(case), species, **copy.deepcopy(opts))
    rxn0 = make_reaction(case['cls'], states, keys_RP, opts)
    if case['route'] == 'init':
        return rxn0
    if case['route'] == 'deepcopy':
        return copy.deepcopy(rxn0)
    rxn = cls.from_dict(rxn0.to_dict())
    if any(isinstance(sp, dict) for sp in list(rxn.reactants) + list(rxn.products) +
           list(rxn.transition_state or [])):
        return None
    return rxn


BEP_NEEDS = {'UoRT': ['UoRT'], 'HoRT': ['HoRT'], 'SoR': ['SoR'], 'FoRT': ['UoRT', 'SoR'],
             'GoRT': ['HoRT', 'SoR']}
BEP_DESC = {'BEP': 'HoRT', 'BEPR': 'HoRT', 'BEPE': 'EoRT'}


class Values:
    """Reference per-species values X_i under the routed keywords, with refusals.

    A (state, quantity) is *supported* when every species of the state implements the getter
    itself (static table) and the species' own getter produces a value for these keywords (a
    species getter that raises - e.g. include_ZPE=True on a species without a vibrational model -
    is the model refusing, not the reaction).  A BEP species additionally needs the reactant (and,
    for its descriptor, product) quantities it is defined through."""

    def __init__(self, rxn, states, ctx):
        self.rxn, self.states, self.ctx = rxn, states, ctx
        self.cache = {}

    def plain(self, sp, key, quant, kw):
        """value of a non-BEP species or None (refused)"""
        ck = (key, quant, core.dumps(R.effective_kwargs(sp.name, kw)))
        if ck not in self.cache:
            if quant not in SUPPORT[key]:
                self.cache[ck] = None
            else:
                try:
                    self.cache[ck] = R.species_value(sp, quant, kw)
                except Exception as e:          # noqa
                    if core.classify_exception(e) is None:
                        raise
                    self.ctx.refuse('species getter raises: %s.get_%s: %s' % (key, quant, type(e).__name__))
                    self.cache[ck] = None
        return self.cache[ck]

    def state_ok(self, sname, quant, kw):
        return all(not key.startswith('BEP') and self.plain(sp, key, quant, kw) is not None
                   for sp, key, _ in self.states[sname])

    def terms(self, sname, quant, kw):
        """[(nu, X_i)] or None when the state does not support the quantity."""
        if self.states[sname] is None:
            return None
        out = []
        for sp, key, nu in self.states[sname]:
            if key.startswith('BEP'):
                if quant not in SUPPORT[key]:
                    return None
                needs = BEP_NEEDS.get(quant, [])
                kb = R.effective_kwargs(sp.name, kw)      # the BEP sees no blocks at all
                for q in needs:
                    if not self.state_ok('reactants', q, kb):
                        return None
                if needs:
                    d = BEP_DESC[key]
                    if not (self.state_ok('reactants', d, kb) and self.state_ok('products', d, kb)):
                        return None
                v = R.species_value(sp, quant, kw, reaction=self.rxn)
                if np.size(v) != 1:
                    # the BEP's value goes through the reaction: at scalar conditions it is one number
                    raise _NotScalar('%s.get_%s(reaction=...) at scalar conditions has shape %r'
                                     % (key, quant, np.shape(v)))
                out.append((nu, v))
            else:
                v = self.plain(sp, key, quant, kw)
                if v is None:
                    return None
                out.append((nu, v))
        return out


STATE_ARG = {'reactants': 'reactants', 'products': 'products', 'ts': 'transition state'}


def _initial_final(rev, act):
    ini = 'products' if rev else 'reactants'
    fin = 'ts' if act else ('reactants' if rev else 'products')
    return ini, fin


class _Failed(Exception):
    pass


class _NotScalar(Exception):
    pass


def _div(a, *bs):
    """a / b / ... without ZeroDivisionError (inf / nan fail the comparison instead)"""
    out = np.asarray(a, dtype=float)
    with np.errstate(all='ignore'):
        for b in bs:
            out = out / np.asarray(b, dtype=float)
    return float(out) if out.ndim == 0 else out


def _call(ctx, sig, case, fn, *a, **kw):
    """Call reaction code; an exception from inside pMuTT is a violation of 'getter evaluates'."""
    ctx.evals()
    try:
        return fn(*a, **kw)
    except Exception as e:                     # noqa
        where = core.classify_exception(e)
        if where is None:
            raise
        s = dict(sig, exc=type(e).__name__, where=where)
        ctx.fail('getter evaluates', s, case, '%s: %s' % (type(e).__name__, str(e)[:200]), 'a value')
        raise _Failed()


def _scalar(v):
    """The returned value as float / float array (a copy).  A returned array is then overwritten in
    place: results must be fresh objects, so this may not change what any later call reports."""
    a = np.array(v, dtype=float)
    out = float(a.ravel()[0]) if a.size == 1 else a
    if isinstance(v, np.ndarray) and v.ndim > 0 and v.flags.writeable:
        v[...] = SCRIBBLE
    return out


def _log(x):
    a = np.asarray(x, dtype=float)
    with np.errstate(all='ignore'):
        out = np.where(a > 0, np.log(np.where(a > 0, a, 1.0)), np.nan)
    return float(out) if out.ndim == 0 else out


def _jl(x):
    return np.asarray(x).tolist() if isinstance(x, np.ndarray) else x


def _tags(case, ctx):
    ctx.tag('cls:' + case['cls'])
    ts = case['TS']
    if not ts:
        ctx.tag('ts:none')
    else:
        if len(ts) > 1:
            ctx.tag('ts:two')
        if any(k.startswith('BEP') for k, _ in ts):
            ctx.tag('ts:bep')
        if any(not k.startswith('BEP') for k, _ in ts):
            ctx.tag('ts:explicit')
    rk, pk = [k for k, _ in case['R']], [k for k, _ in case['P']]
    tk = [k for k, _ in (ts or [])]
    if len(set(rk)) < len(rk) or len(set(pk)) < len(pk):
        ctx.tag('side:repeated-species')
    if set(rk) & set(pk):
        ctx.tag('side:species-on-both-sides')
    coeffs = [nu for _, nu in case['R'] + case['P'] + (ts or [])]
    if any(nu != int(nu) for nu in coeffs):
        ctx.tag('stoich:fractional')
    if any(isinstance(nu, int) for nu in coeffs):
        ctx.tag('num:int-coefficient')
    for kw in ([case['kw']] if 'kw' in case else case['conds']):
        _tags_kw(kw, rk, pk, tk, ctx)
    if 'opts' in case:
        _tags_opt(case, rk, ctx)
    if case.get('flags'):
        krev, kact = case['flags']
        if krev != 'bool':
            ctx.tag('flag:rev:' + krev)
        if kact != 'bool':
            ctx.tag('flag:act:' + kact)
        ctx.tag('flag:both' if 'bool' not in (krev, kact) else 'flag:rev-only' if kact == 'bool' else 'flag:act-only')
        if 'bool' not in (krev, kact) and krev != kact:
            ctx.tag('flag:different-kinds')
    if case.get('near'):
        ctx.tag('near:statmech' if rk[0][0] == 'L' else 'near:nasa')
        tail = pk[-1][1:]
        if tail == 'V':
            ctx.tag('near:thermal-only')
        elif NEAR_DE[int(tail[1:])] == 0.0:
            ctx.tag('near:equal-energies')
        if len(rk) > 1:
            ctx.tag('near:spectator')
        if tk and tk[0][1:] == 'T1':
            ctx.tag('near:barrier-0.2meV')
        if _is_vec(case['kw'].get('T')):
            ctx.tag('near:vector-T')
        if ('%s_kwargs' % rk[0]) in case['kw']:
            ctx.tag('near:per-species-T')
        if isinstance(case['kw'].get('T'), int):
            ctx.tag('near:int')


def _tags_opt(case, rk, ctx):
    opts = case['opts']
    ctx.tag('opt:route:' + case['route'])
    if not opts:
        ctx.tag('opt:none')
    if opts.get('is_adsorption'):
        ctx.tag('opt:is_adsorption')
    if opts.get('is_adsorption') is False:
        ctx.tag('opt:is_adsorption-explicit-false')
    for k, t in (('sticking_coeff', 'sticking_coeff'), ('beta', 'beta'), ('A', 'A-Ea'), ('direction', 'direction-id'),
                 ('use_motz_wise', 'motz-wise'), ('notes', 'notes')):
        if k in opts:
            ctx.tag('opt:' + t)
    gas = [k not in OPT_NONGAS for k in rk]
    before = any((not gas[i]) and any(gas[i + 1:]) for i in range(len(gas)))
    if before:
        ctx.tag('opt:nongas-before-gas')
        if opts.get('is_adsorption'):
            ctx.tag('opt:adsorption-nongas-before-gas')
    if any(gas[i] and not all(gas[i + 1:]) for i in range(len(gas))):
        ctx.tag('opt:gas-before-nongas')
    if all(gas):
        ctx.tag('opt:all-gas')
    if len(rk) >= 3:
        ctx.tag('opt:three-reactants')
    if _is_vec(case['kw'].get('T')):
        ctx.tag('opt:vector-T')
    if any(k.endswith('_kwargs') for k in case['kw']):
        ctx.tag('opt:blocks')


def _tags_kw(kw, rk, pk, tk, ctx):
    blocks = [k[:-7] for k in kw if k.endswith('_kwargs')]
    if not blocks:
        ctx.tag('blk:none')
    if len(blocks) > 1:
        ctx.tag('blk:several')
    for b in blocks:
        if b in rk:
            ctx.tag('blk:reactant')
        if b in pk:
            ctx.tag('blk:product')
        if b in tk:
            ctx.tag('blk:ts')
        if b not in rk + pk + tk:
            ctx.tag('blk:absent')
        if 'include_ZPE' in kw[b + '_kwargs']:
            ctx.tag('blk:option-through-block')
    if 'P' in kw:
        ctx.tag('P:explicit')
    if 'include_ZPE' in kw:
        ctx.tag('zpe:explicit')
        if kw['include_ZPE'] is False:
            ctx.tag('zpe:explicit-false')
    if isinstance(kw.get('T'), int):
        ctx.tag('num:int-T')
    # vector conditions
    vg = _is_vec(kw.get('T'))
    vb = [b for b in blocks if b != 'ZZ' and _is_vec(kw[b + '_kwargs'].get('T'))]
    if vg:
        ctx.tag('vec:global-T')
    if vb:
        ctx.tag('vec:block-T')
    if vg and vb:
        ctx.tag('vec:global-and-block')
    if 'ZZ' in blocks and _is_vec(kw['ZZ_kwargs'].get('T')):
        ctx.tag('vec:absent-block')
    for v in [kw.get('T')] + [kw[b + '_kwargs'].get('T') for b in vb]:
        if _is_vec(v):
            if v.get('dtype') == 'int':
                ctx.tag('vec:int-dtype')
            if len(v[VEC]) == 1:
                ctx.tag('vec:length-1')
            if len(v[VEC]) > 2 and list(v[VEC]) != sorted(set(v[VEC])):
                ctx.tag('vec:unsorted-repeated')
            if any(k.startswith('BEP') for k in tk):
                ctx.tag('vec:bep')


def _has_vec(case):
    return 'kw' in case and _veclen(case['kw']) is not None


def _nontrivial(case):
    if case.get('kind') == 'history':
        return True
    kw = case['kw']
    return bool(any(k.endswith('_kwargs') for k in kw) or len(case['R']) > 1 or len(case['P']) > 1
                or (case['TS'] and len(case['TS']) > 1) or _has_vec(case) or case.get('near')
                or 'opts' in case or case.get('flags'))


def _base_sig(case):
    ts = case['TS']
    kind = 'none' if not ts else ('bep' if any(k.startswith('BEP') for k, _ in ts) else 'explicit')
    kws = [case['kw']] if 'kw' in case else case['conds']
    blk = 'some' if any(k.endswith('_kwargs') for kw in kws for k in kw) else 'none'
    sig = {'cls': case['cls'], 'ts': kind, 'blk': blk}
    if case.get('kind') == 'history':
        sig['family'] = 'history'
        sig['route'] = case['route']
    elif _has_vec(case):
        sig['T'] = 'array'
    if case.get('near'):
        sig['family'] = 'near-thermoneutral'
    if 'opts' in case:
        sig['family'] = 'constructor-options'
        sig['route'] = case['route']
        sig['options'] = '+'.join(sorted(case['opts'])) or 'none'
    if case.get('flags'):
        sig['family'] = 'flag-representation'
        sig['flag_rev'], sig['flag_act'] = case['flags']
    return sig


# ------------------------------------------------------------------ the clauses on one call set
def _clauses(ctx, case, sig0, rxn, states, vals, kw, kws, n, quants, clamped_cls, locality=True, flags=None):
    """All clauses of C08 for one reaction object and one keyword dictionary.

    kw      the dictionary passed to the getters (may hold numpy arrays);
    kws     the reference conditions: one all-scalar dictionary per element (a single one when n is None);
    n       number of elements of the vector conditions, None for a scalar call;
    states  the species the reference evaluates (the reaction's own, or those of a twin);
    vals    reference values (species getters of `states`, evaluated at scalars only)."""
    canon_before = _canon(copy.deepcopy(kw))
    # how the direction flags are handed over: Python bool (default) or another truthy / falsy representation
    krev, kact = flags or ('bool', 'bool')

    def fr(b):
        return _flag(b, krev)

    def fa(b):
        return _flag(b, kact)

    def unmodified(sig):
        ctx.equal('caller keyword dictionaries (nested blocks included) unmodified', _canon(kw), canon_before,
                  sig, case)

    def stack(xs):
        return xs[0] if n is None else np.array(xs, dtype=float)

    def one():
        return 1.0 if n is None else np.ones(n)

    def tight(m, *changes):
        """scale of the clauses relative to the change: rtol 1e-13 x this = 1e-13 sum|nu X| + 1e-6 |change|"""
        big = 0.0
        for ch in changes:
            big = np.maximum(big, np.abs(np.asarray(ch, dtype=float)))
        if n is not None and n > 1 and np.size(big) == 1 and np.size(m) == n:
            big = np.broadcast_to(np.ravel(big), (n,))
        out = m + 1e7 * big + 1e-3
        return float(out) if np.ndim(out) == 0 else out

    def is_small(m, *changes):
        """True when the change is below 1e-4 of the state values (for some element).  Above that the tolerance
        relative to the change (1e-6 |change| >= 1e-10 sum|nu X|) is implied by the clause relative to the state."""
        big = 0.0
        for ch in changes:
            big = np.maximum(big, np.abs(np.asarray(ch, dtype=float)))
        with np.errstate(all='ignore'):
            return bool(np.any(~(big >= 1e-4 * np.asarray(m, dtype=float))))

    class _C:
        """ctx with the element-wise reading of a vector call: the value returned for n conditions is
        n numbers, or one number standing for all of them (numpy broadcasting: a state none of whose
        species gets the vector, a constant such as a BEP's q = 1)."""
        @staticmethod
        def close(clause, obs, exp, sig, case, **k):
            if n is not None and n > 1 and {np.size(obs), np.size(exp)} == {1, n}:
                obs, exp = np.broadcast_to(np.ravel(obs), (n,)), np.broadcast_to(np.ravel(exp), (n,))
            return ctx.close(clause, obs, exp, sig, case, **k)
    ctv = _C

    def terms(quant, sname, xform=None):
        """per element: [(nu, X_i)]; None when the state does not support the quantity"""
        out = []
        for k in kws:
            t = vals.terms(sname, quant, xform(k) if xform else k)
            if t is None:
                return None
            out.append(t)
        return out

    def zpe_default(k):
        k = dict(k)
        k.setdefault('include_ZPE', False)
        return k

    for quant in quants:
        kwq = kw
        # get_EoRT_state names include_ZPE (default False) and forwards it globally
        xform = zpe_default if quant == 'EoRT' else None
        ref, mag, sup = {}, {}, {}
        for s in ('reactants', 'products', 'ts'):
            t = terms(quant, s, xform)
            sup[s] = t is not None
            if sup[s]:
                ref[s] = stack([R.combine(ti, quant) for ti in t])
                mag[s] = stack([R.magnitude(ti) for ti in t]) if quant != 'q' else abs(ref[s])
        if not any(sup.values()):
            continue
        ctx.tag('getter:' + quant)
        name_state = 'get_%s_state' % quant
        name_delta = 'get_delta_%s' % quant
        name_act = 'get_%s_act' % quant

        # ---- state quantities: Hess sum over the state's species
        got_state = {}
        for s in sup:
            if not sup[s]:
                continue
            sig = dict(sig0, getter=name_state, state=s)
            try:
                v = _scalar(_call(ctx, sig, case, getattr(rxn, name_state), state=STATE_ARG[s], **kwq))
                ctv.close('state quantity = sum nu_i X_i over the state (product of powers for q)',
                          v, ref[s], sig, case, rtol=1e-10, atol=(0.0 if quant == 'q' else 1e-10),
                          scale=mag[s] + (0.0 if quant == 'q' else 1.0))
                got_state[s] = v
            except _Failed:
                pass
            unmodified(sig)

        # ---- deltas in every (rev, act)
        got = {}
        for rev in (False, True):
            for act in (False, True):
                ini, fin = _initial_final(rev, act)
                if not (sup[ini] and sup[fin]):
                    continue
                if rev:
                    ctx.tag('dir:rev')
                if act:
                    ctx.tag('dir:act')
                sig = dict(sig0, getter=name_delta, rev=rev, act=act)
                try:
                    v = _scalar(_call(ctx, sig, case, getattr(rxn, name_delta), rev=fr(rev), act=fa(act), **kwq))
                except _Failed:
                    continue
                unmodified(sig)
                got[(rev, act)] = v
                if quant == 'q':
                    exp = ref[fin] / ref[ini]
                    ctv.close('delta = final - initial (ratio for q), by Hess from the species getters',
                              _log(v), _log(exp), sig, case, rtol=1e-10, atol=1e-10,
                              scale=abs(_log(ref[fin])) + abs(_log(ref[ini])) + 1.0)
                else:
                    exp = ref[fin] - ref[ini]
                    ctv.close('delta = final - initial (ratio for q), by Hess from the species getters',
                              v, exp, sig, case, rtol=1e-10, atol=1e-10, scale=mag[fin] + mag[ini] + 1.0)
                    if is_small(mag[fin] + mag[ini], exp):
                        ctv.close('delta = final - initial, by Hess from the species getters,' + TIGHT,
                                  v, exp, sig, case, rtol=1e-13, atol=0.0, scale=tight(mag[fin] + mag[ini], exp))
                    if not act:
                        rel = np.min(np.abs(exp) / (mag[fin] + mag[ini] + 1e-300))
                        ctx.tag('change:0' if rel == 0 else 'change:below-1e-6-of-state' if rel < 1e-6 else
                                'change:1e-6..1e-4-of-state' if rel < 1e-4 else
                                'change:1e-4..1e-2-of-state' if rel < 1e-2 else 'change:large')
        sc = sum(mag.values()) + 1.0
        if (False, False) in got and (True, False) in got:
            sig = dict(sig0, getter=name_delta, law='reversal')
            if quant == 'q':
                ctv.close('reversing the direction flips the sign (inverts the ratio for q)',
                          got[(False, False)] * got[(True, False)], one(),
                          sig, case, rtol=1e-9, atol=0.0)
            else:
                ctv.close('reversing the direction flips the sign (inverts the ratio for q)',
                          got[(True, False)], -got[(False, False)], sig, case, rtol=1e-10, atol=1e-10, scale=sc)
                if is_small(sc - 1.0, got[(False, False)], got[(True, False)]):
                    ctv.close('reversing the direction flips the sign,' + TIGHT,
                              got[(True, False)], -got[(False, False)], sig, case, rtol=1e-13, atol=0.0,
                              scale=tight(sc - 1.0, got[(False, False)], got[(True, False)]))
        if (False, True) in got and (True, True) in got and (False, False) in got:
            sig = dict(sig0, getter=name_delta, law='detailed-balance')
            if quant == 'q':
                ctv.close('forward minus reverse activation quantity = reaction change (ratio for q)',
                          _div(got[(False, True)], got[(True, True)], got[(False, False)]),
                          one(), sig, case, rtol=1e-9, atol=0.0)
            else:
                ctv.close('forward minus reverse activation quantity = reaction change (ratio for q)',
                          got[(False, True)] - got[(True, True)], got[(False, False)], sig, case,
                          rtol=1e-10, atol=1e-10, scale=sc)
                if is_small(sc - 1.0, got[(False, False)], got[(False, True)] - got[(True, True)]):
                    ctv.close('forward minus reverse activation quantity = reaction change,' + TIGHT,
                              got[(False, True)] - got[(True, True)], got[(False, False)], sig, case,
                              rtol=1e-13, atol=0.0,
                              scale=tight(sc - 1.0, got[(False, False)], got[(False, True)] - got[(True, True)]))

        # ---- get_X_act(rev) (unclamped ones)
        if quant != 'EoRT' and sup['ts'] and not (clamped_cls and quant in ('HoRT', 'GoRT')):
            for rev in (False, True):
                ini, fin = _initial_final(rev, True)
                if not sup[ini]:
                    continue
                sig = dict(sig0, getter=name_act, rev=rev, act=True)
                try:
                    v = _scalar(_call(ctx, sig, case, getattr(rxn, name_act), rev=fr(rev), **kwq))
                except _Failed:
                    continue
                unmodified(sig)
                if quant == 'q':
                    # get_q_act names include_ZPE (default False) and forwards it globally
                    tf, ti = terms('q', 'ts', zpe_default), terms('q', ini, zpe_default)
                    if tf is None or ti is None:
                        continue
                    lf = _log(stack([R.combine(t, 'q') for t in tf]))
                    li = _log(stack([R.combine(t, 'q') for t in ti]))
                    ctv.close('activation quantity = transition state - initial state of that direction',
                              _log(v), lf - li, sig, case, rtol=1e-10,
                              atol=1e-10, scale=abs(lf) + abs(li) + 1.0)
                else:
                    ctv.close('activation quantity = transition state - initial state of that direction',
                              v, ref['ts'] - ref[ini], sig, case, rtol=1e-10, atol=1e-10,
                              scale=mag['ts'] + mag[ini] + 1.0)

        # ---- dimensional twins: same laws in energy units (value = dimensionless x R[T])
        if quant in DIM_UNITS and (False, False) in got:
            short, units, withT = DIM_UNITS[quant]
            from pmutt import constants as c
            T = kw['T']
            # the reaction multiplies by the T it is given (a scalar, or one value per element)
            Tref = np.asarray(T, dtype=float) if isinstance(T, np.ndarray) else T
            fac = c.R(units + '/K') * Tref if withT else c.R(units)
            afac = float(np.min(np.abs(fac)))       # = abs(fac) for a scalar
            for rev in (False, True):
                for act in (False, True):
                    if (rev, act) not in got:
                        continue
                    sig = dict(sig0, getter='get_delta_' + short, rev=rev, act=act)
                    kwd = {k: v for k, v in kw.items() if k != 'T'} if withT else kw
                    try:
                        if withT:
                            v = _scalar(_call(ctx, sig, case, getattr(rxn, 'get_delta_' + short), units=units,
                                              T=T, rev=fr(rev), act=fa(act), **kwd))
                        else:
                            v = _scalar(_call(ctx, sig, case, getattr(rxn, 'get_delta_' + short), units=units,
                                              rev=fr(rev), act=fa(act), **kwd))
                    except _Failed:
                        continue
                    ini, fin = _initial_final(rev, act)
                    ctv.close('dimensional delta = (final - initial) x R[T]', v, (ref[fin] - ref[ini]) * fac,
                              sig, case, rtol=1e-10, atol=1e-10 * afac, scale=(mag[fin] + mag[ini] + 1.0) * abs(fac))
                    # (get_E_act is the Arrhenius activation energy, not an electronic-energy change: C09)
                    if act and quant != 'EoRT' and not (clamped_cls and quant in ('HoRT', 'GoRT')):
                        sig = dict(sig0, getter='get_%s_act' % short, rev=rev, act=True)
                        try:
                            if withT:
                                va = _scalar(_call(ctx, sig, case, getattr(rxn, 'get_%s_act' % short),
                                                   units=units, T=T, rev=fr(rev), **kwd))
                            else:
                                va = _scalar(_call(ctx, sig, case, getattr(rxn, 'get_%s_act' % short),
                                                   units=units, rev=fr(rev), **kwd))
                        except _Failed:
                            continue
                        ctv.close('dimensional activation quantity = (transition state - initial) x R[T]', va,
                                  (ref['ts'] - ref[ini]) * fac, sig, case, rtol=1e-10, atol=1e-10 * afac,
                                  scale=(mag['ts'] + mag[ini] + 1.0) * abs(fac))
            for s in got_state:
                sig = dict(sig0, getter='get_%s_state' % short, state=s)
                kwd = {k: v for k, v in kw.items() if k != 'T'} if withT else kw
                try:
                    if withT:
                        v = _scalar(_call(ctx, sig, case, getattr(rxn, 'get_%s_state' % short), state=STATE_ARG[s],
                                          units=units, T=T, **kwd))
                    else:
                        v = _scalar(_call(ctx, sig, case, getattr(rxn, 'get_%s_state' % short), state=STATE_ARG[s],
                                          units=units, **kwd))
                except _Failed:
                    continue
                ctv.close('dimensional state quantity = sum nu_i X_i x R[T]', v, ref[s] * fac, sig, case,
                          rtol=1e-10, atol=1e-10 * afac, scale=(mag[s] + 1.0) * abs(fac))
            unmodified(dict(sig0, getter='get_delta_' + short))

        # ---- equilibrium constant
        if quant == 'GoRT':
            K = {}
            for rev in (False, True):
                for act in (False, True):
                    if (rev, act) not in got:
                        continue
                    ini, fin = _initial_final(rev, act)
                    dG = ref[fin] - ref[ini]
                    sig = dict(sig0, getter='get_Keq', rev=rev, act=act)
                    if np.any(abs(dG) > 650.0):
                        ctx.refuse('Keq beyond the double range (|dG/RT| > 650)')
                        continue
                    try:
                        v = _scalar(_call(ctx, sig, case, rxn.get_Keq, rev=fr(rev), act=fa(act), **kwq))
                    except _Failed:
                        continue
                    ctx.tag('keq:finite')
                    K[(rev, act)] = v
                    ctv.close('Keq = exp(-deltaG/RT)', _log(v), -dG, sig, case,
                              rtol=1e-10, atol=1e-10, scale=mag[fin] + mag[ini] + 1.0)
                    if is_small(mag[fin] + mag[ini], dG):
                        ctv.close('ln Keq = -deltaG/RT' + TIGHT, _log(v), -dG, sig, case,
                                  rtol=1e-13, atol=1e-13, scale=tight(mag[fin] + mag[ini], dG))
            if (False, False) in K and (True, False) in K:
                prod = K[(False, False)] * K[(True, False)]
                ctx.true('K_forward x K_reverse = 1 (within 1e-10 x sum|nu G/RT|)',
                         np.size(prod) in (1, np.size(sc)) and bool(np.all(abs(prod - 1.0) <= 1e-10 * sc)),
                         dict(sig0, getter='get_Keq', law='reversal'), case, _jl(prod), 1.0)
            if (False, True) in K and (True, True) in K and (False, False) in K:
                ratio = _div(K[(False, True)], K[(True, True)], K[(False, False)])
                ctx.true('K_act,forward / K_act,reverse = K_forward (within 1e-10 x sum|nu G/RT|)',
                         np.size(ratio) in (1, np.size(sc)) and bool(np.all(abs(ratio - 1.0) <= 1e-10 * sc)),
                         dict(sig0, getter='get_Keq', law='detailed-balance'), case, _jl(ratio), 1.0)
            unmodified(dict(sig0, getter='get_Keq'))

    # ---- a block addressed to one species changes only that species' contribution
    blocks = [k for k in kw if k.endswith('_kwargs')]
    if blocks and locality:
        kw_plain = {k: v for k, v in kw.items() if not k.endswith('_kwargs')}
        kws_plain = [{k: v for k, v in ki.items() if not k.endswith('_kwargs')} for ki in kws]
        for quant in ('HoRT', 'SoR', 'GoRT', 'CpoR'):
            if quant not in quants:
                continue
            for s in ('reactants', 'products', 'ts'):
                if states[s] is None or any(k.startswith('BEP') for _, k, _ in states[s]):
                    continue            # a BEP's own value is defined through the reaction; covered above
                if any(vals.terms(s, quant, ki) is None or vals.terms(s, quant, kp) is None
                       for ki, kp in zip(kws, kws_plain)):
                    continue
                sig = dict(sig0, getter='get_%s_state' % quant, state=s, law='block-locality')
                try:
                    with_b = _scalar(_call(ctx, sig, case, getattr(rxn, 'get_%s_state' % quant),
                                           state=STATE_ARG[s], **kw))
                    without = _scalar(_call(ctx, sig, case, getattr(rxn, 'get_%s_state' % quant),
                                            state=STATE_ARG[s], **kw_plain))
                except _Failed:
                    continue
                exps, ms = [], []
                for ki, kp in zip(kws, kws_plain):
                    exp, m = 0.0, 1.0
                    for sp, key, nu in states[s]:
                        blk = ki.get('%s_kwargs' % sp.name)
                        if not blk:
                            continue
                        eff_new = dict(kp)
                        eff_new.update(blk)
                        new = _scalar(R.call_getter(getattr(sp, 'get_' + quant), eff_new))
                        old = _scalar(R.call_getter(getattr(sp, 'get_' + quant), dict(kp)))
                        exp += nu * (new - old)
                        m += abs(nu * new) + abs(nu * old)
                    exps.append(exp)
                    ms.append(m)
                exp, m = stack(exps), stack(ms)
                ctv.close("a species' block changes the state quantity by nu_s (X_s(new) - X_s(old)) only",
                          with_b - without, exp, sig, case, rtol=1e-10, atol=1e-10, scale=m)
        unmodified(dict(sig0, getter='get_X_state', law='block-locality'))


def check_config(case, ctx):
    """All clauses of C08 on one configuration (scalar or vector conditions)."""
    sig0 = _base_sig(case)
    twin = None
    if 'opts' in case:
        # constructor-option family: the reaction under test is made with the options through the route; the
        # reference is evaluated on a twin of the same class built separately, with default options, from fresh
        # species listed in the order of the case
        states = build_states(case)
        twin = make_reaction(case['cls'], states, [k for k, _ in case['R'] + case['P']])
        rxn = _construct(case)
        if rxn is None:
            ctx.trace()
            ctx.refuse('from_dict(to_dict()) leaves a species undecoded (serialisation: C11)')
            return
    else:
        rxn, states = build(case)
    ctx.trace()
    if rxn is None:
        ctx.refuse('ChemkinReaction: StatMech species have no .phase')
        ctx.tag('refused:chemkin-needs-phase')
        return
    _tags(case, ctx)
    n = _veclen(case['kw'])
    if n is not None and any(k in STATMECH_KEYS for k, _ in case['R'] + case['P'] + (case['TS'] or [])):
        raise ValueError('vector conditions are enumerated on empirical species only')
    kw = _materialise(case['kw'])
    kws = [_slice(case['kw'], i) for i in (range(n) if n is not None else [None])]
    if n is not None:
        ctx.tag('vec:result-scribbled')
    vals = Values(twin if twin is not None else rxn, states, ctx)
    try:
        _clauses(ctx, case, sig0, rxn, states, vals, kw, kws, n, R.QUANT, case['cls'] != 'Reaction',
                 flags=case.get('flags'))
    except _NotScalar as e:
        ctx.fail('scalar conditions give one number', dict(sig0, getter='BEP through the reaction'), case,
                 str(e), 'a scalar')


# ------------------------------------------------------------------ histories
def _reaction_string(case):
    def side(terms):
        return '+'.join('%r%s' % (nu, k) for k, nu in terms)
    parts = [side(case['R'])] + ([side(case['TS'])] if case['TS'] else []) + [side(case['P'])]
    return '='.join(parts)


def _edit_dict(live, prev, new):
    """What a caller who keeps one dictionary does between two calls: only the entries whose
    intended value changes are touched (nested blocks are edited in place)."""
    for k in list(prev):
        if k not in new:
            live.pop(k, None)
    for k, v in new.items():
        if isinstance(v, dict) and k in prev and isinstance(live.get(k), dict):
            blk, pb = live[k], prev[k]
            for kk in list(pb):
                if kk not in v:
                    blk.pop(kk, None)
            for kk, vv in v.items():
                if kk not in pb or pb[kk] != vv:
                    blk[kk] = vv
        elif k not in prev or prev[k] != v:
            live[k] = copy.deepcopy(v)
    return live


def _shift(terms, by):
    return [[k, R.COEFFS[(R.COEFFS.index(float(nu)) + by) % 7]] for k, nu in terms]


def _other_case(case):
    """A second reaction on the same species: the reverse step with other coefficients."""
    return dict(cls=case['cls'], R=_shift(case['P'], 2), P=_shift(case['R'], 4),
                TS=_shift(case['TS'], 1) if case['TS'] else None)


def _restate(states, case):
    """states of `case` on the species objects already present in `states` (by key)."""
    objs = {key: sp for lst in states.values() if lst for sp, key, _ in lst}
    return {'reactants': [(objs[k], k, nu) for k, nu in case['R']],
            'products': [(objs[k], k, nu) for k, nu in case['P']],
            'ts': [(objs[k], k, nu) for k, nu in case['TS']] if case['TS'] else None}


def _states_of(rxn, case):
    """(species object, key, nu) lists with the species objects read from the reaction itself."""
    def zipped(objs, terms):
        return [(sp, k, nu) for sp, (k, nu) in zip(objs, terms)]
    return {'reactants': zipped(rxn.reactants, case['R']), 'products': zipped(rxn.products, case['P']),
            'ts': zipped(rxn.transition_state, case['TS']) if case['TS'] else None}


def check_history(case, ctx):
    """Several calls on the same reaction object(s); every call is compared with the reference at the
    conditions of that call, evaluated on a twin built separately from fresh species."""
    sig0 = _base_sig(case)
    ctx.trace()
    _tags(case, ctx)
    ctx.tag('hist:route:' + case['route'])
    ctx.tag('hist:shared-blocks' if case['reuse'] == 'shared' else 'hist:fresh-dicts')
    cls = _reaction_class(case['cls'])
    keys_RP = [k for k, _ in case['R'] + case['P']]

    # the reference twin (never passed to the code under test except as the BEP's `reaction`)
    twin_states = build_states(case)
    twin = make_reaction(case['cls'], twin_states, keys_RP)
    # the reaction under test, through the chosen construction route
    states0 = build_states(case)
    if case['route'] == 'from_string':
        species = {key: sp for lst in states0.values() if lst for sp, key, _ in lst}
        rxn = cls.from_string(_reaction_string(case), species)
    else:
        rxn0 = make_reaction(case['cls'], states0, keys_RP)
        if case['route'] == 'init':
            rxn = rxn0
        elif case['route'] == 'deepcopy':
            rxn = copy.deepcopy(rxn0)
        else:
            rxn = cls.from_dict(rxn0.to_dict())
            if any(isinstance(sp, dict) for sp in list(rxn.reactants) + list(rxn.products) +
                   list(rxn.transition_state or [])):
                # e.g. pmutt.omkm.reaction.BEP is not in the JSON registry: decoding is C11's business
                ctx.refuse('from_dict(to_dict()) leaves a species undecoded (serialisation: C11)')
                return
        if rxn is not rxn0:
            # the object it was made from is edited afterwards: the new one must not follow
            rxn0.reactants_stoich[0] = 3.75
            rxn0.products_stoich[-1] = 0.125
            if rxn0.transition_state_stoich:
                rxn0.transition_state_stoich[0] = 7.5
    pairs = [(rxn, twin, twin_states, case, 'first')]
    if case['other']:
        ctx.tag('hist:two-reactions-share-species')
        oc = _other_case(case)
        other = make_reaction(case['cls'], _restate(_states_of(rxn, case), oc), keys_RP)
        otwin_states = _restate(twin_states, oc)
        otwin = make_reaction(case['cls'], otwin_states, keys_RP)
        pairs.append((other, otwin, otwin_states, oc, 'second'))

    clamped = case['cls'] != 'Reaction'
    live, prev = None, None
    for i, cond in enumerate(case['conds']):
        if i == 1 and case['edit']:
            # coefficients edited after creation (item assignment and rebinding)
            ctx.tag('hist:coefficients-edited')
            r, tw, tws, cs, _ = pairs[0]
            newR = [[k, nu] for k, nu in cs['R']]
            newR[0][1] = _shift(newR[:1], 3)[0][1]
            newP = _shift(cs['P'], 5)
            for obj in (r, tw):
                obj.reactants_stoich[0] = newR[0][1]
                obj.products_stoich = [nu for _, nu in newP]
            cs = dict(cs, R=newR, P=newP)
            pairs[0] = (r, tw, _restate(tws, cs), cs, 'first')
        if case['reuse'] == 'shared' and live is not None:
            live = _edit_dict(live, prev, cond)
        else:
            live = copy.deepcopy(cond)
        if prev is not None:
            if prev.get('T') != cond.get('T'):
                ctx.tag('hist:T-changed')
            if prev.get('P') != cond.get('P'):
                ctx.tag('hist:P-changed')
            if case['reuse'] == 'shared' and any(k.endswith('_kwargs') and prev.get(k) != v
                                                 for k, v in cond.items()):
                ctx.tag('hist:block-edited-in-place')
            if i >= 2 and cond == case['conds'][0]:
                ctx.tag('hist:first-conditions-again')
        prev = cond
        ref_cond = _slice(cond, None)
        for r, tw, tws, cs, which in pairs:
            sig = dict(sig0, call='first' if i == 0 else 'later', reaction=which)
            vals = Values(tw, tws, ctx)
            try:
                _clauses(ctx, case, sig, r, tws, vals, live, [ref_cond], None, HIST_QUANT, clamped,
                         locality=(i > 0))
            except _NotScalar as e:
                ctx.fail('scalar conditions give one number', dict(sig, getter='BEP through the reaction'), case,
                         str(e), 'a scalar')
                return


def check_case(case, ctx):
    if case.get('kind') == 'history':
        return check_history(case, ctx)
    return check_config(case, ctx)


def run_shard(shard, ctx):
    cases = _enumerate(shard['tier'])
    for i, case in enumerate(cases):
        if i % shard['n'] != shard['k']:
            continue
        ctx.state(case)
        ctx.trans(len(case['conds']) * (2 if case['other'] else 1) if case.get('kind') == 'history' else 1)
        if _nontrivial(case):
            ctx.nontrivial(case)
        if i % 997 == shard['k']:
            ctx.sample(case, limit=1)
        ctx.run_case(check_case, case, _base_sig(case))


LEVEL_TEXT = ('Deviation-bounded exhaustive enumeration of reaction configurations (class x reactant multiset x '
              'product multiset x transition state x coefficients x T x P x include_ZPE x per-species keyword '
              'blocks x number type) around three centre reactions, complete to 2 deviations, plus the full product of the '
              'condition coordinates at each centre; vector-condition configurations (numpy T vectors, globally and '
              'in species blocks) on empirical reactions, and call histories on one reaction object with a reused '
              'conditions dictionary; reactions built with class-specific constructor options through four construction '
              'routes on sides that order gas-phase and non-gas species in every way; direction flags in five '
              'representations; every configuration is built and evaluated on the real '
              'Reaction/ChemkinReaction/SurfaceReaction and compared with the linear reference sum(nu_i X_i).')
LEVEL_NOTE = ('Species from a 13-member pool (one per model class), coefficients from a 7-point dyadic lattice; '
              'quick uses 28 side multisets per coordinate, thorough 35 plus 3-4 species sides and the coefficient '
              'offset in the full product; vectors of length 1-5 on 4 empirical species; histories of 2-3 condition '
              'sets on 6 reactions; 7 option sets per class on 18 (thorough 43) ordered reactant sides; 5 x 5 flag '
              'representations.')
TECHNIQUE = 'deviation-bounded product enumeration on the implementation, linear reference-model oracle'
