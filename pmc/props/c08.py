"""C08 - reaction quantities obey Hess's law, reversal symmetry and detailed balance;
per-species keyword routing; caller dictionaries unmodified.

Shape B: deviation-bounded product enumeration around three centre reactions (all-StatMech,
all-empirical, mixed with a BEP transition state) plus the full product of the condition
coordinates at every centre.  Every configuration is a real Reaction / ChemkinReaction /
SurfaceReaction built from fresh species; the oracle is sum(nu_i X_i) (product of powers
for q) with X_i from the species' own getter under the documented keyword routing.
"""
import copy
import itertools
import math

import numpy as np

from pmc.engine import core
from pmc.ref import rxn as R

ID = 'C08'
RULE = ('configurations = (reaction class, reactant multiset, product multiset, transition state, '
        'stoichiometry offset, T, P, include_ZPE, per-species keyword blocks); every configuration within '
        '2 deviations of three centre reactions, plus the full product of the condition coordinates (class, '
        'transition state, T, P, include_ZPE, blocks; thorough: and the coefficient offset) at each centre; configurations are de-duplicated on the concrete reaction + '
        'keyword dictionary; a configuration is non-trivial when it has a keyword block, more than one '
        'species on a side or two transition-state species')
ASSUMPTIONS = ['species come from a pool of 7 side species + 6 transition-state species (one per model class); '
               'coefficients from the dyadic lattice {0.25,0.5,1,1.5,2,3,4}: every quantity is linear in the '
               'coefficients, so exactness on this lattice carries to all coefficients up to rounding',
               'a getter is exercised for a state only when every species of that state implements it itself '
               '(Nasa/Shomate/Nasa9: Cp, H, S, G; BEP: no electronic energy)',
               'ChemkinReaction reads species.phase at construction: configurations whose constructor refuses a StatMech species are recorded as refused',
               'clamped ChemkinReaction/SurfaceReaction get_H(oRT)_act / get_G(oRT)_act belong to C09']
EXPLANATION = ('deviation-bounded exhaustive enumeration of reaction configurations executed on the real classes; '
               'linear reference model from the species getters')

TEMPS = [300.0, 850.0]
PRESS = [None, 0.2]
ZPE = [None, True]
CLASSES = ['Reaction', 'ChemkinReaction', 'SurfaceReaction']
TS_Q = [None, ['TSM'], ['TSN'], ['BEP'], ['TSM', 'TS2'], ['BEPE'], ['BEPR']]
TS_T = TS_Q + [['BEP', 'TS2'], ['TSN', 'TSM']]
NBLK = 7
DIM_UNITS = {'CvoR': ('Cv', 'J/mol/K', False), 'CpoR': ('Cp', 'J/mol/K', False),
             'SoR': ('S', 'J/mol/K', False), 'UoRT': ('U', 'kJ/mol', True), 'HoRT': ('H', 'kJ/mol', True),
             'FoRT': ('F', 'kJ/mol', True), 'GoRT': ('G', 'kJ/mol', True), 'EoRT': ('E', 'kJ/mol', True)}

PLANNED_TAGS = (['cls:' + c for c in CLASSES] +
                ['ts:none', 'ts:explicit', 'ts:bep', 'ts:two', 'blk:none', 'blk:reactant', 'blk:product',
                 'blk:ts', 'blk:absent', 'blk:several', 'dir:rev', 'dir:act', 'side:repeated-species',
                 'side:species-on-both-sides', 'P:explicit', 'zpe:explicit', 'stoich:fractional',
                 'refused:chemkin-needs-phase', 'keq:finite'] +
                ['getter:' + q for q in R.QUANT])


# ------------------------------------------------------------------ alphabet
def _sides(tier, centre_side):
    pool = R.SIDE_POOL
    singles = [[k] for k in pool]
    doubles = [[k, k] for k in pool]
    pairs = [list(p) for p in itertools.combinations(pool, 2)]
    for i, p in enumerate(pairs):           # alternate the order inside a side
        if i % 2:
            p.reverse()
    if tier == 'quick':
        # every species meets one StatMech and one empirical partner at least once
        keep = [p for i, p in enumerate(pairs) if i % 2 == 0]
        out = singles + doubles + keep
    else:
        out = singles + doubles + pairs
        # 3-4 species sides: the centre side plus 1 or 2 more species (2-deviation of the side)
        for k in pool:
            out.append(list(centre_side) + [k])
        for a, b in itertools.combinations_with_replacement(pool, 2):
            out.append(list(centre_side) + [a, b])
        out = [s for s in out if len(s) <= 4]
    seen, uniq = set(), []
    for s in out:
        if tuple(s) not in seen:
            seen.add(tuple(s))
            uniq.append(s)
    return uniq


CENTRES = [
    dict(name='statmech', cls=0, R=['SG'], P=['SA'], TS=1),
    dict(name='empirical', cls=1, R=['XSG'], P=['NS'], TS=2),
    dict(name='mixed-bep', cls=2, R=['SG', 'NS'], P=['CM'], TS=3),
]


def _coords(tier, centre):
    ts = TS_Q if tier == 'quick' else TS_T
    rs = _sides(tier, centre['R'])
    ps = _sides(tier, centre['P'])
    rs = [centre['R']] + [s for s in rs if s != centre['R']]
    ps = [centre['P']] + [s for s in ps if s != centre['P']]
    tso = [ts[centre['TS']]] + [t for i, t in enumerate(ts) if i != centre['TS']]
    cls = [CLASSES[centre['cls']]] + [c for i, c in enumerate(CLASSES) if i != centre['cls']]
    # (name, options) - option 0 is the centre's value
    return [('cls', cls), ('R', rs), ('P', ps), ('TS', tso), ('st', list(range(2, 9))),
            ('T', TEMPS), ('Pr', PRESS), ('zpe', ZPE), ('blk', list(range(NBLK)))]


def _enumerate(tier):
    """All abstract configurations (list of dicts), deterministic, de-duplicated."""
    out, seen = [], set()

    def add(cfg):
        case = concretise(cfg)
        key = core.dumps(case)
        if key not in seen:
            seen.add(key)
            out.append(case)

    for centre in CENTRES:
        coords = _coords(tier, centre)
        names = [n for n, _ in coords]
        base = {n: o[0] for n, o in coords}
        add(base)
        for level in (1, 2):
            for idxs in itertools.combinations(range(len(coords)), level):
                for vals in itertools.product(*[coords[i][1][1:] for i in idxs]):
                    cfg = dict(base)
                    for i, v in zip(idxs, vals):
                        cfg[names[i]] = v
                    add(cfg)
        # full product of the condition coordinates (and class, TS) at the centre body
        small = ['cls', 'TS', 'T', 'Pr', 'zpe', 'blk'] + (['st'] if tier != 'quick' else [])
        opts = [dict(coords)[n] for n in small]
        for vals in itertools.product(*opts):
            cfg = dict(base)
            cfg.update(dict(zip(small, vals)))
            add(cfg)
    return out


def concretise(cfg):
    """Abstract configuration -> concrete, JSON-able case."""
    pos = [0]

    def side(keys):
        res = []
        for k in keys:
            res.append([k, R.COEFFS[(cfg['st'] + 3 * pos[0]) % 7]])
            pos[0] += 1
        return res
    Rs, Ps = side(cfg['R']), side(cfg['P'])
    TS = side(cfg['TS']) if cfg['TS'] else None
    kw = {'T': cfg['T']}
    if cfg['Pr'] is not None:
        kw['P'] = cfg['Pr']
    if cfg['zpe'] is not None:
        kw['include_ZPE'] = cfg['zpe']
    r0, rl, p0, pl = Rs[0][0], Rs[-1][0], Ps[0][0], Ps[-1][0]
    b = cfg['blk']
    if b == 1:
        kw['%s_kwargs' % r0] = {'T': 500.0}
    elif b == 2:
        kw['%s_kwargs' % pl] = {'P': 0.05}
    elif b == 3:
        if TS:
            kw['%s_kwargs' % TS[0][0]] = {'T': 700.0}
        else:
            kw['%s_kwargs' % r0] = {'P': 3.0}
    elif b == 4:
        kw['%s_kwargs' % r0] = {'T': 500.0}
        kw['%s_kwargs' % pl] = {'T': 700.0, 'P': 0.05}
    elif b == 5:
        kw['ZZ_kwargs'] = {'T': 1000.0, 'P': 9.0}
    elif b == 6:
        names = []
        for k, _ in Rs + Ps + (TS or []):
            if k not in names:
                names.append(k)
        for i, k in enumerate(names):
            kw['%s_kwargs' % k] = {'T': 400.0 + 75.0 * i} if i % 2 == 0 else {'T': 400.0 + 75.0 * i, 'P': 0.5}
        kw['%s_kwargs' % rl] = {}
    return dict(cls=cfg['cls'], R=Rs, P=Ps, TS=TS, kw=kw)


N_SHARDS = {'quick': 32, 'thorough': 64}


def bounds(tier):
    n = len(_enumerate(tier))
    return dict(side_species=R.SIDE_POOL, ts_options=TS_Q if tier == 'quick' else TS_T,
                sides_per_centre=len(_sides(tier, ['SG'])), coefficients=R.COEFFS,
                classes=CLASSES, T=TEMPS, P=PRESS, include_ZPE=ZPE, block_patterns=NBLK,
                centres=[c['name'] for c in CENTRES], deviation_level=2,
                full_product='cls x TS x T x P x include_ZPE x blocks' + ('' if tier == 'quick' else ' x stoichiometry offset'),
                configurations=n)


def shards(tier):
    n = N_SHARDS[tier]
    return [dict(tier=tier, k=k, n=n) for k in range(n)]


# ------------------------------------------------------------------ building the real objects
def build(case):
    """Returns (reaction, {state: [(species_obj, key, nu)]}) or (None, reason)."""
    surface = case['cls'] == 'SurfaceReaction'
    objs = {}

    def get(key):
        if key not in objs:
            objs[key] = R.build_species(key, surface_bep=surface)
        return objs[key]
    states = {'reactants': [(get(k), k, nu) for k, nu in case['R']],
              'products': [(get(k), k, nu) for k, nu in case['P']],
              'ts': [(get(k), k, nu) for k, nu in case['TS']] if case['TS'] else None}
    kwargs = dict(reactants=[s for s, _, _ in states['reactants']],
                  reactants_stoich=[nu for _, _, nu in states['reactants']],
                  products=[s for s, _, _ in states['products']],
                  products_stoich=[nu for _, _, nu in states['products']])
    if states['ts']:
        kwargs.update(transition_state=[s for s, _, _ in states['ts']],
                      transition_state_stoich=[nu for _, _, nu in states['ts']])
    if case['cls'] == 'Reaction':
        from pmutt.reaction import Reaction as cls
    elif case['cls'] == 'ChemkinReaction':
        from pmutt.reaction import ChemkinReaction as cls
        # ChemkinReaction classifies itself from species.phase at construction; StatMech species have none
        try:
            return cls(**kwargs), states
        except AttributeError as e:
            if "no attribute 'phase'" in str(e) and any(k in R.STATMECH_KEYS for k, _ in case['R'] + case['P']):
                return None, 'chemkin-needs-phase'
            raise
    else:
        from pmutt.omkm.reaction import SurfaceReaction as cls
    return cls(**kwargs), states


BEP_NEEDS = {'UoRT': ['UoRT'], 'HoRT': ['HoRT'], 'SoR': ['SoR'], 'FoRT': ['UoRT', 'SoR'],
             'GoRT': ['HoRT', 'SoR']}
BEP_DESC = {'BEP': 'HoRT', 'BEPR': 'HoRT', 'BEPE': 'EoRT'}


class Values:
    """Reference per-species values X_i under the routed keywords, with refusals.

    A (state, quantity) is *supported* when every species of the state implements the getter
    itself (static table) and the species' own getter produces a value for these keywords (a
    species getter that raises - e.g. include_ZPE=True on a species without a vibrational model -
    is the model refusing, not the reaction).  A BEP species additionally needs the reactant (and,
    for its descriptor, product) quantities it is defined through."""

    def __init__(self, rxn, states, ctx):
        self.rxn, self.states, self.ctx = rxn, states, ctx
        self.cache = {}

    def plain(self, sp, key, quant, kw):
        """value of a non-BEP species or None (refused)"""
        ck = (key, quant, core.dumps(R.effective_kwargs(sp.name, kw)))
        if ck not in self.cache:
            if quant not in R.SUPPORT[key]:
                self.cache[ck] = None
            else:
                try:
                    self.cache[ck] = R.species_value(sp, quant, kw)
                except Exception as e:          # noqa
                    if core.classify_exception(e) is None:
                        raise
                    self.ctx.refuse('species getter raises: %s.get_%s: %s' % (key, quant, type(e).__name__))
                    self.cache[ck] = None
        return self.cache[ck]

    def state_ok(self, sname, quant, kw):
        return all(not key.startswith('BEP') and self.plain(sp, key, quant, kw) is not None
                   for sp, key, _ in self.states[sname])

    def terms(self, sname, quant, kw):
        """[(nu, X_i)] or None when the state does not support the quantity."""
        if self.states[sname] is None:
            return None
        out = []
        for sp, key, nu in self.states[sname]:
            if key.startswith('BEP'):
                if quant not in R.SUPPORT[key]:
                    return None
                needs = BEP_NEEDS.get(quant, [])
                kb = R.effective_kwargs(sp.name, kw)      # the BEP sees no blocks at all
                for q in needs:
                    if not self.state_ok('reactants', q, kb):
                        return None
                if needs:
                    d = BEP_DESC[key]
                    if not (self.state_ok('reactants', d, kb) and self.state_ok('products', d, kb)):
                        return None
                out.append((nu, R.species_value(sp, quant, kw, reaction=self.rxn)))
            else:
                v = self.plain(sp, key, quant, kw)
                if v is None:
                    return None
                out.append((nu, v))
        return out


STATE_ARG = {'reactants': 'reactants', 'products': 'products', 'ts': 'transition state'}


def _initial_final(rev, act):
    ini = 'products' if rev else 'reactants'
    fin = 'ts' if act else ('reactants' if rev else 'products')
    return ini, fin


class _Failed(Exception):
    pass


def _call(ctx, sig, case, fn, *a, **kw):
    """Call reaction code; an exception from inside pMuTT is a violation of 'getter evaluates'."""
    ctx.evals()
    try:
        return fn(*a, **kw)
    except Exception as e:                     # noqa
        where = core.classify_exception(e)
        if where is None:
            raise
        s = dict(sig, exc=type(e).__name__, where=where)
        ctx.fail('getter evaluates', s, case, '%s: %s' % (type(e).__name__, str(e)[:200]), 'a value')
        raise _Failed()


def _scalar(v):
    a = np.asarray(v, dtype=float)
    return float(a.ravel()[0]) if a.size == 1 else a


def _tags(case, ctx):
    ctx.tag('cls:' + case['cls'])
    ts = case['TS']
    if not ts:
        ctx.tag('ts:none')
    else:
        if len(ts) > 1:
            ctx.tag('ts:two')
        if any(k.startswith('BEP') for k, _ in ts):
            ctx.tag('ts:bep')
        if any(not k.startswith('BEP') for k, _ in ts):
            ctx.tag('ts:explicit')
    kw = case['kw']
    blocks = [k[:-7] for k in kw if k.endswith('_kwargs')]
    rk, pk = [k for k, _ in case['R']], [k for k, _ in case['P']]
    tk = [k for k, _ in (ts or [])]
    if not blocks:
        ctx.tag('blk:none')
    if len(blocks) > 1:
        ctx.tag('blk:several')
    for b in blocks:
        if b in rk:
            ctx.tag('blk:reactant')
        if b in pk:
            ctx.tag('blk:product')
        if b in tk:
            ctx.tag('blk:ts')
        if b not in rk + pk + tk:
            ctx.tag('blk:absent')
    if len(set(rk)) < len(rk) or len(set(pk)) < len(pk):
        ctx.tag('side:repeated-species')
    if set(rk) & set(pk):
        ctx.tag('side:species-on-both-sides')
    if 'P' in kw:
        ctx.tag('P:explicit')
    if 'include_ZPE' in kw:
        ctx.tag('zpe:explicit')
    if any(nu != int(nu) for _, nu in case['R'] + case['P'] + (ts or [])):
        ctx.tag('stoich:fractional')


def _nontrivial(case):
    kw = case['kw']
    return bool(any(k.endswith('_kwargs') for k in kw) or len(case['R']) > 1 or len(case['P']) > 1
                or (case['TS'] and len(case['TS']) > 1))


def _base_sig(case):
    ts = case['TS']
    kind = 'none' if not ts else ('bep' if any(k.startswith('BEP') for k, _ in ts) else 'explicit')
    blk = 'some' if any(k.endswith('_kwargs') for k in case['kw']) else 'none'
    return {'cls': case['cls'], 'ts': kind, 'blk': blk}


def check_case(case, ctx):
    """All clauses of C08 on one configuration."""
    sig0 = _base_sig(case)
    rxn, states = build(case)
    ctx.trace()
    if rxn is None:
        ctx.refuse('ChemkinReaction: StatMech species have no .phase')
        ctx.tag('refused:chemkin-needs-phase')
        return
    _tags(case, ctx)
    kw = case['kw']
    kw_before = copy.deepcopy(kw)
    clamped_cls = case['cls'] != 'Reaction'

    def unmodified(sig):
        ctx.equal('caller keyword dictionaries (nested blocks included) unmodified', kw, kw_before, sig, case)

    vals = Values(rxn, states, ctx)

    def terms(quant, sname, kwx):
        return vals.terms(sname, quant, kwx)

    for quant in R.QUANT:
        kwq = kw
        kwx = kw                       # keywords the reference sees
        if quant == 'EoRT':
            # get_EoRT_state names include_ZPE (default False) and forwards it globally
            kwx = dict(kw)
            kwx.setdefault('include_ZPE', False)
        ref, mag, sup = {}, {}, {}
        for s in ('reactants', 'products', 'ts'):
            t = terms(quant, s, kwx)
            sup[s] = t is not None
            if sup[s]:
                ref[s] = R.combine(t, quant)
                mag[s] = R.magnitude(t) if quant != 'q' else abs(ref[s])
        if not any(sup.values()):
            continue
        ctx.tag('getter:' + quant)
        name_state = 'get_%s_state' % quant
        name_delta = 'get_delta_%s' % quant
        name_act = 'get_%s_act' % quant

        # ---- state quantities: Hess sum over the state's species
        got_state = {}
        for s in sup:
            if not sup[s]:
                continue
            sig = dict(sig0, getter=name_state, state=s)
            try:
                v = _scalar(_call(ctx, sig, case, getattr(rxn, name_state), state=STATE_ARG[s], **kwq))
                ctx.close('state quantity = sum nu_i X_i over the state (product of powers for q)',
                          v, ref[s], sig, case, rtol=1e-10, atol=(0.0 if quant == 'q' else 1e-10),
                          scale=mag[s] + (0.0 if quant == 'q' else 1.0))
                got_state[s] = v
            except _Failed:
                pass
            unmodified(sig)

        # ---- deltas in every (rev, act)
        got = {}
        for rev in (False, True):
            for act in (False, True):
                ini, fin = _initial_final(rev, act)
                if not (sup[ini] and sup[fin]):
                    continue
                if rev:
                    ctx.tag('dir:rev')
                if act:
                    ctx.tag('dir:act')
                sig = dict(sig0, getter=name_delta, rev=rev, act=act)
                try:
                    v = _scalar(_call(ctx, sig, case, getattr(rxn, name_delta), rev=rev, act=act, **kwq))
                except _Failed:
                    continue
                unmodified(sig)
                got[(rev, act)] = v
                if quant == 'q':
                    exp = ref[fin] / ref[ini]
                    ctx.close('delta = final - initial (ratio for q), by Hess from the species getters',
                              math.log(v) if v > 0 else float('nan'), math.log(exp), sig, case,
                              rtol=1e-10, atol=1e-10, scale=abs(math.log(ref[fin])) + abs(math.log(ref[ini])) + 1.0)
                else:
                    exp = ref[fin] - ref[ini]
                    ctx.close('delta = final - initial (ratio for q), by Hess from the species getters',
                              v, exp, sig, case, rtol=1e-10, atol=1e-10, scale=mag[fin] + mag[ini] + 1.0)
        sc = sum(mag.values()) + 1.0
        if (False, False) in got and (True, False) in got:
            sig = dict(sig0, getter=name_delta, law='reversal')
            if quant == 'q':
                ctx.close('reversing the direction flips the sign (inverts the ratio for q)',
                          got[(False, False)] * got[(True, False)], 1.0, sig, case, rtol=1e-9, atol=0.0)
            else:
                ctx.close('reversing the direction flips the sign (inverts the ratio for q)',
                          got[(True, False)], -got[(False, False)], sig, case, rtol=1e-10, atol=1e-10, scale=sc)
        if (False, True) in got and (True, True) in got and (False, False) in got:
            sig = dict(sig0, getter=name_delta, law='detailed-balance')
            if quant == 'q':
                ctx.close('forward minus reverse activation quantity = reaction change (ratio for q)',
                          got[(False, True)] / got[(True, True)] / got[(False, False)], 1.0, sig, case,
                          rtol=1e-9, atol=0.0)
            else:
                ctx.close('forward minus reverse activation quantity = reaction change (ratio for q)',
                          got[(False, True)] - got[(True, True)], got[(False, False)], sig, case,
                          rtol=1e-10, atol=1e-10, scale=sc)

        # ---- get_X_act(rev) (unclamped ones)
        if quant != 'EoRT' and sup['ts'] and not (clamped_cls and quant in ('HoRT', 'GoRT')):
            for rev in (False, True):
                ini, fin = _initial_final(rev, True)
                if not sup[ini]:
                    continue
                sig = dict(sig0, getter=name_act, rev=rev, act=True)
                try:
                    v = _scalar(_call(ctx, sig, case, getattr(rxn, name_act), rev=rev, **kwq))
                except _Failed:
                    continue
                unmodified(sig)
                if quant == 'q':
                    # get_q_act names include_ZPE (default False) and forwards it globally
                    kz = dict(kw)
                    kz.setdefault('include_ZPE', False)
                    tf, ti = terms('q', 'ts', kz), terms('q', ini, kz)
                    if tf is None or ti is None:
                        continue
                    lf, li = math.log(R.combine(tf, 'q')), math.log(R.combine(ti, 'q'))
                    ctx.close('activation quantity = transition state - initial state of that direction',
                              math.log(v) if v > 0 else float('nan'), lf - li, sig, case, rtol=1e-10,
                              atol=1e-10, scale=abs(lf) + abs(li) + 1.0)
                else:
                    ctx.close('activation quantity = transition state - initial state of that direction',
                              v, ref['ts'] - ref[ini], sig, case, rtol=1e-10, atol=1e-10,
                              scale=mag['ts'] + mag[ini] + 1.0)

        # ---- dimensional twins: same laws in energy units (value = dimensionless x R[T])
        if quant in DIM_UNITS and (False, False) in got:
            short, units, withT = DIM_UNITS[quant]
            from pmutt import constants as c
            T = kw['T']
            fac = c.R(units + '/K') * T if withT else c.R(units)
            for rev in (False, True):
                for act in (False, True):
                    if (rev, act) not in got:
                        continue
                    sig = dict(sig0, getter='get_delta_' + short, rev=rev, act=act)
                    kwd = {k: v for k, v in kw.items() if k != 'T'} if withT else kw
                    try:
                        if withT:
                            v = _scalar(_call(ctx, sig, case, getattr(rxn, 'get_delta_' + short), units=units,
                                              T=T, rev=rev, act=act, **kwd))
                        else:
                            v = _scalar(_call(ctx, sig, case, getattr(rxn, 'get_delta_' + short), units=units,
                                              rev=rev, act=act, **kwd))
                    except _Failed:
                        continue
                    ini, fin = _initial_final(rev, act)
                    ctx.close('dimensional delta = (final - initial) x R[T]', v, (ref[fin] - ref[ini]) * fac,
                              sig, case, rtol=1e-10, atol=1e-10 * abs(fac), scale=(mag[fin] + mag[ini] + 1.0) * abs(fac))
                    # (get_E_act is the Arrhenius activation energy, not an electronic-energy change: C09)
                    if act and quant != 'EoRT' and not (clamped_cls and quant in ('HoRT', 'GoRT')):
                        sig = dict(sig0, getter='get_%s_act' % short, rev=rev, act=True)
                        try:
                            if withT:
                                va = _scalar(_call(ctx, sig, case, getattr(rxn, 'get_%s_act' % short),
                                                   units=units, T=T, rev=rev, **kwd))
                            else:
                                va = _scalar(_call(ctx, sig, case, getattr(rxn, 'get_%s_act' % short),
                                                   units=units, rev=rev, **kwd))
                        except _Failed:
                            continue
                        ctx.close('dimensional activation quantity = (transition state - initial) x R[T]', va,
                                  (ref['ts'] - ref[ini]) * fac, sig, case, rtol=1e-10, atol=1e-10 * abs(fac),
                                  scale=(mag['ts'] + mag[ini] + 1.0) * abs(fac))
            for s in got_state:
                sig = dict(sig0, getter='get_%s_state' % short, state=s)
                kwd = {k: v for k, v in kw.items() if k != 'T'} if withT else kw
                try:
                    if withT:
                        v = _scalar(_call(ctx, sig, case, getattr(rxn, 'get_%s_state' % short), state=STATE_ARG[s],
                                          units=units, T=T, **kwd))
                    else:
                        v = _scalar(_call(ctx, sig, case, getattr(rxn, 'get_%s_state' % short), state=STATE_ARG[s],
                                          units=units, **kwd))
                except _Failed:
                    continue
                ctx.close('dimensional state quantity = sum nu_i X_i x R[T]', v, ref[s] * fac, sig, case,
                          rtol=1e-10, atol=1e-10 * abs(fac), scale=(mag[s] + 1.0) * abs(fac))
            unmodified(dict(sig0, getter='get_delta_' + short))

        # ---- equilibrium constant
        if quant == 'GoRT':
            K = {}
            for rev in (False, True):
                for act in (False, True):
                    if (rev, act) not in got:
                        continue
                    ini, fin = _initial_final(rev, act)
                    dG = ref[fin] - ref[ini]
                    sig = dict(sig0, getter='get_Keq', rev=rev, act=act)
                    if abs(dG) > 650.0:
                        ctx.refuse('Keq beyond the double range (|dG/RT| > 650)')
                        continue
                    try:
                        v = _scalar(_call(ctx, sig, case, rxn.get_Keq, rev=rev, act=act, **kwq))
                    except _Failed:
                        continue
                    ctx.tag('keq:finite')
                    K[(rev, act)] = v
                    ctx.close('Keq = exp(-deltaG/RT)', math.log(v) if v > 0 else float('nan'), -dG, sig, case,
                              rtol=1e-10, atol=1e-10, scale=mag[fin] + mag[ini] + 1.0)
            if (False, False) in K and (True, False) in K:
                prod = K[(False, False)] * K[(True, False)]
                ctx.true('K_forward x K_reverse = 1 (within 1e-10 x sum|nu G/RT|)', abs(prod - 1.0) <= 1e-10 * sc,
                         dict(sig0, getter='get_Keq', law='reversal'), case, prod, 1.0)
            if (False, True) in K and (True, True) in K and (False, False) in K:
                ratio = K[(False, True)] / K[(True, True)] / K[(False, False)]
                ctx.true('K_act,forward / K_act,reverse = K_forward (within 1e-10 x sum|nu G/RT|)',
                         abs(ratio - 1.0) <= 1e-10 * sc, dict(sig0, getter='get_Keq', law='detailed-balance'),
                         case, ratio, 1.0)
            unmodified(dict(sig0, getter='get_Keq'))

    # ---- a block addressed to one species changes only that species' contribution
    blocks = [k for k in kw if k.endswith('_kwargs')]
    if blocks:
        kw_plain = {k: v for k, v in kw.items() if not k.endswith('_kwargs')}
        for quant in ('HoRT', 'SoR', 'GoRT', 'CpoR'):
            for s in ('reactants', 'products', 'ts'):
                if states[s] is None or any(k.startswith('BEP') for _, k, _ in states[s]):
                    continue            # a BEP's own value is defined through the reaction; covered above
                if vals.terms(s, quant, kw) is None or vals.terms(s, quant, kw_plain) is None:
                    continue
                sig = dict(sig0, getter='get_%s_state' % quant, state=s, law='block-locality')
                try:
                    with_b = _scalar(_call(ctx, sig, case, getattr(rxn, 'get_%s_state' % quant),
                                           state=STATE_ARG[s], **kw))
                    without = _scalar(_call(ctx, sig, case, getattr(rxn, 'get_%s_state' % quant),
                                            state=STATE_ARG[s], **kw_plain))
                except _Failed:
                    continue
                exp, m = 0.0, 1.0
                for sp, key, nu in states[s]:
                    blk = kw.get('%s_kwargs' % sp.name)
                    if not blk:
                        continue
                    eff_new = dict(kw_plain)
                    eff_new.update(blk)
                    new = _scalar(R.call_getter(getattr(sp, 'get_' + quant), eff_new))
                    old = _scalar(R.call_getter(getattr(sp, 'get_' + quant), dict(kw_plain)))
                    exp += nu * (new - old)
                    m += abs(nu * new) + abs(nu * old)
                ctx.close("a species' block changes the state quantity by nu_s (X_s(new) - X_s(old)) only",
                          with_b - without, exp, sig, case, rtol=1e-10, atol=1e-10, scale=m)
        unmodified(dict(sig0, getter='get_X_state', law='block-locality'))


def run_shard(shard, ctx):
    cases = _enumerate(shard['tier'])
    for i, case in enumerate(cases):
        if i % shard['n'] != shard['k']:
            continue
        ctx.state(case)
        ctx.trans()
        if _nontrivial(case):
            ctx.nontrivial(case)
        if i % 997 == shard['k']:
            ctx.sample(case, limit=1)
        ctx.run_case(check_case, case, _base_sig(case))


LEVEL_TEXT = ('Deviation-bounded exhaustive enumeration of reaction configurations (class x reactant multiset x '
              'product multiset x transition state x coefficients x T x P x include_ZPE x per-species keyword '
              'blocks) around three centre reactions, complete to 2 deviations, plus the full product of the '
              'condition coordinates at each centre; every configuration is built and evaluated on the real '
              'Reaction/ChemkinReaction/SurfaceReaction and compared with the linear reference sum(nu_i X_i).')
LEVEL_NOTE = ('Species from a 13-member pool (one per model class), coefficients from a 7-point dyadic lattice; '
              'quick uses 28 side multisets per coordinate, thorough 35 plus 3-4 species sides and the coefficient '
              'offset in the full product.')
TECHNIQUE = 'deviation-bounded product enumeration on the implementation, linear reference-model oracle'
