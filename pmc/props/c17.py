"""C17 - the coverage-effect function stays continuous piecewise-linear under edits.

Shape A: explicit-state BFS over edit histories of a real PiecewiseCovEffect.
State = event history; canonical key = (intervals, slopes); the real object is rebuilt
from scratch for every history; invariants on every state, multiset law on every transition.
"""
import copy
import itertools
import json

import numpy as np

ID = 'C17'
RULE = ('BFS over histories init-list x sequence of {insert(b,s), pop(i), to_dict/from_dict, JSON '
        'round trip}; states de-duplicated on (intervals, slopes); a state is non-trivial when it '
        'was reached by at least one edit and has >= 2 breakpoints')
ASSUMPTIONS = ['breakpoints and slopes are taken from finite lattices (stated in bounds)',
               'where an inserted breakpoint equals an existing one any placement that keeps the '
               'lists ascending and paired is accepted']
EXPLANATION = 'explicit-state exploration of the implementation; every history is an execution of the real class'

LAT_Q = [0.0, 0.25, 0.5, 0.75, 1.0]
LAT_T = [0.0, 0.125, 0.25, 0.5, 0.75, 1.0]
SLOPE_CYCLE = [-10.0, 0.0, 25.0]
INS_B = [0.0, 0.1, 0.25, 0.5, 0.75, 1.0, 1.2]          # equal-first, between, equal, equal-last, above-last
NEG_B = -0.2                                         # below every breakpoint (lists start at 0)
INS_S = [-3.0, 0.0, 40.0]                            # a flat (zero-slope) segment is a legitimate slope
TEMPS = [300.0, 1000.0]

PLANNED_TAGS = ['insert:below-every-breakpoint', 'insert:below-first-interior', 'insert:between', 'insert:equal', 'insert:equal-last',
                'insert:above-last', 'pop:interior', 'pop:last', 'pop:0-refused', 'reload:dict',
                'reload:json', 'slopes:int-typed', 'construct:shared-lists']


def bounds(tier):
    return dict(init_breakpoints='1-3 of %s' % LAT_Q if tier == 'quick' else '1-6 of %s' % LAT_T,
                insert_breakpoints=INS_B, insert_slopes=INS_S, insert_below_every_breakpoint='(%s, 40.0), at most once per history' % NEG_B,
                depth='3 from initial lists of <= 2 breakpoints, 2 from longer ones' if tier == 'quick' else '4', temperatures=TEMPS)


DEPTH_T = 4


INT_SLOPE_CYCLE = [3, -12, 8]          # whole-number slopes given as Python ints (integer-typed buffers truncate)
INT_INS_S = [-3, 0, 40]
INT_LAT = [0.0, 0.3, 0.7]


def _inits(tier):
    lat = LAT_Q if tier == 'quick' else LAT_T
    nmax = 3 if tier == 'quick' else 6
    out = []
    for n in range(1, nmax + 1):
        for rest in itertools.combinations(lat[1:], n - 1):
            iv = [0.0] + list(rest)
            sl = [SLOPE_CYCLE[(k + len(rest)) % 3] for k in range(n)]
            out.append(dict(intervals=iv, slopes=sl))
    return out


def _int_inits():
    out = []
    for n in (1, 2, 3):
        for rest in itertools.combinations(INT_LAT[1:] + [1.0], n - 1):
            out.append(dict(intervals=[0.0] + list(rest), slopes=[INT_SLOPE_CYCLE[(k + n) % 3] for k in range(n)],
                            ints=True))
    return out


def shards(tier):
    # thorough: depth 4 from every initial list.  A depth-5 BFS from the six lists with one or two breakpoints was
    # completed once on the final module (1.8 M states, 9.5 M transitions, 1.7e9 getter evaluations, no violation) but
    # each of those shards costs 60-80 CPU-min on one core, so the registered bound is 4 (a prefix of that run)
    out = [dict(init=i, depth=(3 if len(i['intervals']) <= 2 else 2) if tier == 'quick' else DEPTH_T)
           for i in _inits(tier)]
    out += [dict(init=i, depth=2 if tier == 'quick' else 4) for i in _int_inits()]
    # the same histories with the single evaluation placed after the first edit instead of after construction
    out += [dict(init=i, depth=3 if tier == 'quick' else 4, probe_at=1) for i in _inits(tier)
            if len(i['intervals']) <= (2 if tier == 'quick' else 3)]
    out += [dict(kind='shared', n=n) for n in (1, 2, 3)]
    return out


# ------------------------------------------------------------------ reference
def f_ref(intervals, slopes, x):
    """Unique continuous piecewise-linear function with f(0)=0 (kcal/mol)."""
    tot = 0.0
    n = len(intervals)
    for k in range(n):
        lo = intervals[k]
        hi = intervals[k + 1] if k + 1 < n else float('inf')
        ov = max(0.0, min(hi, x) - max(lo, 0.0))
        if ov > 0:
            tot += slopes[k] * ov
    return tot


def _build(init):
    from pmutt.mixture.cov import PiecewiseCovEffect
    return PiecewiseCovEffect(name_i='A(S)', name_j='B(S)', intervals=list(init['intervals']),
                              slopes=list(init['slopes']), name='lat1')


ROUTE_UNITS = ['kcal/mol', 'kJ/mol', 'eV']
_ROUTES_SEEN = set()
_BARE = {}


def _carrier(model):
    """A surface NASA species with a small fixed polynomial carrying `model` (or nothing)."""
    from pmutt.empirical.nasa import Nasa
    a = np.array([2.5, 1e-3, 0.0, 0.0, 0.0, -100.0, 3.0])
    return Nasa(name='A(S)', T_low=100., T_mid=2000., T_high=6000., a_low=a.copy(), a_high=a.copy(),
                phase='S', misc_models=None if model is None else [model])


def _accepted(ctx, clause, sig, case, fn):
    """A documented call form that is refused with a TypeError is a violation, not a harness error."""
    try:
        return fn()
    except TypeError as e:
        ctx.fail(clause, sig, case, 'TypeError: %s' % e, 'accepted')
        return None


def _pairs(obj):
    return sorted(zip([float(v) for v in obj.intervals], [float(v) for v in obj.slopes]))


def _where(intervals, b):
    last = intervals[-1]
    if b < intervals[0]:
        return 'below-every-breakpoint'
    if b > last:
        return 'above-last'
    if b == last:
        return 'equal-last'
    if b in intervals:
        return 'equal'
    if len(intervals) > 1 and b < intervals[1]:
        return 'below-first-interior'
    return 'between'


def apply_op(obj, op, ctx, sig, case):
    """Apply one operation to the real object; returns (new_obj, expected_pairs)."""
    from pmutt.io.json import pmuttEncoder, json_to_pmutt
    from pmutt.mixture.cov import PiecewiseCovEffect
    before = _pairs(obj)
    kind = op[0]
    if kind == 'insert':
        b, s = op[1], op[2]
        ctx.tag('insert:' + _where([p[0] for p in before], b))
        obj.insert(b, s)
        return obj, sorted(before + [(float(b), float(s))])
    if kind == 'pop':
        i = op[1]
        if i == 0:
            ctx.tag('pop:0-refused')
            try:
                obj.pop(0)
            except ValueError:
                pass
            else:
                ctx.fail('pop(0) refused', sig, case, 'no ValueError', 'ValueError')
            return obj, before
        ctx.tag('pop:last' if i == len(obj.intervals) - 1 else 'pop:interior')
        iv, sl = list(obj.intervals), list(obj.slopes)
        removed = (float(iv[i]), float(sl[i]))
        obj.pop(i)
        exp = list(before)
        exp.remove(removed)
        return obj, exp
    if kind == 'dict':
        ctx.tag('reload:dict')
        d = obj.to_dict()
        d0 = copy.deepcopy(d)
        new = PiecewiseCovEffect.from_dict(d)
        ctx.equal('reload leaves intervals/slopes of the dictionary intact',
                  (d.get('intervals'), d.get('slopes')), (d0['intervals'], d0['slopes']), sig, case)
        # the reloaded object is independent: editing a second clone (made from the same dictionary and from
        # a fresh to_dict) must not reach the original, the first clone or the dictionary
        for src in (d, obj.to_dict()):
            probe = PiecewiseCovEffect.from_dict(src)
            probe.insert(0.33, 7.0)
            if len(probe.intervals) > 2:
                probe.pop(1)
        scribble = obj.to_dict()                 # a caller may edit the dictionary it was given
        for key, val in (('intervals', 9.9), ('slopes', 1.0), ('intercepts', 5.0)):
            if isinstance(scribble.get(key), list):
                scribble[key].append(val)
        ctx.equal('editing a reloaded copy leaves the original object unchanged', _pairs(obj), before, sig, case)
        ctx.equal('editing a reloaded copy leaves the first copy unchanged', _pairs(new), before, sig, case)
        _same_after_reload(obj, new, ctx, sig, case)
        ctx.equal('editing a reloaded copy leaves the dictionary unchanged',
                  (d.get('intervals'), d.get('slopes')), (d0['intervals'], d0['slopes']), sig, case)
        check_state(obj, ctx, dict(sig, after='edit of a reloaded copy'), case)
        return new, before
    if kind == 'json':
        ctx.tag('reload:json')
        text = json.dumps(obj, cls=pmuttEncoder)
        new = json.loads(text, object_hook=json_to_pmutt)
        ctx.true('json reload gives a PiecewiseCovEffect', isinstance(new, PiecewiseCovEffect), sig, case,
                 type(new).__name__, 'PiecewiseCovEffect')
        if not isinstance(new, PiecewiseCovEffect):
            return obj, before
        _same_after_reload(obj, new, ctx, sig, case)
        return new, before
    raise ValueError(kind)


def _same_after_reload(obj, new, ctx, sig, case):
    """Serialising and reloading leaves the object as it was: same breakpoints and slopes in the same
    order (ties between equal breakpoints included) and the same function."""
    a = ([float(v) for v in obj.intervals], [float(v) for v in obj.slopes])
    b = ([float(v) for v in new.intervals], [float(v) for v in new.slopes])
    ctx.equal('reload keeps breakpoints and slopes in their order', b, a, sig, case)
    xs = sorted(set(a[0]) | {0.05, 0.4, 0.6, 0.95, 1.3} | {v + 0.01 for v in a[0]})
    fa = [obj.get_UoRT(x=x, T=500.) for x in xs]
    fb = [new.get_UoRT(x=x, T=500.) for x in xs]
    ctx.close('reload leaves the function unchanged', fb, fa, sig, case, rtol=1e-12, atol=1e-12)


def check_state(obj, ctx, sig, case):
    """Invariants (2)-(5) on one state.  Returns True when the state is healthy."""
    from pmutt import constants as c
    iv = [float(v) for v in obj.intervals]
    sl = [float(v) for v in obj.slopes]
    if not ctx.true('at least one breakpoint is left', len(iv) > 0 and len(sl) > 0, sig, case, (iv, sl), 'non-empty'):
        return False
    ok = ctx.true('len(intervals)==len(slopes)', len(iv) == len(sl), sig, case, (len(iv), len(sl)))
    ok &= ctx.true('breakpoints ascending', all(a <= b for a, b in zip(iv, iv[1:])), sig, case, iv,
                   'ascending')
    # lists start at 0; only an insertion below every breakpoint (exact pairs are compared after every edit) moves it
    ok &= ctx.true('the first breakpoint is not above zero coverage', iv[0] <= 0.0, sig, case, iv[0], 0.0)
    if not ok:
        return False
    xs = set(iv) | {0.0, 1.0, iv[-1] + 0.35}
    xs |= {0.5 * (a + b) for a, b in zip(iv, iv[1:])}
    xs |= {np.nextafter(b, -1.0) for b in iv if b > 0} | {np.nextafter(b, 2.0) for b in iv}
    xs = {x for x in xs if x >= 0.0}          # a coverage is not negative
    R = c.R('kcal/mol/K')
    for x in sorted(xs):
        x = float(x)
        exp = f_ref(iv, sl, x)
        vals = []
        for T in TEMPS:
            u = obj.get_UoRT(x=x, T=T) * R * T
            h = obj.get_HoRT(x=x, T=T) * R * T
            g = obj.get_GoRT(x=x, T=T) * R * T
            f = obj.get_FoRT(x=x, T=T) * R * T
            ctx.evals(4)
            vals.append(u)
            ok &= ctx.close('U(x)*RT = continuous piecewise-linear reference', u, exp, sig, case,
                            rtol=1e-10, atol=1e-9, scale=abs(exp) + 50.0)
            ok &= ctx.close('H=U, G=U, F=U (no entropy)', [h, g, f], [u, u, u], sig, case, rtol=1e-12,
                            atol=1e-12)
        ok &= ctx.close('independent of temperature in energy units', vals[0], vals[1], sig, case,
                        rtol=1e-10, atol=1e-9, scale=abs(exp) + 50.0)
    # every other public route to the same number, at three coverages per state (inside the first segment
    # with a non-zero slope, on the last breakpoint + beyond it): positional arguments, the inherited
    # dimensional getters (which forward their arguments by introspection) and a surface species carrying
    # the model
    ups = [iv[k + 1] if k + 1 < len(iv) else iv[k] + 0.3 for k in range(len(iv))]
    nz = [k for k, v in enumerate(sl) if v != 0.0 and ups[k] > 0.0]
    k0 = nz[0] if nz else len(iv) - 1
    xr = sorted({0.5 * (max(iv[k0], 0.0) + max(ups[k0], 0.1)), max(iv[-1], 0.0), max(iv[-1], 0.0) + 0.35})
    # once per distinct (breakpoints, slopes) and process: the routes only forward to the getters judged above
    key = (tuple(iv), tuple(sl), tuple(type(v).__name__ for v in obj.slopes))
    if key in _ROUTES_SEEN:
        xr = []
    else:
        _ROUTES_SEEN.add(key)
        sp = _carrier(obj)
        if 'bare' not in _BARE:
            _BARE['bare'] = _carrier(None)
        bare = _BARE['bare']
    for x in xr:
        x = float(x)
        exp = f_ref(iv, sl, x)
        for T in TEMPS:
            pos = _accepted(ctx, 'positional call get_XoRT(x, T) is accepted', sig, case, lambda: [
                obj.get_UoRT(x, T) * R * T, obj.get_HoRT(x, T) * R * T,
                obj.get_FoRT(x, T) * R * T, obj.get_GoRT(x, T) * R * T])
            if pos is None:
                return False
            ok &= ctx.close('positional call get_XoRT(x, T) = keyword call', pos, [exp] * 4, sig, case,
                            rtol=1e-10, atol=1e-9, scale=abs(exp) + 50.0)
            for units in ROUTE_UNITS:
                k = c.R(units + '/K') / R
                dim = _accepted(ctx, 'dimensional getter get_X(units, x, T) is accepted', sig, case, lambda: [
                    obj.get_U(units, x=x, T=T), obj.get_H(units, x=x, T=T),
                    obj.get_F(units, x=x, T=T), obj.get_G(units, x=x, T=T)])
                if dim is None:
                    return False
                ok &= ctx.close('dimensional getter get_X(units, x, T) = piecewise-linear reference in that unit',
                                dim, [exp * k] * 4, sig, case, rtol=1e-10, atol=1e-9 * k,
                                scale=(abs(exp) + 50.0) * k)
            ok &= ctx.true('get_S(units) = 0', obj.get_S('kcal/mol/K') == 0.0, sig, case, None, 0.0)
            got = [(sp.get_HoRT(T=T, x=x) - bare.get_HoRT(T=T)) * R * T,
                   (sp.get_GoRT(T=T, x=x) - bare.get_GoRT(T=T)) * R * T,
                   (sp.get_H(T=T, units='kcal/mol', x=x) - bare.get_H(T=T, units='kcal/mol')),
                   (sp.get_SoR(T=T, x=x) - bare.get_SoR(T=T)) * R * T + exp]
            ctx.evals(24)
            ok &= ctx.close('a surface species carrying the model reports polynomial + the same energy',
                            got, [exp] * 4, sig, case, rtol=1e-9, atol=1e-7, scale=abs(exp) + 50.0)
    zero = (obj.get_SoR(), obj.get_CvoR(), obj.get_CpoR())
    ok &= ctx.true('S = Cv = Cp = 0', zero == (0.0, 0.0, 0.0), sig, case, None, (0.0, 0.0, 0.0))
    # (5) one-sided limits at each breakpoint agree (continuity), measured on the implementation
    for b in iv[1:]:
        if b <= 0.0:
            continue
        lo, hi = float(np.nextafter(b, -1.0)), float(np.nextafter(b, 2.0))
        T = TEMPS[0]
        ul = obj.get_UoRT(x=lo, T=T) * R * T
        uh = obj.get_UoRT(x=hi, T=T) * R * T
        ok &= ctx.close('continuous at every breakpoint', ul, uh, sig, case, rtol=0, atol=1e-9)
    return bool(ok)


def _ops_for(obj, ints=False):
    n = len(obj.intervals)
    ops = [['insert', b, s] for b in INS_B for s in (INT_INS_S if ints else INS_S)]
    if min(float(v) for v in obj.intervals) >= 0.0:
        # "insertions below ... existing breakpoints": one breakpoint below the whole list per history
        ops += [['insert', NEG_B, 40 if ints else 40.0]]
    ops += [['pop', i] for i in range(0, n)]
    ops += [['dict'], ['json']]
    return ops


def _sig(op, obj_before):
    if op is None:
        return {'op': 'construct'}
    if op[0] == 'insert':
        return {'op': 'insert', 'where': _where([float(v) for v in obj_before.intervals], op[1])}
    if op[0] == 'pop':
        return {'op': 'pop', 'where': 'first' if op[1] == 0 else 'other'}
    return {'op': op[0]}


def _replay(case, ctx, check_all):
    """Rebuild the object by replaying the history on the real class."""
    obj = _build(case['init'])
    ctx.trace()
    ops = case['ops']
    probe_at = case.get('probe_at', 0)      # the object is evaluated once at this point of the history, then
    #                                         edited without evaluation until the end (values memoised at an
    #                                         evaluation must not survive later edits)
    if check_all or not ops:
        if not check_state(obj, ctx, _sig(None, obj), case):
            return None
    elif probe_at == 0:
        _probe(obj)
    for k, op in enumerate(ops):
        last = (k == len(ops) - 1)
        if not check_all and not last and probe_at == k and k > 0:
            _probe(obj)
        sig = _sig(op, obj)
        if check_all or last:
            new, exp = apply_op(obj, op, ctx, sig, case)
            ctx.trans()
            okp = ctx.equal('edit changes exactly the edited (breakpoint, slope) pair', _pairs(new), exp,
                            sig, case)
            oks = check_state(new, ctx, sig, case)
            if not (okp and oks):
                return None
            obj = new
        else:
            obj = _silent(obj, op)
    return obj


def _probe(obj):
    for x in (0.05, 0.2, 0.6, 1.1):
        obj.get_UoRT(x=x, T=300.)
        obj.get_HoRT(x=x, T=300.)


def _silent(obj, op):
    from pmutt.io.json import pmuttEncoder, json_to_pmutt
    from pmutt.mixture.cov import PiecewiseCovEffect
    if op[0] == 'insert':
        obj.insert(op[1], op[2])
    elif op[0] == 'pop':
        if op[1] != 0:
            obj.pop(op[1])
        else:
            try:
                obj.pop(0)
            except ValueError:
                pass
    elif op[0] == 'dict':
        obj = PiecewiseCovEffect.from_dict(obj.to_dict())
    elif op[0] == 'json':
        obj = json.loads(json.dumps(obj, cls=pmuttEncoder), object_hook=json_to_pmutt)
    return obj


def _shared_cases(n):
    """Two objects constructed from the SAME caller-owned lists, then every single edit on one of them."""
    for init in [i for i in _inits('quick') if len(i['intervals']) == n]:
        for who in (0, 1):
            base = _build(init)
            for op in _ops_for(base):
                if op[0] in ('dict', 'json') or op == ['pop', 0]:
                    continue
                yield dict(kind='shared', init=init, who=who, op=op)


def check_shared(case, ctx):
    from pmutt.mixture.cov import PiecewiseCovEffect
    ctx.tag('construct:shared-lists')
    iv, sl = list(case['init']['intervals']), list(case['init']['slopes'])
    objs = [PiecewiseCovEffect(name_i='A(S)', name_j='B(S)', intervals=iv, slopes=sl, name='lat%d' % k)
            for k in range(2)]
    ctx.trace()
    ed, other = objs[case['who']], objs[1 - case['who']]
    before = _pairs(other)
    sig = {'op': 'shared-lists', 'edit': case['op'][0]}
    new, exp = apply_op(ed, case['op'], ctx, sig, case)
    ctx.trans()
    ctx.state(('shared', case['init'], case['who'], case['op']))
    ctx.nontrivial(('shared', case['init'], case['who'], case['op']))
    ctx.equal('edit changes exactly the edited (breakpoint, slope) pair', _pairs(new), exp, sig, case)
    check_state(new, ctx, sig, case)
    ctx.equal('an object built from the same lists is not changed by editing the other one', _pairs(other), before,
              sig, case)
    check_state(other, ctx, dict(sig, obj='the other object'), case)


def check_case(case, ctx):
    if case.get('kind') == 'shared':
        check_shared(case, ctx)
        return
    _replay(case, ctx, check_all=True)


def run_shard(shard, ctx):
    if shard.get('kind') == 'shared':
        for case in _shared_cases(shard['n']):
            ctx.run_case(check_case, case, {'op': 'shared-lists'})
        ctx.sample(case, limit=1)
        return
    init, depth = shard['init'], shard['depth']
    if init.get('ints'):
        ctx.tag('slopes:int-typed')
    probe_at = shard.get('probe_at', 0)
    root = dict(init=init, ops=[], probe_at=probe_at)
    obj = _replay(root, ctx, check_all=True)
    if obj is None:
        return
    seen = {(tuple(obj.intervals), tuple(obj.slopes))}
    ctx.state(('s', tuple(obj.intervals), tuple(obj.slopes)))
    ctx.sample(root)
    frontier = [[]]
    for d in range(depth):
        nxt = []
        for hist in frontier:
            base = _replay_silent(init, hist)
            for op in _ops_for(base, ints=bool(init.get('ints'))):
                case = dict(init=init, ops=hist + [op], probe_at=probe_at)

                def one(case_, ctx_):
                    return None
                res = {}

                def run(case_, ctx_, res=res):
                    res['obj'] = _replay(case_, ctx_, check_all=False)
                if not ctx.run_case(run, case, _sig(op, base)):
                    continue
                new = res.get('obj')
                if new is None:
                    continue            # violated state: reported, not expanded
                key = (tuple(float(v) for v in new.intervals), tuple(float(v) for v in new.slopes))
                if key not in seen:
                    seen.add(key)
                    ctx.state(('s',) + key)
                    if len(key[0]) >= 2:
                        ctx.nontrivial(key)
                    nxt.append(hist + [op])
                    if len(hist) + 1 == depth:
                        ctx.sample(case, limit=2)
        frontier = nxt


def _replay_silent(init, hist):
    obj = _build(init)
    for op in hist:
        obj = _silent(obj, op)
    return obj

LEVEL_TEXT = ('Explicit-state BFS over edit histories of the real PiecewiseCovEffect (insert/pop/reload) from every '
              'initial breakpoint list of the alphabet; all invariants evaluated in every reachable state and the '
              'pair-multiset law on every transition; complete up to the stated depth.')
LEVEL_NOTE = ('Breakpoints/slopes from finite lattices; depth 3 (quick) / 4 (thorough); equal-breakpoint placement '
              'left free as the statement leaves it.')
TECHNIQUE = 'explicit-state BFS over operation histories on the implementation, reference-model oracle'
