"""C16 - equilibrium compositions conserve atoms, are non-negative, minimise the Gibbs energy,
do not depend on the species order, and a solver failure is signalled to the caller.

Shape B: deviation-bounded product enumeration over
    network x g-pattern x g-spread x feed x feed scale x T x P x species order x call history
of the real pmutt.equilibrium.Equilibrium, against an independent element-potential solver
(pmc/ref/equilibrium.py; convex problem, so its certified KKT point is the global minimum).

Harness seam (no edit of the repository): pmutt.equilibrium._equilibrium.minimize is wrapped
inside the worker so that SciPy's success flag - which get_net_comp() does not hand on - is seen.
"""
import itertools
import math
import os
import shutil
import tempfile
import warnings

import numpy as np

from pmc.engine import core
from pmc.ref import equilibrium as R

ID = 'C16'
RULE = ('every configuration (network, g pattern, g spread, feed, feed scale, T, P, species order, '
        'call history) of the stated product blocks is solved by the real Equilibrium.get_net_comp and '
        'judged against the certified reference minimiser; configurations are distinct by that tuple; '
        'a configuration is non-trivial when it reaches a branch the default (H2/O2/H2O, spread 5, '
        'stoichiometric feed x1, 1000 K, 1 atm, listed order, fresh object) does not: SciPy failure, '
        'trace species (x < 1e-4), amount at the lower bound, start outside the bounds, forced-zero '
        'species, rank-deficient element matrix, permuted order, re-used object, closed form, network entered '
        'through a thermdat file written by the harness, another network built / written / solved earlier in '
        'the process, integer-typed numbers, result edited by the caller between two calls, '
        'model handed over as a list in another order than the network / longer than the network / as a dictionary')
ASSUMPTIONS = ['ideal-gas mixture, standard state 1 bar (NASA polynomials), P given in atm',
               'networks, g patterns, spreads, feeds, scales, T and P are taken from finite alphabets '
               '(stated in bounds); constant-Cp NASA-7 species whose a6 is chosen so that G/RT at the '
               'case temperature equals the prescribed value, plus the bundled propane/steam thermdat',
               'file family: the thermodynamic numbers of a case are the coefficients as a thermdat record holds '
               'them (E15.8 fields); the directly built network it is compared with gets the same numbers; an '
               'Equilibrium object made by from_thermdat holds the content the file had when it was made',
               'global optimality is decided through convexity: the reference returns a point that '
               'passes a KKT certificate, which for this convex problem is the global minimum',
               '"non-trace" = mole fraction > 1e-4 (DESIGN 3.4): affinities and amounts of rarer species '
               'are ill-conditioned at the solver tolerance and are only covered through G and the atom balance',
               'a warning counts as a signal of solver failure unless it is one of the unrelated, '
               'always-possible ones (SciPy "Values in x were outside bounds", NASA "Requested temperature")']
EXPLANATION = ('bounded exhaustive exploration of the implementation: every configuration of the stated '
               'blocks is an execution of the real solver')

# ---------------------------------------------------------------------------- alphabet
FORM = {
    'N': {'N': 1}, 'N2': {'N': 2}, 'N3': {'N': 3},
    'oH2': {'H': 2}, 'pH2': {'H': 2},                 # ortho / para hydrogen: isomers over one element
    'H2': {'H': 2}, 'O2': {'O': 2}, 'H2O': {'H': 2, 'O': 1}, 'OH': {'O': 1, 'H': 1}, 'H': {'H': 1},
    'O': {'O': 1}, 'HO2': {'H': 1, 'O': 2}, 'H2O2': {'H': 2, 'O': 2},
    'NO2': {'N': 1, 'O': 2}, 'N2O4': {'N': 2, 'O': 4}, 'NO': {'N': 1, 'O': 1},
    'CH4': {'C': 1, 'H': 4}, 'C2H6': {'C': 2, 'H': 6}, 'C2H4': {'C': 2, 'H': 4}, 'C2H2': {'C': 2, 'H': 2},
    'CO': {'C': 1, 'O': 1}, 'CO2': {'C': 1, 'O': 2},
    'HCN': {'H': 1, 'C': 1, 'N': 1}, 'HNC': {'H': 1, 'N': 1, 'C': 1}, 'NH3': {'N': 1, 'H': 3},
    # species with an atom count >= 10 (two- and three-column counts of a thermdat record)
    'C4H10': {'C': 4, 'H': 10}, 'C4H8': {'C': 4, 'H': 8}, 'C3H6': {'C': 3, 'H': 6},
    'C10H22': {'C': 10, 'H': 22}, 'C5H12': {'C': 5, 'H': 12}, 'C5H10': {'C': 5, 'H': 10},
    'C4H10O': {'C': 4, 'H': 10, 'O': 1},
}
ELEMENT_ORDER = ['H', 'O', 'C', 'N']

# name -> (species in listed order, feeds {label: {species: amount}})
NETS_Q = {
    'N-dimer': (['N', 'N2'],
                {'unit:N2': {'N2': 1.0}, 'unit:N': {'N': 1.0}, 'mixed': {'N': 0.3, 'N2': 2.0}}),
    'N-trimer': (['N', 'N2', 'N3'],
                 {'unit:N2': {'N2': 1.0}, 'unit:N3': {'N3': 1.0}, 'mixed': {'N': 1.0, 'N2': 1.0, 'N3': 1.0}}),
    'H2-spin': (['oH2', 'pH2'],
                {'unit:pH2': {'pH2': 1.0}, 'mixed': {'oH2': 0.75, 'pH2': 0.25}}),
    'HO3': (['H2', 'O2', 'H2O'],
            {'stoich': {'H2': 2.0, 'O2': 1.0}, 'unit:H2O': {'H2O': 1.0}, 'lean': {'H2': 1.0, 'O2': 2.0},
             'rich': {'H2': 3.0, 'O2': 0.5}}),
    'HO4': (['H2', 'O2', 'H2O', 'OH'],
            {'stoich': {'H2': 2.0, 'O2': 1.0}, 'unit:OH': {'OH': 1.0}, 'lean': {'H2': 1.0, 'O2': 2.0}}),
    'HO6': (['H2', 'O2', 'H2O', 'OH', 'H', 'O'],
            {'stoich': {'H2': 2.0, 'O2': 1.0}, 'unit:H2O': {'H2O': 1.0}, 'lean': {'H2': 1.0, 'O2': 3.0}}),
    'NO2-dimer': (['NO2', 'N2O4'],
                  {'unit:NO2': {'NO2': 1.0}, 'unit:N2O4': {'N2O4': 1.0}}),
    'AMM3': (['N2', 'H2', 'NH3'],
             {'stoich': {'N2': 1.0, 'H2': 3.0}, 'unit:NH3': {'NH3': 1.0}, 'lean': {'N2': 2.0, 'H2': 1.0}}),
    'CH5': (['CH4', 'C2H6', 'C2H4', 'C2H2', 'H2'],
            {'unit:CH4': {'CH4': 1.0}, 'mixed': {'C2H6': 1.0, 'H2': 1.0}, 'rich': {'C2H2': 1.0, 'H2': 3.0}}),
    'WGS4': (['CO', 'H2O', 'CO2', 'H2'],
             {'stoich': {'CO': 1.0, 'H2O': 1.0}, 'forced-zero': {'CO': 1.0, 'H2': 1.0},
              'lean': {'CO': 1.0, 'H2O': 3.0}, 'rich': {'CO2': 1.0, 'H2': 0.2}}),
    'SR5': (['CH4', 'H2O', 'CO', 'CO2', 'H2'],
            {'stoich': {'CH4': 1.0, 'H2O': 1.0}, 'lean': {'CH4': 1.0, 'H2O': 3.0},
             'dry': {'CH4': 1.0, 'CO2': 1.0}}),
    'ISO': (['HCN', 'HNC'],
            {'unit:HCN': {'HCN': 1.0}, 'mixed': {'HCN': 0.25, 'HNC': 0.75}}),
    'CHON6': (['CH4', 'H2O', 'CO', 'CO2', 'H2', 'N2'],
              {'inert': {'CH4': 1.0, 'H2O': 2.0, 'N2': 4.0}, 'inert-trace': {'CH4': 1.0, 'H2O': 1.0, 'N2': 1e-3}}),
    'AMM6': (['CH4', 'H2O', 'CO', 'CO2', 'H2', 'NH3'],
             {'bound-N': {'CH4': 1.0, 'H2O': 2.0, 'NH3': 0.5}, 'rich': {'CO': 1.0, 'H2': 3.0, 'NH3': 0.1}}),
}
NETS_T = {
    'HO8': (['H2', 'O2', 'H2O', 'OH', 'H', 'O', 'HO2', 'H2O2'],
            {'stoich': {'H2': 2.0, 'O2': 1.0}, 'unit:H2O2': {'H2O2': 1.0}, 'lean': {'H2': 1.0, 'O2': 3.0}}),
    'CHO9': (['CH4', 'H2O', 'CO', 'CO2', 'H2', 'O2', 'C2H6', 'C2H4', 'C2H2'],
             {'stoich': {'CH4': 1.0, 'O2': 2.0}, 'rich': {'CH4': 1.0, 'O2': 0.5}, 'steam': {'C2H6': 1.0, 'H2O': 2.0}}),
    'CHON12': (['CH4', 'H2O', 'CO', 'CO2', 'H2', 'O2', 'N2', 'NH3', 'NO', 'HCN', 'C2H4', 'NO2'],
               {'air': {'CH4': 1.0, 'O2': 2.0, 'N2': 7.52}, 'rich': {'CH4': 1.0, 'O2': 0.6, 'N2': 2.3},
                'amm': {'NH3': 1.0, 'CO2': 1.0, 'H2': 0.5}}),
}
# networks entered through Equilibrium.from_thermdat from files WRITTEN BY THE HARNESS with
# pmutt.io.thermdat.write_thermdat (the first four hold a species with an atom count >= 10 that
# is formed or consumed; the last three are networks of the regular family)
NETS_F = {
    'BUT3': (['C4H10', 'C4H8', 'H2'],
             {'unit:C4H10': {'C4H10': 1.0}, 'mixed': {'C4H8': 1.0, 'H2': 2.0}}),
    'DEC3': (['C10H22', 'C5H12', 'C5H10'],
             {'unit:C10H22': {'C10H22': 1.0}, 'mixed': {'C5H12': 1.0, 'C5H10': 0.5}}),
    'BUT5': (['C4H10', 'C2H6', 'C2H4', 'CH4', 'C3H6'],
             {'unit:C4H10': {'C4H10': 1.0}, 'mixed': {'C2H6': 1.0, 'C2H4': 1.0, 'CH4': 0.5, 'C3H6': 0.5}}),
    'BUOH5': (['C4H10O', 'C4H8', 'H2O', 'H2', 'C4H10'],
              {'steam': {'C4H10': 1.0, 'H2O': 1.0}, 'hydro': {'C4H10O': 1.0, 'H2': 1.0}}),
}
FILE_NETS = ['BUT3', 'DEC3', 'BUT5', 'BUOH5', 'HO3', 'WGS4', 'AMM3']
FILE_DECOYS = ['C10H22', 'NO2', 'C4H10']          # records of the file that are not in the network
FILE_NAME = 'thermdat'

# bundled thermdat network of the repository's own test (real temperature dependence); only at
# temperatures where its G/RT values span <= 60 (50.2 at 1500 K, 58.0 at 1300 K)
BUNDLED = 'PROPANE10'
BUNDLED_FILE = os.path.join('pmutt', 'tests', 'equilibrium', 'thermdat_equilibrium_unittest.txt')
BUNDLED_SPECIES = ['CH3CH2CH3', 'H2O', 'H2', 'CH2CHCH3', 'CH4', 'CHCH', 'CH2CH2', 'CH3CH3', 'CO2', 'CO']
BUNDLED_FEEDS = {'test-feed': {'CH3CH2CH3': 1.0, 'H2O': 0.7}, 'steam-rich': {'CH3CH2CH3': 1.0, 'H2O': 6.0},
                 'mixed': {'CH4': 1.0, 'CO2': 1.0, 'H2': 0.5}}
BUNDLED_T = [1300.0, 1500.0]

SPREADS = [0.0, 5.0, -5.0, 20.0, -20.0, 60.0, -60.0]
SCALES = [1.0, 1e-3, 1e3]
TEMPS = [300.0, 500.0, 1000.0, 2500.0]
PRESS = [0.01, 1.0, 100.0]
DEF_T, DEF_P = 1000.0, 1.0

TRACE = 1e-4                      # mole fraction below which a species is "trace"
TOL_G = 1e-6                      # G(x_impl) - G_min <= TOL_G * (N + |G_min|)   (N = total moles: scale-aware)
TOL_AFF = 1e-3                    # |dG/RT + ln Q| of a reaction among non-trace species
TOL_AMOUNT = 1e-3                 # relative, non-trace amounts (same quantity as TOL_AFF: d ln n)
TOL_ATOMS = 1e-8                  # relative to the element total of the feed
LOWER_BOUND_TAG = 1e-19           # an amount this small sits on pMuTT's lower bound (1e-20)

PLANNED_TAGS = ['via:thermdat-written', 'file:layout-exact', 'file:layout-shuffled+decoys', 'file:atom-count>=10',
                'file:species-with-atom-count>=10-formed-or-consumed', 'history:file-overwritten-at-same-path',
                'history:file-at-other-path', 'history:earlier-file-same-species',
                'history:earlier-file-other-species', 'history:other-file-before-build',
                'history:other-file-after-build', 'history:other-object-before-build',
                'history:other-object-after-build', 'history:result-scribbled', 'numbers:int',
                'scipy:success', 'scipy:failure', 'failure:signalled', 'rank:deficient', 'rank:full',
                'feed:forced-zero', 'species:trace', 'species:at-lower-bound', 'start:outside-bounds',
                'closed-form:dimer', 'closed-form:isomer', 'order:permuted', 'history:reused',
                'elements:1', 'elements:2', 'elements:3', 'elements:4', 'affinity:checked',
                'network:bundled-thermdat', 'ref:float64', 'ref:decimal',
                'model:list-in-another-order', 'model:list-rotated', 'model:list-longer-than-network', 'model:dict',
                'model:dict-in-another-order', 'model:dict-longer-than-network',
                'network:in-another-order-than-the-listed-model']


def _nets(tier):
    d = dict(NETS_Q)
    if tier != 'quick':
        d.update(NETS_T)
    return d


def bounds(tier):
    nets = _nets(tier)
    return dict(networks={k: v[0] for k, v in nets.items()}, bundled_network=BUNDLED_SPECIES,
                bundled_T=BUNDLED_T, feeds={k: sorted(v[1]) for k, v in nets.items()},
                g_patterns=['a'] if tier == 'quick' else ['a', 'b'], g_spreads=SPREADS, feed_scales=SCALES,
                T=TEMPS, P_atm=PRESS,
                orderings='all n! for <= 4 species; all rotations of the listed and of the reversed order otherwise',
                blocks=('quick: per network and spread: feed x scale x P at 1000 K; feed x T x P(1) on a re-used '
                        'object and fresh; feed x all orderings at 1000 K, 1 atm; thorough: feed x scale x T x P, '
                        'orderings x feed x P x scale at 1000 K, re-used object over the whole T x P lattice'),
                file_family=dict(
                    networks={k: _all_nets()[k][0] for k in FILE_NETS}, decoy_records=FILE_DECOYS,
                    per_network_spread_feed=('fresh file: P x {1000 K} and T x {1 atm} (thorough: scale x T x P); file '
                                             'layout exact / reversed between decoy records x listed / reversed '
                                             'order (thorough: all orderings); histories: earlier file with the '
                                             'same species and other numbers, or with other species (thorough: '
                                             'also both, in both orders, and the same twice) x same path '
                                             'overwritten / other path x before / after the judged file is read; '
                                             're-used object, result scribbled')),
                generic_blocks='per (network, spread, feed) of the regular family: integer-typed amounts, T, P at '
                               '(1000 K, 1 atm) and (500 K, 100 atm) for integral feeds; another object of the same '
                               'species with other numbers built and solved before / after construction; second '
                               'call after the caller reversed result.species and overwrote moles / mole_frac; model '
                               'argument as %s relative to the network order (listed network), and as %s with the '
                               'network reversed (= model in the listed order), at (1000 K, 1 atm)'
                               % (MODEL_FORMS, MODEL_FORMS_NETWORK_REVERSED),
                deviation_level='full product inside each block')


# ---------------------------------------------------------------------------- species / reference data
def _pattern(ns, which):
    """Deterministic pattern u_i in [-0.5, 0.5] with max - min = 1 (a permutation of a ramp)."""
    if ns == 1:
        return [0.0]
    ks = (7, 5, 3, 11, 13) if which == 'a' else (3, 5, 7, 11, 13)
    k = next(k for k in ks if math.gcd(k, ns) == 1 and k % ns != 0)
    off = 3 if which == 'a' else 1
    return [(((i * k + off) % ns) / (ns - 1.0)) - 0.5 for i in range(ns)]


def _cp(name):
    return 2.5 + 0.5 * sum(FORM[name].values())


def _coeffs(name, idx, g, T):
    """Constant-Cp NASA-7 vectors (low, high) with G/RT(T) = g in both ranges (textbook algebra:
    G/RT = cp (1 - ln T) + a6/T - a7)."""
    out = []
    for cp, a7 in ((_cp(name), 1.0 + 0.75 * idx), (_cp(name) + 1.0, -2.0 + 0.5 * idx)):
        a6 = T * (g - cp * (1.0 - math.log(T)) + a7)
        out.append([cp, 0.0, 0.0, 0.0, 0.0, a6, a7])
    return out


def _is_bundled(case):
    return case['net'] == BUNDLED


def _listed(case, tier_nets=None):
    if _is_bundled(case):
        return list(BUNDLED_SPECIES), dict(BUNDLED_FEEDS[case['feed']])
    sp, feeds = _all_nets()[case['net']]
    return list(sp), dict(feeds[case['feed']])


def _all_nets():
    nets = dict(NETS_Q)
    nets.update(NETS_T)
    nets.update(NETS_F)
    return nets


def _is_file(case):
    return case.get('via') == 'file'


def _printed(a):
    """The number a thermdat record holds for a coefficient (Chemkin E15.8 field)."""
    return float('%.8E' % a)


def _read_thermdat_ref(path):
    """Minimal fixed-column thermdat reader (independent of pmutt.io.thermdat): name, element
    counts, T_low/T_high/T_mid, 14 coefficients (7 high first, then 7 low)."""
    with open(path) as f:
        lines = [ln.rstrip('\n') for ln in f]
    out = {}
    i = 0
    while i < len(lines):
        ln = lines[i]
        if len(ln) >= 80 and ln[79] == '1' and i + 3 < len(lines) and lines[i + 1][79:80] == '2':
            name = ln[:16].split()[0]
            el = {}
            for k in range(4):
                sym = ln[24 + 5 * k:26 + 5 * k].strip()
                cnt = ln[26 + 5 * k:29 + 5 * k].strip()
                if sym and sym != '0':
                    el[sym.capitalize()] = int(float(cnt or 0))
            tl, th, tm = [float(v) for v in ln[45:79].split()[:3]]
            nums = []
            for r in range(1, 4):
                row = lines[i + r]
                for k in range(5):
                    fld = row[15 * k:15 * (k + 1)].strip()
                    if fld and len(nums) < 14:
                        nums.append(float(fld))
            out[name] = dict(elements=el, T_low=tl, T_high=th, T_mid=tm, a_high=nums[:7], a_low=nums[7:14])
            i += 4
        else:
            i += 1
    return out


_BUNDLED_CACHE = {}


def _bundled_ref():
    if 'd' not in _BUNDLED_CACHE:
        _BUNDLED_CACHE['d'] = _read_thermdat_ref(os.path.join(core.REPO_ROOT, BUNDLED_FILE))
    return _BUNDLED_CACHE['d']


def _problem(case):
    """Reference-side description of a case: canonical species list, element matrix, element
    totals, g_i(T) from the textbook NASA expression, pressure in bar."""
    names, feed = _listed(case)
    T, P = float(case['T']), float(case['P'])
    if _is_bundled(case):
        d = _bundled_ref()
        forms = {n: {k: v for k, v in d[n]['elements'].items() if v} for n in names}
        g = [R.nasa7_GoRT(d[n]['a_low'] if T < d[n]['T_mid'] else d[n]['a_high'], T) for n in names]
        coeffs = None
    else:
        forms = {n: FORM[n] for n in names}
        u = _pattern(len(names), case['pat'])
        g_target = [float(case['spread']) * ui for ui in u]
        coeffs = {n: _coeffs(n, i, g_target[i], T) for i, n in enumerate(names)}
        if _is_file(case):
            # the thermodynamics of the case are the numbers a thermdat record can hold; the
            # directly built network it is compared with gets the same numbers
            coeffs = {n: [[_printed(a) for a in v] for v in lh] for n, lh in coeffs.items()}
        # the reference evaluates g from the coefficients with its own formula (not the target)
        g = [R.nasa7_GoRT(coeffs[n][0] if T < 1000.0 else coeffs[n][1], T) for n in names]
    els = [e for e in ELEMENT_ORDER if any(forms[n].get(e, 0) for n in names)]
    A = np.array([[float(forms[n].get(e, 0)) for e in els] for n in names])
    amounts = np.array([float(feed.get(n, 0.0)) * float(case['scale']) for n in names])
    b = amounts @ A
    return dict(names=names, forms=forms, elements=els, A=A, feed=amounts, b=b, g=np.array(g),
                Pbar=P * R.BAR_PER_ATM, coeffs=coeffs)


_REF_CACHE = {}


def _reference(case, prob):
    key = (case['net'], case.get('pat'), case.get('spread'), case['feed'], case['scale'], case['T'], case['P'],
           _is_file(case))
    if key not in _REF_CACHE:
        try:
            _REF_CACHE[key] = R.solve(prob['A'], prob['b'], prob['g'], prob['Pbar'])
        except R.RefError as e:
            raise core.HarnessError('reference solver failed for %r: %s' % (key, e))
    return _REF_CACHE[key]


# ---------------------------------------------------------------------------- the seam and the execution
_CALLS = []
UNRELATED_WARNINGS = ('Values in x were outside bounds', 'Requested temperature')


def _install_seam():
    import pmutt.equilibrium._equilibrium as E
    if getattr(E.minimize, '_c16_seam', False):
        return E
    orig = E.minimize

    def minimize_observed(*a, **k):
        r = orig(*a, **k)
        _CALLS.append(dict(success=bool(r.success), status=int(getattr(r, 'status', -1)),
                           nit=int(getattr(r, 'nit', -1)), message=str(getattr(r, 'message', ''))[:80]))
        return r
    minimize_observed._c16_seam = True
    E.minimize = minimize_observed
    return E


def _order(names, perm):
    return [names[i] for i in perm]


def _nasa(prob, n, phase=None):
    from pmutt.empirical.nasa import Nasa
    lo, hi = prob['coeffs'][n]
    kw = {} if phase is None else dict(phase=phase)
    return Nasa(name=n, T_low=200.0, T_mid=1000.0, T_high=3500.0, a_low=list(lo), a_high=list(hi),
                elements=dict(prob['forms'][n]), **kw)


def _write_file(case, prob, order, path):
    """The thermdat file of a file case, written by the real write_thermdat: the records of the
    network in the listed order ('exact'), or in reverse order between / after two records that do
    not belong to the network ('shuffled+decoys')."""
    from pmutt.empirical.nasa import Nasa
    from pmutt.io.thermdat import write_thermdat
    names = prob['names']
    recs = [_nasa(prob, names[i], phase='G') for i in order]
    if (case.get('layout') or 'exact') == 'shuffled+decoys':
        T = float(case['T'])
        decoys = []
        for k, d in enumerate([d for d in FILE_DECOYS if d not in names][:2]):
            lo, hi = _coeffs(d, 7 + k, -100.0, T)
            decoys.append(Nasa(name=d, T_low=200.0, T_mid=1000.0, T_high=3500.0, a_low=[_printed(a) for a in lo],
                               a_high=[_printed(a) for a in hi], elements=dict(FORM[d]), phase='G'))
        recs = recs[::-1]
        recs.insert(len(recs) // 2, decoys[1])
        recs.insert(0, decoys[0])
    elif (case.get('layout') or 'exact') != 'exact':
        raise core.HarnessError('layout %r' % case.get('layout'))
    write_thermdat(recs, filename=path)


# How the `model` argument is handed over, RELATIVE to the order of the network dictionary (default:
# a list in the network's order).  +decoys: two objects that are not part of the network (G/RT = -100:
# would dominate if picked up), one first and one in the middle of the reversed list, so the list /
# dictionary is longer than the network.
MODEL_FORMS = ['list:reversed', 'list:rotated', 'list+decoys', 'dict', 'dict:reversed', 'dict+decoys']
MODEL_FORMS_NETWORK_REVERSED = ['list:reversed', 'dict:reversed']      # = model in the listed order
MODEL_SIG = {'list:reversed': 'list-in-another-order', 'list:rotated': 'list-in-another-order',
             'list+decoys': 'list-longer-than-network', 'dict': 'dict', 'dict:reversed': 'dict-in-another-order',
             'dict+decoys': 'dict-longer-than-network'}


def _model_arg(case, prob, order):
    """The `model` argument of a directly built case."""
    from pmutt.empirical.nasa import Nasa
    names = prob['names']
    form = case.get('model') or 'list'
    if form != 'list' and form not in MODEL_FORMS:
        raise core.HarnessError('model form %r' % form)
    kind, _, how = form.partition(':')
    decoys = kind.endswith('+decoys')
    kind = kind.split('+')[0]
    seq = list(order)
    if how == 'reversed' or decoys:
        seq = seq[::-1]
    elif how == 'rotated':
        seq = seq[1:] + seq[:1]
    objs = [_nasa(prob, names[i]) for i in seq]
    if decoys:
        extra = []
        for k, d in enumerate([d for d in FILE_DECOYS if d not in names][:2]):
            lo, hi = _coeffs(d, 7 + k, -100.0, float(case['T']))
            extra.append(Nasa(name=d, T_low=200.0, T_mid=1000.0, T_high=3500.0, a_low=list(lo), a_high=list(hi),
                              elements=dict(FORM[d])))
        objs.insert(len(objs) // 2, extra[1])
        objs.insert(0, extra[0])
    if kind == 'dict':
        return {o.name: o for o in objs}
    return objs


def _model_snapshot(model):
    if model is None:
        return None
    items = list(model.items()) if isinstance(model, dict) else list(enumerate(model))
    return [type(model).__name__] + [(k, id(m), dict(m.elements)) for k, m in items]


def _make_eq(case, prob, order, workdir):
    """The real Equilibrium object of a case: (object, the network dict it was given, the model
    list / dict it was given or None)."""
    E = _install_seam()
    names = prob['names']
    network = {}
    for i in order:
        v = float(prob['feed'][i])
        if case.get('num') == 'int':
            if v != int(v):
                raise core.HarnessError('integer-typed case with a non-integral feed %r' % v)
            v = int(v)
        network[names[i]] = v
    if _is_bundled(case):
        return E.Equilibrium.from_thermdat(os.path.join(core.REPO_ROOT, BUNDLED_FILE), network), network, None
    if _is_file(case):
        path = os.path.join(workdir, FILE_NAME)
        _write_file(case, prob, order, path)
        return E.Equilibrium.from_thermdat(path, network), network, None
    model = _model_arg(case, prob, order)
    return E.Equilibrium(model=model, network=network), network, model


def _run_before(case, workdir):
    """The earlier part of a history: other networks built (file cases: written to the SAME path,
    or to another path, and entered through from_thermdat) and solved in this process."""
    for b in case.get('before') or []:
        bc = dict(b, prior=None)
        pb = _problem(bc)
        bc['order'] = list(range(len(pb['names'])))
        sub = workdir
        if workdir is not None and (case.get('path') or 'same') == 'other':
            sub = os.path.join(workdir, 'other')
            os.makedirs(sub, exist_ok=True)
        eqb = _make_eq(bc, pb, bc['order'], sub)[0]
        try:
            eqb.get_net_comp(T=float(bc['T']), P=float(bc['P']))
        except Exception:
            pass                             # history, not the case judged


def _scribble(res):
    """What a caller may do with a result it was given: edit its containers in place."""
    for arr, v in ((res.moles, -1.0), (res.mole_frac, 7.0)):
        try:
            arr[...] = v
        except (TypeError, ValueError):
            pass
    if isinstance(res.species, list):
        res.species.reverse()


def _uses_files(case):
    return _is_file(case) or any(b.get('via') == 'file' for b in case.get('before') or [])


def _execute(case, prob, order, prior):
    """Run the real code once.  Returns dict(moles (canonical order), mole_frac, species ok, flag,
    warnings, exc)."""
    names = prob['names']
    out = dict(exc=None, moles=None, frac=None, flag=None, signals=[], unrelated=0, species_ok=None,
               caller_data_ok=None)
    T, P = float(case['T']), float(case['P'])
    if case.get('num') == 'int':
        if T != int(T) or P != int(P):
            raise core.HarnessError('integer-typed case with non-integral T or P')
        T, P = int(T), int(P)
    workdir = tempfile.mkdtemp(prefix='c16_') if _uses_files(case) else None
    try:
        with warnings.catch_warnings(record=True) as rec:
            warnings.resetwarnings()             # neutralises pmutt.equilibrium's import-time filter too
            warnings.simplefilter('always')
            when = case.get('when') or 'before-build'
            if when == 'before-build':
                _run_before(case, workdir)
            eq, network, model = _make_eq(case, prob, order, workdir)
            given = (list(network.items()), _model_snapshot(model))
            if when == 'after-build':
                _run_before(case, workdir)
            elif when != 'before-build':
                raise core.HarnessError('when %r' % when)
            if prior is not None:
                try:
                    r0 = eq.get_net_comp(T=float(prior[0]), P=float(prior[1]))
                except Exception:
                    r0 = None                    # the prior call is history, not the case judged
                if case.get('scribble') and r0 is not None:
                    _scribble(r0)
            del rec[:]
            del _CALLS[:]
            try:
                res = eq.get_net_comp(T=T, P=P)
            except Exception as e:               # judged by the caller (signal of a failure, or a crash)
                out['exc'] = e
                res = None
            calls = list(_CALLS)
            for w in rec:
                msg = str(w.message)
                if any(msg.startswith(u) or u in msg for u in UNRELATED_WARNINGS):
                    out['unrelated'] += 1
                else:
                    out['signals'].append('%s: %s' % (w.category.__name__, msg[:100]))
            out['caller_data_ok'] = (list(network.items()) == given[0] and _model_snapshot(model) == given[1])
    finally:
        if workdir is not None:
            shutil.rmtree(workdir, ignore_errors=True)
    out['flag'] = calls[-1] if calls else None
    if res is not None:
        listed = [names[i] for i in order]
        out['species_ok'] = (list(res.species) == listed)
        moles = np.full(len(names), np.nan)
        frac = np.full(len(names), np.nan)
        m = np.asarray(res.moles, dtype=float)
        f = np.asarray(res.mole_frac, dtype=float)
        if m.shape == (len(names),) and f.shape == (len(names),):
            for pos, i in enumerate(order):
                moles[i] = m[pos]
                frac[i] = f[pos]
        out['moles'], out['frac'] = moles, frac
        out['TP'] = (res.T, res.P)
    return out


# ---------------------------------------------------------------------------- signature / oracle
def _check_quantifier(prob):
    span = float(np.max(prob['g']) - np.min(prob['g']))
    if span > 60.0 + 1e-6 or not np.all(prob['b'] > 0):
        raise core.HarnessError('case outside the quantifier: span %.3f, element totals %r' % (span, prob['b']))


def _sig(case, prob, run):
    flag = run['flag'] if run else None
    if run is None:
        s = 'not-reached'
    elif flag is None:
        s = 'unobserved'
    elif flag['success']:
        s = 'success'
    else:
        s = 'failure-status-%d' % flag['status']
    sig = dict(scipy=s, net=case['net'], feed_scale='%g' % float(case['scale']),
               order='listed' if list(case['order']) == list(range(len(prob['names']))) else 'permuted',
               history=_history(case))
    if _is_file(case):
        sig['via'] = 'thermdat-written'
    if case.get('num') == 'int':
        sig['numbers'] = 'int'
    if case.get('model'):
        sig['model'] = MODEL_SIG[case['model']]
    return sig


def _history(case):
    h = 'fresh' if case.get('prior') is None else ('reused+scribbled' if case.get('scribble') else 'reused')
    if case.get('before'):
        kinds = sorted({'file' if b.get('via') == 'file' else 'object' for b in case['before']})
        where = ''
        if 'file' in kinds:
            where = ':same-path' if (case.get('path') or 'same') == 'same' else ':other-path'
        h += '+other-%s-%s%s' % ('+'.join(kinds), (case.get('when') or 'before-build'), where)
    return h


def _rank(prob):
    rank = int(np.linalg.matrix_rank(prob['A']))
    return 'full' if rank == len(prob['elements']) else 'deficient'


def _crash(ctx, e, sig, case):
    """An exception raised inside pMuTT for an input of the quantifier is a violation; an exception
    raised by harness code propagates (harness error)."""
    where = core.classify_exception(e)
    if where is None or isinstance(e, core.HarnessError):
        raise e
    s = dict(sig, exc=type(e).__name__, where=where)
    ctx.fail('a composition is returned (no exception) for an input of the quantifier', s, case,
             observed='%s: %s' % (type(e).__name__, str(e)[:200]), expected='a composition')


def _judge(case, ctx, prob, ref, run, sig):
    """All clauses of the statement on one execution.  Returns the canonical-order moles if the
    result is to be trusted for the order clause, else None."""
    names = prob['names']
    A, b, g, Pbar = prob['A'], prob['b'], prob['g'], prob['Pbar']
    flag = run['flag']
    ctx.trace()
    ctx.tag('elements:%d' % len(prob['elements']))
    rank = _rank(prob)
    ctx.tag('rank:' + rank)
    if run['unrelated']:
        ctx.tag('warning:unrelated(clipping or NASA range)')
    start_outside = 1.0 > float(np.sum(b))      # pMuTT starts every species at 1 mol, upper bound = sum of atoms
    if start_outside:
        ctx.tag('start:outside-bounds')
    if ref['forced_zero']:
        ctx.tag('feed:forced-zero')
    ctx.tag('ref:' + ref['method'])
    if _is_bundled(case):
        ctx.tag('network:bundled-thermdat')
    nontriv = []
    big_counts = [i for i, n in enumerate(names) if max(prob['forms'][n].values()) >= 10]
    if _is_file(case):
        ctx.tag('via:thermdat-written')
        ctx.tag('file:layout-' + (case.get('layout') or 'exact'))
        nontriv.append('file')
        if big_counts:
            ctx.tag('file:atom-count>=10')
    if case.get('num') == 'int':
        ctx.tag('numbers:int')
        nontriv.append('int')
    if case.get('model'):
        ctx.tag('model:' + MODEL_SIG[case['model']])
        if case['model'] == 'list:rotated':
            ctx.tag('model:list-rotated')
        if sig['order'] == 'permuted':
            ctx.tag('network:in-another-order-than-the-listed-model')
        nontriv.append('model')
    for step in case.get('before') or []:
        isf = step.get('via') == 'file'
        ctx.tag('history:other-%s-%s' % ('file' if isf else 'object', (case.get('when') or 'before-build')))
        if isf and _is_file(case):
            ctx.tag('history:file-' + ('overwritten-at-same-path' if (case.get('path') or 'same') == 'same'
                                       else 'at-other-path'))
            ctx.tag('history:earlier-file-' + ('same-species' if step['net'] == case['net'] else 'other-species'))
        nontriv.append('before')
    if case.get('scribble'):
        ctx.tag('history:result-scribbled')
    if flag is None:
        ctx.tag('scipy:unobserved')
    elif flag['success']:
        ctx.tag('scipy:success')
    else:
        ctx.tag('scipy:failure')
        ctx.tag('scipy:failure:status-%d' % flag['status'])
        nontriv.append('fail')

    failed = flag is not None and not flag['success']
    # ---- last clause: solver failure is signalled (warning or exception), never silent
    if failed:
        signalled = run['exc'] is not None or len(run['signals']) > 0
        ctx.evals()
        ok = ctx.true('solver failure is signalled to the caller (warning or exception)', signalled, sig, case,
                      observed=dict(scipy=flag, warnings=run['signals'], exception=None),
                      expected='a warning or an exception because SciPy reported success=False')
        if ok:
            ctx.tag('failure:signalled')
            ctx.tag('failure:signalled:' + ('exception' if run['exc'] is not None else 'warning'))
        ctx.nontrivial(_key(case))
        return None                       # the optimality clauses do not apply to a signalled failure
    if run['exc'] is not None:            # a crash although the solver did not report failure
        _crash(ctx, run['exc'], sig, case)
        return None

    moles, frac = run['moles'], run['frac']
    ctx.evals(6)
    ok = ctx.true('species are returned in the listed order', run['species_ok'], sig, case)
    ok &= ctx.true('the network dictionary and the model list of the caller are left as they were',
                   bool(run['caller_data_ok']), sig, case)
    ok &= ctx.true('amounts are finite and non-negative',
                   bool(np.all(np.isfinite(moles)) and np.all(moles >= 0.0)), sig, case,
                   observed=None if np.all(np.isfinite(moles)) and np.all(moles >= 0) else moles,
                   expected='all >= 0')
    if not ok:
        return None
    tot = float(np.sum(moles))
    ok &= ctx.true('mole fractions sum to one', abs(float(np.sum(frac)) - 1.0) <= 1e-12 and bool(np.all(frac >= 0)),
                   sig, case, observed=None, expected=1.0)
    ok &= ctx.close('mole fractions are the amounts divided by their sum', frac, moles / tot, sig, case,
                    rtol=1e-12, atol=1e-300)
    ok &= ctx.true('T and P are echoed', tuple(run['TP']) == (float(case['T']), float(case['P'])), sig, case,
                   observed=None, expected=(case['T'], case['P']))
    # ---- atoms
    ok &= ctx.close('atoms of every element equal the feed', moles @ A, b, sig, case, rtol=TOL_ATOMS, atol=0.0,
                    scale=b)
    # ---- optimality: Gibbs energy not above the certified minimum
    G_impl = R.gibbs(moles, g, Pbar)
    ok &= ctx.close('total Gibbs energy equals the certified minimum', G_impl, ref['G'], sig, case,
                    rtol=TOL_G, atol=0.0, scale=abs(ref['G']) + float(np.sum(ref['n'])))
    # ---- reaction affinities among non-trace species
    x = moles / tot
    S = [i for i in range(len(names)) if x[i] > TRACE]
    if any(0 < xi <= TRACE for xi in x) or any(xi == 0 for xi in x):
        ctx.tag('species:trace')
        nontriv.append('trace')
    if np.any(moles <= LOWER_BOUND_TAG):
        ctx.tag('species:at-lower-bound')
        nontriv.append('bound')
    if _is_file(case) and any(abs(ref['n'][i] - prob['feed'][i]) > 1e-3 * float(np.sum(prob['feed']))
                              for i in big_counts):
        ctx.tag('file:species-with-atom-count>=10-formed-or-consumed')
    if len(S) >= 2:
        rx = R.nullspace_reactions(A[S])
        if rx.shape[0]:
            mu = g[S] + np.log(x[S] * Pbar)
            aff = rx @ mu
            ctx.tag('affinity:checked')
            ctx.evals(rx.shape[0])
            ok &= ctx.close('every reaction among non-trace species is at equilibrium (dG/RT + ln Q = 0)',
                            aff, np.zeros_like(aff), sig, case, rtol=0.0, atol=TOL_AFF)
    # ---- the unique minimiser itself (strict convexity on the free species): non-trace amounts
    Sr = [i for i in range(len(names)) if ref['n'][i] / ref['n'].sum() > TRACE]
    ok &= ctx.close('non-trace amounts equal the unique minimiser', moles[Sr], ref['n'][Sr], sig, case,
                    rtol=TOL_AMOUNT, atol=0.0)
    # ---- closed form for two proportional species
    if len(names) == 2:
        cf = R.closed_form_two(A, b, g, Pbar)
        if cf is not None:
            kind = 'isomer' if abs(A[0].sum() - A[1].sum()) < 1e-12 else 'dimer'
            ctx.tag('closed-form:' + kind)
            nontriv.append('closed')
            big = [i for i in range(2) if cf[i] / cf.sum() > TRACE]
            ok &= ctx.close('two-species closed form', moles[big], cf[big], sig, case, rtol=TOL_AMOUNT, atol=0.0)
    if ref['forced_zero']:
        nontriv.append('forced')
    if rank == 'deficient':
        nontriv.append('rank')
    if start_outside:
        nontriv.append('start')
    if sig['order'] == 'permuted':
        nontriv.append('perm')
    if sig['history'].startswith('reused'):
        nontriv.append('reused')
    if nontriv:
        ctx.nontrivial(_key(case))
    return moles if ok else None


def _key(case):
    k = (case['net'], case.get('pat'), case.get('spread'), case['feed'], case['scale'], case['T'], case['P'],
         tuple(case['order']), tuple(case['prior']) if case.get('prior') else None)
    extra = (case.get('via'), case.get('layout'), case.get('num'), bool(case.get('scribble')),
             case.get('when'), case.get('path'),
             tuple((b.get('via'), b['net'], b.get('pat'), b.get('spread'), b['feed'], b['scale'], b['T'], b['P'],
                    b.get('layout')) for b in case.get('before') or []))
    if any(extra[:-1]) or extra[-1]:
        k += extra
    if case.get('model'):
        k += ('model', case['model'])
    return k


_BASE_CACHE = {}


def _self_check_reference(prob, ref):
    """The reference agrees with the closed form where there is one (harness self-test)."""
    if len(prob['names']) == 2:
        cf = R.closed_form_two(prob['A'], prob['b'], prob['g'], prob['Pbar'])
        if cf is not None and not np.allclose(cf, ref['n'], rtol=1e-9, atol=1e-300):
            raise core.HarnessError('reference solver disagrees with the closed form: %r vs %r' % (ref['n'], cf))


def check_case(case, ctx):
    """One configuration.  For a permuted order the listed order is solved too (order clause)."""
    prob = _problem(case)
    ref = _reference(case, prob)
    _self_check_reference(prob, ref)
    order = [int(i) for i in case['order']]
    ident = list(range(len(prob['names'])))
    prior = case.get('prior')
    ctx.state(_key(case))
    _check_quantifier(prob)
    try:
        run = _execute(case, prob, order, prior)
    except Exception as e:                # construction failed
        _crash(ctx, e, _sig(case, prob, None), case)
        return
    sig = _sig(case, prob, run)
    moles = _judge(case, ctx, prob, ref, run, sig)
    plain = not (_is_file(case) or case.get('before') or case.get('num') or case.get('model'))
    if order != ident or prior is not None or not plain:
        # compare with the listed order on a fresh object built directly from the Nasa objects
        # (same thermodynamic numbers, feed, T, P; float-typed; nothing else done before)
        bcase = dict(case, order=ident, prior=None, via=None, layout=None, num=None, scribble=False,
                     when=None, path=None, before=None, model=None)
        bkey = _key(bcase) + (('printed-coefficients',) if _is_file(case) else ())
        if bkey not in _BASE_CACHE:
            try:
                brun = _execute(bcase, prob, ident, None)
            except Exception as e:
                if core.classify_exception(e) is None:
                    raise
                brun = dict(exc=e, moles=None, flag=None)
            bf = brun['flag']
            usable = (brun['exc'] is None and brun['moles'] is not None and (bf is None or bf['success'])
                      and bool(np.all(np.isfinite(brun['moles']))))
            _BASE_CACHE[bkey] = brun['moles'] if usable else None
        base = _BASE_CACHE[bkey]
        ctx.trans()
        if order != ident:
            ctx.tag('order:permuted')
        if prior is not None:
            ctx.tag('history:reused')
        if moles is not None and base is not None:
            big = [i for i in range(len(base)) if base[i] / np.sum(base) > TRACE]
            if order != ident:
                ctx.evals()
                ctx.close('composition does not depend on the order of the species', moles[big], base[big], sig,
                          case, rtol=2 * TOL_AMOUNT, atol=0.0)
            if prior is not None:
                ctx.evals()
                ctx.close('composition does not depend on earlier calls on the same object', moles[big], base[big],
                          sig, case, rtol=2 * TOL_AMOUNT, atol=0.0)
            if _is_file(case):
                ctx.evals()
                ctx.close('network read from a written thermdat file gives the composition of the same network '
                          'built from the Nasa objects', moles[big], base[big], sig, case, rtol=2 * TOL_AMOUNT,
                          atol=0.0)
            if case.get('before'):
                ctx.evals()
                ctx.close('composition does not depend on other networks built or solved earlier in the process',
                          moles[big], base[big], sig, case, rtol=2 * TOL_AMOUNT, atol=0.0)
            if case.get('model'):
                ctx.evals()
                ctx.close('composition does not depend on how the model is handed over (list in any order, list or '
                          'dictionary longer than the network, dictionary in any order)', moles[big], base[big],
                          sig, case, rtol=2 * TOL_AMOUNT, atol=0.0)
            if case.get('num'):
                ctx.evals()
                ctx.close('integer-typed amounts, T and P give the composition of the float-typed ones',
                          moles[big], base[big], sig, case, rtol=2 * TOL_AMOUNT, atol=0.0)
        else:
            ctx.tag('order-or-history:not-comparable(failure signalled)')


# ---------------------------------------------------------------------------- enumeration
def _orderings(ns):
    if ns <= 4:
        return [list(p) for p in itertools.permutations(range(ns))]
    out = []
    base = list(range(ns))
    for seq in (base, base[::-1]):
        for r in range(ns):
            o = seq[r:] + seq[:r]
            if o not in out:
                out.append(o)
    return out


# configurations of the thorough tier (pattern b) at which SLSQP stops early with success=True for
# 1e3-mol feeds; visited in the quick tier too so that the corresponding known finding is exercised
HARD_POINTS = [
    dict(net='HO6', pat='b', spread=60.0, feed='unit:H2O', scale=1e3, T=1000.0, P=0.01, order=[2, 3, 4, 5, 0, 1],
         prior=None),
    dict(net='HO4', pat='b', spread=-60.0, feed='unit:OH', scale=1e3, T=1000.0, P=0.01, order=[2, 3, 1, 0],
         prior=None),
    # the same defect in the file family of the thorough tier (scale x T x P product)
    dict(net='BUT5', pat='a', spread=60.0, feed='unit:C4H10', scale=1e-3, T=1000.0, P=0.01, order=[0, 1, 2, 3, 4],
         prior=None, via='file', layout='exact'),
    dict(net='BUOH5', pat='a', spread=60.0, feed='steam', scale=1e3, T=1000.0, P=1.0, order=[0, 1, 2, 3, 4],
         prior=None, via='file', layout='exact'),
]


def shards(tier):
    out = []
    if tier == 'quick':
        out.append(dict(net='(hard points)', tier=tier))
    pats = ['a'] if tier == 'quick' else ['a', 'b']
    for net in _nets(tier):
        for pat in pats:
            for s in SPREADS:
                if pat == 'b' and s == 0.0:
                    continue
                out.append(dict(net=net, pat=pat, spread=s, tier=tier))
    for feed in BUNDLED_FEEDS:
        out.append(dict(net=BUNDLED, feed=feed, tier=tier))
    for net in FILE_NETS:
        for pat in pats:
            for s in SPREADS:
                if pat == 'b' and s == 0.0:
                    continue
                out.append(dict(fam='file', net=net, pat=pat, spread=s, tier=tier))
    return out


def _other_spread(s):
    return SPREADS[(SPREADS.index(s) + 1) % len(SPREADS)]


def _file_cases(shard):
    """Networks entered through from_thermdat from files written by the harness."""
    tier, net, pat, spread = shard['tier'], shard['net'], shard['pat'], shard['spread']
    nets = _all_nets()
    names, feeds = nets[net]
    ns = len(names)
    ident = list(range(ns))
    other_net = FILE_NETS[(FILE_NETS.index(net) + 1) % len(FILE_NETS)]
    other_feed = sorted(nets[other_net][1])[0]
    for feed in feeds:
        fb = dict(net=net, pat=pat, spread=spread, feed=feed, scale=1.0, order=ident, prior=None, via='file',
                  layout='exact')
        # F1: a fresh file per case, over P and T
        if tier == 'quick':
            for P in PRESS:
                yield dict(fb, T=DEF_T, P=P)
            for T in TEMPS:
                if T != DEF_T:
                    yield dict(fb, T=T, P=DEF_P)
        else:
            for sc in SCALES:
                for T in TEMPS:
                    for P in PRESS:
                        yield dict(fb, scale=sc, T=T, P=P)
        # F2: records of the file in another order than the network, between records of other species;
        #     network listed in another order than the file
        yield dict(fb, T=DEF_T, P=DEF_P, layout='shuffled+decoys')
        for o in (_orderings(ns)[1:] if tier != 'quick' else [ident[::-1]]):
            yield dict(fb, T=DEF_T, P=DEF_P, order=o)
            yield dict(fb, T=DEF_T, P=DEF_P, order=o, layout='shuffled+decoys')
        # F3: histories - an earlier file (same species with other numbers: A; other species: B) written to
        #     the same path (overwritten) or to another path, read and solved before / after the file judged is read
        A = dict(via='file', net=net, pat=pat, spread=_other_spread(spread), feed=feed, scale=1.0, T=DEF_T, P=DEF_P,
                 layout='exact')
        B = dict(via='file', net=other_net, pat=pat, spread=spread, feed=other_feed, scale=1.0, T=DEF_T, P=DEF_P,
                 layout='exact')
        befores = [[A], [B]] if tier == 'quick' else [[A], [B], [A, B], [B, A], [A, A]]
        for before in befores:
            for path in ('same', 'other'):
                for when in ('before-build', 'after-build'):
                    yield dict(fb, T=DEF_T, P=DEF_P, before=before, path=path, when=when)
        # F4: the object made by from_thermdat used twice
        yield dict(fb, T=500.0, P=DEF_P, prior=[DEF_T, 100.0])
        yield dict(fb, T=DEF_T, P=0.01, prior=[300.0, 100.0], scribble=True)


def _generic_cases(fb, net, pat, spread, feed, feeds):
    """Blocks added to every (network, spread, feed) of the regular family in both tiers."""
    ident = fb['order']
    # integer-typed amounts, T and P
    if all(float(v).is_integer() for v in feeds[feed].values()):
        yield dict(fb, scale=1.0, T=DEF_T, P=DEF_P, num='int')
        yield dict(fb, scale=1.0, T=500.0, P=100.0, num='int')
    # another object (same species, other thermodynamic numbers) built and solved between the
    # construction of the object judged and its call / before its construction
    other = dict(net=net, pat=pat, spread=_other_spread(spread), feed=feed, scale=1.0, T=DEF_T, P=DEF_P)
    yield dict(fb, scale=1.0, T=DEF_T, P=DEF_P, before=[other], when='after-build')
    yield dict(fb, scale=1.0, T=DEF_T, P=DEF_P, before=[other], when='before-build')
    # the caller edits the result of the first call in place, then calls again
    yield dict(fb, scale=1.0, T=500.0, P=DEF_P, prior=[DEF_T, 100.0], scribble=True)
    # the model handed over as a list in another order than the network (reversed, rotated), as a list
    # longer than the network, as a dictionary (same order, reversed, longer); the network dictionary in
    # another order than the model
    for form in MODEL_FORMS:
        if form == 'list:rotated' and len(ident) == 2:
            continue                                 # = reversed
        yield dict(fb, scale=1.0, T=DEF_T, P=DEF_P, model=form)
    for form in MODEL_FORMS_NETWORK_REVERSED:
        yield dict(fb, scale=1.0, T=DEF_T, P=DEF_P, order=ident[::-1], model=form)


def _cases(shard):
    tier = shard['tier']
    net = shard['net']
    if shard.get('fam') == 'file':
        for c in _file_cases(shard):
            yield c
        return
    if net == '(hard points)':
        for c in HARD_POINTS:
            yield dict(c)
        return
    if net == BUNDLED:
        ns = len(BUNDLED_SPECIES)
        ident = list(range(ns))
        feed = shard['feed']
        base = dict(net=net, pat=None, spread=None, feed=feed)
        scales = [1.0] if tier == 'quick' else SCALES
        for T in BUNDLED_T:
            for P in PRESS:
                for sc in scales:
                    yield dict(base, scale=sc, T=T, P=P, order=ident, prior=None)
        ords = _orderings(ns)[1:] if tier != 'quick' else [_orderings(ns)[1], _orderings(ns)[ns]]
        for o in ords:
            yield dict(base, scale=1.0, T=1500.0, P=1.0, order=o, prior=None)
        yield dict(base, scale=1.0, T=1500.0, P=1.0, order=ident, prior=[1300.0, 100.0])
        yield dict(base, scale=1.0, T=1300.0, P=0.01, order=ident, prior=[1500.0, 1.0])
        return
    names, feeds = _nets(tier)[net]
    ns = len(names)
    ident = list(range(ns))
    base = dict(net=net, pat=shard['pat'], spread=shard['spread'])
    for feed in feeds:
        fb = dict(base, feed=feed)
        for c in _generic_cases(dict(fb, order=ident, prior=None), net, shard['pat'], shard['spread'], feed, feeds):
            yield c
        if tier == 'quick':
            # block 1: scale x P at the default temperature
            for sc in SCALES:
                for P in PRESS:
                    yield dict(fb, scale=sc, T=DEF_T, P=P, order=ident, prior=None)
            # block 2: the other temperatures, fresh and on an object already used at (1000 K, 1 atm)
            for T in TEMPS:
                if T != DEF_T:
                    yield dict(fb, scale=1.0, T=T, P=DEF_P, order=ident, prior=None)
                    yield dict(fb, scale=1.0, T=T, P=DEF_P, order=ident, prior=[DEF_T, 100.0])
            yield dict(fb, scale=1.0, T=DEF_T, P=0.01, order=ident, prior=[300.0, 100.0])
            # block 3: every ordering
            for o in _orderings(ns)[1:]:
                yield dict(fb, scale=1.0, T=DEF_T, P=DEF_P, order=o, prior=None)
        else:
            for sc in SCALES:
                for T in TEMPS:
                    for P in PRESS:
                        yield dict(fb, scale=sc, T=T, P=P, order=ident, prior=None)
            for T in TEMPS:
                for P in PRESS:
                    pT = TEMPS[(TEMPS.index(T) + 1) % len(TEMPS)]
                    pP = PRESS[(PRESS.index(P) + 1) % len(PRESS)]
                    yield dict(fb, scale=1.0, T=T, P=P, order=ident, prior=[pT, pP])
            for o in _orderings(ns)[1:]:
                for sc in SCALES:
                    for P in PRESS:
                        yield dict(fb, scale=sc, T=DEF_T, P=P, order=o, prior=None)


def run_shard(shard, ctx):
    n = 0
    for case in _cases(shard):
        ctx.run_case(check_case, case, None)
        if n in (0, 7):
            ctx.sample(case, limit=2)
        n += 1


LEVEL_TEXT = ('Bounded exhaustive enumeration of configurations of the real Equilibrium.get_net_comp (14 networks '
              'of 2-6 species in the quick tier, 17 of 2-12 species in the thorough tier, the bundled 10-species '
              'thermdat, and 7 networks - 4 of them with atom counts of 10-22 - written to thermdat files by the '
              'harness and entered through from_thermdat, alone and after other files were written to the same or '
              'another path; 7 Gibbs-energy spreads; every listed feed, feed scale, temperature, pressure, species '
              'ordering and re-use history of the stated blocks), each judged against an independently certified '
              'global minimiser (element-potential Newton method with a KKT certificate, closed forms for two-species '
              'networks) and against SciPy\'s own success flag observed through a harness-side wrapper.')
LEVEL_NOTE = ('Verdict holds on the stated finite alphabets of networks, Gibbs-energy patterns, feeds, T and P - not on '
              'the continuum. Global optimality is decided through convexity plus the certified reference. Affinities and '
              'amounts are compared for non-trace species (x > 1e-4) only; rarer species are covered through G and the '
              'atom balance. Orderings are complete for <= 4 species, rotations of the listed and reversed order beyond.')
TECHNIQUE = ('deviation-bounded product enumeration on the implementation (full product inside each block), '
             'independent reference solver with KKT certificate, harness-side observation of the SciPy success flag')
