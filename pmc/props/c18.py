"""C18 - identifier ranges (_get_omkm_range) and CTI line wrapping (obj_to_cti) preserve their
contents.

Shape B: bounded exhaustive product enumeration of id collections / token lists on the real
functions; the oracle (pmc/ref/ranges.py) *expands* the produced range notation again and requires
set equality with the input ids as strings, and re-tokenizes the wrapped text.
"""
import copy
import itertools
import re
import sys
import unicodedata

from pmc.ref import ranges as R

ID = 'C18'
RULE = ('(ranges) every subset of the suffix universe up to the stated size for one prefix, in every '
        'ordering (sizes <= 4), with and without a duplicated element, rendered %04d / %d / mixed; pairs '
        'and triples of small subsets over two and three prefixes, concatenated and interleaved; long runs '
        'with gaps up to 60 ids; each as str / objects with .id / objects with .name / objects with both, '
        'format str and list, delimiter _ and -; collections containing one non-encodable id; generated '
        'non-encodable ids: digits with every white-space character (every str.isspace() character, NUL, ZWSP, '
        'BOM, CRLF) after / before / around / inside them, the digits of every non-ASCII Unicode decimal script, '
        'ASCII digits mixed with them, digit-like non-decimal characters, numeric literals, ids that are not '
        'strings, x four prefixes x alone / after a good id / between good ids / two consecutive ones, with '
        'parent_obj omitted, None and an object; unusual prefixes (blanks, tabs, newlines, non-ASCII letters '
        'and digits, digits) that leave the id encodable; ids as numpy strings, str subclasses, tuples and '
        'numpy arrays; the history call - edit the collection in place - call again; (fields) the '
        'reactions= / interactions= / BEP reaction fields written by phases and BEPs; (wrap) token lists '
        '(lengths x token-length patterns, one of them with hyphens / colons / commas inside the tokens, x '
        'container types) x every max_line_len 30..100 x three (thorough: six) line_len x the way the widths '
        'are given (keyword, positional, left to the default of 80); (phase) every phase writer (cantera and '
        'omkm IdealGas / StoichSolid, omkm InteractingInterface) x species count x token-length pattern x '
        'optional fields absent / all present (phases, beps, kinetics, transport, options, note, '
        'initial_state as tuple / list / dict / str) x every max_line_len 40..100 given by keyword, by '
        'position or left to the default, and the histories: same call twice, another width first, another '
        'phase object of another class written in between, species and note edited between two calls. '
        'A case is non-trivial when it has >= 2 ids (a gap, a run, a duplicate or two prefixes) or wraps '
        'onto more than one line (phase: >= 5 species).')
ASSUMPTIONS = ['suffixes, prefixes, renderings, token lengths are taken from the finite alphabets stated in bounds',
               'an item "X to Y" denotes prefix + integers X..Y zero-padded to the width of X (reference reader); '
               'list-form elements may carry their double quotes',
               'an id is encodable when the text after its last delimiter is a non-empty run of ASCII digits; '
               'for other ids an error or a verbatim copy are both accepted, an altered id is not',
               'wrapping: line_len >= 4 (three characters are taken by the opening quotes); a line may exceed its '
               'limit only when it holds a single token',
               'phase writers: a physical line is measured from its first column (indentation and name= count) to '
               'the end of the value on that line; the separator the writer puts after the closing quotes (, or )) '
               'is not measured; elements is a set, its tokens are compared without order']
EXPLANATION = ('bounded exhaustive enumeration over the real _get_omkm_range / obj_to_cti and the phase / BEP '
               'writers that call them; oracle = independent expansion of the range notation')

PREFIXES = ['r', 'rxn_a', '', '<empty+delimiter>', 'i']
UNIVERSE = [0, 1, 2, 3, 5, 9, 10, 11, 999, 1000, 99999]
U_SMALL = [0, 1, 2, 9, 10, 1000]
U_TINY = [1, 2, 10]
RENDER = ['%04d', '%d', 'mixed']
KINDS = ['str', 'id', 'name', 'both']
FORMS = ['str', 'list']
DELIMS = ['_', '-']
BAD = ['abc', 'r{d}x1', 'r{d}1.5', 'r{d}', 'r{d}-5', 'r{d}+5', 'r{d} 5', 'r{d}1{o}0']
# generated family of non-encodable ids (part range, key 'badx'): a footer that int() would take but that is not a
# plain run of ASCII digits - a white-space character of every kind before / after / around / inside the digits,
# the digits of every Unicode decimal script, ASCII digits mixed with them, digit-like characters that are not
# decimal digits - and ids that are not strings at all
BADX_CLASSES = ['ws-trailing', 'ws-leading', 'ws-both', 'ws-inside', 'digit-nonascii', 'digit-mixed',
                'digit-nondecimal', 'ascii-literal', 'non-str']
BADX_PREFIXES = ['r{d}', '', '{d}', 'a{d}b{d}']
BADX_CONTEXTS = ['alone', 'after-good', 'between-good', 'consecutive-pair']
INVISIBLE = ['\x00', '\u200b', '\ufeff', '\r\n', ' \t']           # not str.isspace() singles: NUL, ZWSP, BOM; CRLF; two blanks
NONDECIMAL = ['\u00b2', '\u00b9\u00b2', '\u2460', '\u2167', '\u00bd', '\u4e94', '\u3007', '1\u00b2', '\u2081\u2082']
ASCII_LITERAL = ['1e3', '0x10', '0b1', '1_000', '+12', '1.0', '12L', '1,2', '(12)', '#12']
NONSTR = [5, 7.0, None, True, b'r_0001', ['r_0001']]
# prefixes that are unusual but leave the id encodable (footer = ASCII digits): kept exactly as given
ODD_PREFIXES = [' r', 'r ', '\tr', 'r\n', '\nr', 'r\u00a0', '\u00e9', 'r\u0661', '\uff11\uff12', 'r.5', 'R+', '0', '007',
                'r 1']
KINDS_X = ['npstr', 'strsub', 'tuple', 'nparray', 'id-tuple']

TOK_COUNTS = [0, 1, 2, 5, 20, 80]
TOK_PATTERNS = ['all1', 'all30', 'alt', 'asc', 'one120', 'punct']
WRAP_HOW = ['kw', 'pos', 'omit-max', 'omit-line', 'omit-both']
CONTAINERS = ['list', 'tuple', 'set', 'dict', 'str']

PLANNED_TAGS = ['ids:empty', 'ids:single', 'ids:run', 'ids:gap', 'ids:duplicate', 'ids:unsorted',
                'ids:two-prefixes', 'ids:three-prefixes', 'ids:interleaved', 'ids:long-run',
                'prefix:empty', 'prefix:empty+delimiter', 'prefix:contains-delimiter',
                'render:%04d', 'render:%d', 'render:mixed', 'suffix:>9999',
                'kind:str', 'kind:id', 'kind:name', 'kind:both', 'form:str', 'form:list',
                'delim:_', 'delim:-', 'bad:rejected',
                'badx:ws-trailing', 'badx:ws-leading', 'badx:ws-both', 'badx:ws-inside', 'badx:digit-nonascii',
                'badx:digit-mixed', 'badx:digit-nondecimal', 'badx:ascii-literal', 'badx:non-str',
                'badx-context:alone', 'badx-context:after-good', 'badx-context:between-good',
                'badx-context:consecutive-pair', 'badx-prefix:none', 'badx-prefix:delimiter-only',
                'badx-parent:omitted', 'badx-parent:None', 'badx-parent:object',
                'prefix:odd', 'kind:npstr', 'kind:strsub', 'kind:tuple', 'kind:nparray', 'kind:id-tuple',
                'hist:edited-in-place',
                'field:phase-reactions', 'field:interface-interactions', 'field:bep-cti', 'field:bep-yaml',
                'field:idealgas-reactions',
                'wrap:single-line', 'wrap:multi-line', 'wrap:long-token', 'wrap:empty',
                'wrap:list', 'wrap:tuple', 'wrap:set', 'wrap:dict', 'wrap:str',
                'wrap-how:kw', 'wrap-how:pos', 'wrap-how:omit-max', 'wrap-how:omit-line', 'wrap-how:omit-both',
                'phase:cantera.IdealGas', 'phase:cantera.StoichSolid', 'phase:omkm.IdealGas',
                'phase:omkm.StoichSolid', 'phase:omkm.InteractingInterface',
                'phase-how:kw', 'phase-how:pos', 'phase-how:default',
                'phase-hist:single', 'phase-hist:repeat', 'phase-hist:other-width-first',
                'phase-hist:two-objects', 'phase-hist:edited',
                'phase-width:<80', 'phase-width:80', 'phase-width:>80', 'phase:single-token-over-width',
                'phase-wrapped:name', 'phase-wrapped:elements', 'phase-wrapped:species', 'phase-wrapped:phases',
                'phase-wrapped:beps', 'phase-wrapped:transport', 'phase-wrapped:options', 'phase-wrapped:note',
                'phase-wrapped:initial_state']


def _tierp(tier):
    q = tier == 'quick'
    return dict(max_subset=4 if q else 6, small=U_SMALL[:5] if q else U_SMALL, tiny=U_TINY)


def bounds(tier):
    p = _tierp(tier)
    return dict(prefixes=PREFIXES, suffix_universe=UNIVERSE, max_subset_one_prefix=p['max_subset'],
                orderings='all for sizes <= 4 (others: sorted, reversed, one rotation)',
                two_prefix_universe=p['small'], three_prefix_universe=p['tiny'], renderings=RENDER,
                item_kinds=KINDS, forms=FORMS, delimiters=DELIMS, non_encodable=BAD,
                non_encodable_generated=dict(
                    classes=BADX_CLASSES, prefixes=BADX_PREFIXES, contexts=BADX_CONTEXTS,
                    white_space='every character with str.isspace() (%d) + NUL, ZWSP, BOM, CRLF, blank+tab' % len(_ws_chars()),
                    digit_scripts='every non-ASCII Unicode decimal-digit script (%d)' % len(_digit_zeros()),
                    non_decimal=[ascii(x) for x in NONDECIMAL], ascii_literals=ASCII_LITERAL,
                    non_str=[repr(x) for x in NONSTR]),
                odd_prefixes=[ascii(x) for x in ODD_PREFIXES], item_kinds_extra=KINDS_X,
                long_runs='starts 0,5,95,995,9995,99940 x lengths 5,20,60 x every k-th removed (none,2,3,7)',
                token_counts=TOK_COUNTS, token_patterns=TOK_PATTERNS, containers=CONTAINERS,
                max_line_len='30..100',
                line_len='max, max-15, max-31 (>= 4)' if tier == 'quick' else 'max, max-1, -15, -18, -29, -31 (>= 4)',
                widths_given=WRAP_HOW, phase_classes=PHASE_CLS, phase_species_counts=PHASE_COUNTS,
                phase_optional_fields=PHASE_EXTRAS, phase_max_line_len='40..100', phase_width_given=PHASE_HOW,
                phase_histories=PHASE_HIST,
                phase_history_widths='multiples of 5, 72, 79, 81' if tier == 'quick' else '40..100')


# ------------------------------------------------------------------------------ id building
class _WithId:
    def __init__(self, id):
        self.id = id


class _WithName:
    def __init__(self, name):
        self.name = name


class _WithBoth:
    def __init__(self, id):
        self.id = id
        self.name = 'name_of_%s' % (id,)


def _prefix_literal(prefix, delim):
    if prefix == '':
        return ''
    if prefix == '<empty+delimiter>':
        return delim
    return prefix.replace('_', delim) + delim


def _render(n, render, pos):
    if render == 'mixed':
        render = '%04d' if pos % 2 == 0 else '%d'
    return render % n


def _ids(spec, delim):
    """spec = list of [prefix, suffix, render] -> id strings"""
    return [_prefix_literal(pfx, delim) + _render(n, rnd, k) for k, (pfx, n, rnd) in enumerate(spec)]


class _Str(str):
    pass


def _objs(ids, kind):
    if kind == 'str':
        return list(ids)
    if kind == 'npstr':
        import numpy as np
        return [np.str_(i) for i in ids]
    if kind == 'strsub':
        return [_Str(i) for i in ids]
    if kind == 'tuple':
        return tuple(ids)
    if kind == 'nparray':
        import numpy as np
        return np.array(list(ids), dtype=str) if len(ids) else np.array([], dtype=str)
    if kind == 'id-tuple':
        return tuple(_WithId(i) for i in ids)
    cls = dict(id=_WithId, name=_WithName, both=_WithBoth)[kind]
    return [cls(i) for i in ids]


_UNI = {}


def _ws_chars():
    if 'ws' not in _UNI:
        _UNI['ws'] = [chr(c) for c in range(sys.maxunicode + 1) if chr(c).isspace()]
    return _UNI['ws']


def _digit_zeros():
    """The zero of every non-ASCII decimal-digit script of this interpreter's Unicode database."""
    if 'z' not in _UNI:
        zs = [c for c in range(128, sys.maxunicode + 1) if unicodedata.decimal(chr(c), None) == 0]
        _UNI['z'] = [chr(c) for c in zs
                     if [unicodedata.decimal(chr(c + k), None) for k in range(10)] == list(range(10))]
    return _UNI['z']


def _badx_footer(cls, ch, n, w):
    """The footer of a generated non-encodable id: class, character (or literal), number, digit width."""
    body = '%0*d' % (w, n)
    if cls == 'ws-trailing':
        return body + ch
    if cls == 'ws-leading':
        return ch + body
    if cls == 'ws-both':
        return ch + body + ch
    if cls == 'ws-inside':
        return body[:-1] + ch + body[-1:] if len(body) > 1 else ch.join(['0', body])
    if cls == 'digit-nonascii':
        return ''.join(chr(ord(ch) + int(d)) for d in body)
    if cls == 'digit-mixed':
        return body[:-1] + chr(ord(ch) + int(body[-1])) if len(body) > 1 else chr(ord(ch) + int(body)) + '0'
    if cls in ('digit-nondecimal', 'ascii-literal'):
        return ch
    raise ValueError(cls)


def _badx_specs():
    """(class, character / literal / index, number, width) of every generated non-encodable footer."""
    out = []
    for ch in _ws_chars() + INVISIBLE:
        for cls in ('ws-trailing', 'ws-leading'):
            out.append((cls, ch, 7, 4))
            out.append((cls, ch, 5, 1))
        out.append(('ws-both', ch, 7, 4))
        out.append(('ws-inside', ch, 7, 4))
    for z in _digit_zeros():
        out.append(('digit-nonascii', z, 12, 2))
        out.append(('digit-nonascii', z, 7, 4))
        out.append(('digit-mixed', z, 5, 4))
        out.append(('digit-mixed', z, 1, 1))
    for lit in NONDECIMAL:
        out.append(('digit-nondecimal', lit, 0, 0))
    for lit in ASCII_LITERAL:
        out.append(('ascii-literal', lit, 0, 0))
    return out


def _badx_ids(bx, delim):
    """(ids of the collection, positions of the non-encodable ones)."""
    pre = bx['prefix'].replace('{d}', delim)
    if bx['cls'] == 'non-str':
        bad = [NONSTR[bx['ch']]]
        if isinstance(bad[0], list):
            bad = [list(bad[0])]
    else:
        bad = [pre + _badx_footer(bx['cls'], bx['ch'], bx['n'], bx['w'])]
        if bx['context'] == 'consecutive-pair':
            bad.append(pre + _badx_footer(bx['cls'], bx['ch'], bx['n'] + 1, bx['w']))
    g1, g2 = 'r' + delim + '0001', 'r' + delim + '0002'
    c = bx['context']
    if c in ('alone', 'consecutive-pair'):
        return bad
    if c == 'after-good':
        return [g1] + bad
    if c == 'between-good':
        return [g1] + bad + [g2]
    raise ValueError(c)


# ------------------------------------------------------------------------------ (ranges)
def _orderings(sub):
    n = len(sub)
    if n <= 4:
        return [list(p) for p in itertools.permutations(sub)]
    return [list(sub), list(reversed(sub)), list(sub[2:]) + list(sub[:2])]


def _one_prefix_lists(tier):
    """(suffix list, sorted?) for one prefix."""
    p = _tierp(tier)
    for size in range(0, p['max_subset'] + 1):
        for sub in itertools.combinations(UNIVERSE, size):
            for o, order in enumerate(_orderings(sub)):
                yield order, o == 0
                if order:
                    yield order + [order[0]], o == 0          # duplicate of one element


def _range_cases(tier):
    p = _tierp(tier)
    rot = 0
    full = [(k, f, d) for k in KINDS for f in FORMS for d in DELIMS]
    # one prefix
    for order, is_sorted in _one_prefix_lists(tier):
        for pfx in PREFIXES:
            for rnd in RENDER:
                if rnd == 'mixed' and len(order) < 2:
                    continue
                spec = [[pfx, n, rnd] for n in order]
                if is_sorted:
                    combos = full
                else:
                    combos = [full[rot % len(full)]]
                    rot += 1
                for k, f, d in combos:
                    yield dict(part='range', spec=spec, kind=k, form=f, delim=d, bad=None)
    # two prefixes
    subs = [s for n in (1, 2) for s in itertools.combinations(p['small'], n)]
    rnds = [('%04d', '%04d'), ('%d', '%d'), ('%04d', '%d'), ('%d', '%04d')]
    for pa, pb in itertools.permutations(PREFIXES, 2):
        for sa in subs:
            for sb in subs:
                for ra, rb in rnds:
                    a = [[pa, n, ra] for n in sa]
                    b = [[pb, n, rb] for n in sb]
                    inter = [x for pair in itertools.zip_longest(a, b) for x in pair if x is not None]
                    for spec in (a + b, inter):
                        k, f, d = full[rot % len(full)]
                        rot += 1
                        yield dict(part='range', spec=spec, kind=k, form=f, delim=d, bad=None)
    # three prefixes
    subs = [s for n in (1, 2) for s in itertools.combinations(p['tiny'], n)]
    for pa, pb, pc in itertools.permutations(PREFIXES, 3):
        for sa in subs:
            for sb in subs:
                for sc in subs:
                    rnd = RENDER[rot % 2]
                    a = [[pa, n, rnd] for n in sa]
                    b = [[pb, n, rnd] for n in sb]
                    c = [[pc, n, rnd] for n in sc]
                    inter = [x for tr in itertools.zip_longest(a, b, c) for x in tr if x is not None]
                    for spec in (a + b + c, inter):
                        k, f, d = full[rot % len(full)]
                        rot += 1
                        yield dict(part='range', spec=spec, kind=k, form=f, delim=d, bad=None)
    # long runs
    for start in (0, 5, 95, 995, 9995, 99940):
        for length in (5, 20, 60):
            for drop in (0, 2, 3, 7):
                ns = [start + j for j in range(length) if not (drop and j % drop == drop - 1)]
                for pfx in PREFIXES:
                    for rnd in RENDER:
                        for k, f, d in full:
                            yield dict(part='range', spec=[[pfx, n, rnd] for n in ns], kind=k, form=f, delim=d,
                                       bad=None, long=True)
    # one non-encodable id among encodable ones
    for bi, bad in enumerate(BAD):
        for pos in (0, 1, 2):
            for good in ([], [1], [1, 2]):
                if pos > len(good):
                    continue
                for k, f, d in full:
                    yield dict(part='range', spec=[['r', n, '%04d'] for n in good], kind=k, form=f, delim=d,
                               bad=[bi, pos])
    # generated non-encodable ids: every footer x prefix x context; prefix r<d> takes every (kind, form, delimiter),
    # the other prefixes four of them in rotation; parent_obj omitted / None / an object in rotation
    for fi, (cls, ch, n, w) in enumerate(_badx_specs()):
        for pi, pre in enumerate(BADX_PREFIXES):
            for ci, context in enumerate(BADX_CONTEXTS):
                if pi == 0:
                    combos = full
                else:
                    combos = [full[(rot + 5 * j) % len(full)] for j in range(4)]
                    rot += 1
                for j, (k, f, d) in enumerate(combos):
                    yield dict(part='range', spec=[], kind=k, form=f, delim=d, bad=None,
                               badx=dict(cls=cls, ch=ch, n=n, w=w, prefix=pre, context=context,
                                         parent=(fi + pi + ci + j) % 3))
    # ids that are not strings
    for ni in range(len(NONSTR)):
        for context in ('alone', 'after-good', 'between-good'):
            for k in ('str', 'id', 'name', 'both', 'tuple'):
                for f in FORMS:
                    yield dict(part='range', spec=[], kind=k, form=f, delim='_', bad=None,
                               badx=dict(cls='non-str', ch=ni, n=0, w=0, prefix='', context=context,
                                         parent=(ni + len(k)) % 3))
    # unusual prefixes that leave the id encodable
    shapes = [[7], [7, 8, 9], [1, 3], [9, 10, 11, 10], [2, 1]]
    for pfx in ODD_PREFIXES:
        for ns in shapes:
            for rnd in RENDER:
                if rnd == 'mixed' and len(ns) < 2:
                    continue
                for k, f, d in full:
                    yield dict(part='range', spec=[[pfx, n, rnd] for n in ns], kind=k, form=f, delim=d, bad=None)
    # other containers / string types: str subclasses, numpy strings, tuples, numpy arrays
    for size in range(0, 4):
        for sub in itertools.combinations(UNIVERSE[:7], size):
            for order in ([list(sub)] if size < 2 else [list(sub), list(reversed(sub)), list(sub) + [sub[0]]]):
                for pfx in PREFIXES:
                    for rnd in ('%04d', '%d'):
                        for k in KINDS_X:
                            f, d = FORMS[rot % 2], DELIMS[(rot // 2) % 2]
                            rot += 1
                            yield dict(part='range', spec=[[pfx, n, rnd] for n in order], kind=k, form=f, delim=d,
                                       bad=None)


def _case_ids(case):
    d = case['delim']
    ids = _ids(case['spec'], d)
    if case.get('bad'):
        bi, pos = case['bad']
        other = '-' if d == '_' else '_'
        ids.insert(pos, BAD[bi].replace('{d}', d).replace('{o}', other))
    if case.get('badx'):
        ids = _badx_ids(case['badx'], d)
    return ids


def _range_sig(case):
    spec = case['spec']
    if case.get('bad'):
        return dict(part='range', bad=BAD[case['bad'][0]])
    if case.get('badx'):
        return dict(part='range', bad=case['badx']['cls'], form=case['form'])
    pf = sorted({s[0] for s in spec})
    rn = sorted({s[2] for s in spec})
    sig = dict(part='range', form=case['form'],
               render=rn[0] if len(rn) == 1 else ('mixed' if rn else 'none'),
               empty_prefix=('' in pf or '<empty+delimiter>' in pf),
               bad='no', n='0' if not spec else ('1' if len(spec) == 1 else 'many'))
    if any(x in ODD_PREFIXES for x in pf):
        sig['prefix'] = 'odd'
    if case['kind'] in KINDS_X:
        sig['kind'] = case['kind']
    return sig


class _Parent:
    pass


def _id_of(o):
    if isinstance(o, str):
        return str(o)
    if hasattr(o, 'id'):
        return o.id
    if hasattr(o, 'name'):
        return o.name
    return o


def _range_eval(case, ctx):
    from pmutt.cantera import _get_omkm_range
    sig = _range_sig(case)
    d = case['delim']
    ids = _case_ids(case)
    objs = _objs(ids, case['kind'])
    all_ok = all(isinstance(i, str) and R.encodable(i, d) for i in ids)
    ctx.trace()
    ctx.trans()
    held = list(objs)
    kw = dict(objs=objs, delimiter=d, format=case['form'])
    parent = (case.get('badx') or {}).get('parent', 0)
    if parent == 1:
        kw['parent_obj'] = None
    elif parent == 2:
        kw['parent_obj'] = _Parent()
    try:
        out = _get_omkm_range(**kw)
    except (ValueError, TypeError) as e:
        ctx.evals()
        ctx.true('encodable ids are not rejected', not all_ok, sig, case,
                 '%s: %s' % (type(e).__name__, re.sub(r' at 0x[0-9a-f]+', '', str(e))[:160]), 'range notation')
        if not all_ok:
            ctx.tag('bad:rejected')
        return
    ctx.evals()
    try:
        got = R.expand(out, case['form'])
    except R.Malformed as e:
        ctx.fail('output is well-formed range notation of the requested form', sig, case,
                 '%r (%s)' % (out if isinstance(out, str) else list(out)[:6], e), 'well-formed')
        return
    clause = ('expanded range notation denotes exactly the input ids (none lost, added or renamed)' if all_ok else
              'an id that cannot be encoded is rejected or kept verbatim, never altered')
    if all(isinstance(i, str) for i in ids):
        ctx.equal(clause, sorted(set(got)), sorted(set(str(i) for i in ids)), sig, case)
    else:
        # an id that is not a string cannot be written at all
        ctx.fail(clause, sig, case, repr(out)[:120], 'TypeError / ValueError')
    # the caller's collection is left alone: same objects in the same order, carrying the same ids
    now = [_id_of(o) for o in objs]
    if case['kind'] == 'nparray':
        same = all(a == b for a, b in zip(objs, held))         # a numpy array hands out new scalars every time
    else:
        same = all(a is b for a, b in zip(objs, held))
    ctx.true('the collection given to the range function is left unchanged',
             len(objs) == len(held) and same and now == ids, sig, case, None if now == ids else now[:8], ids[:8])
    small = len(ids) <= 3 or case.get('long')
    if case['form'] == 'list' and isinstance(out, list) and small:
        # the list handed out is the caller's: emptying it must not change what the next call reports
        first = list(out)
        out.clear()
        out.append('"zz_0000"')
        ctx.trace()
        again = _get_omkm_range(objs=objs, delimiter=d, format='list')
        ctx.true('the list handed out is fresh (editing it does not change the next answer)', again == first,
                 sig, case, None if again == first else repr(again)[:120], first[:6])
    if all_ok and small and isinstance(objs, list):
        # history: the caller edits the same collection in place (renames its first member, appends two members
        # that continue a run) and gives it again - the answer is the one for the new content
        ctx.tag('hist:edited-in-place')
        new_ids = list(ids)
        extra = ['zz' + d + '0041', 'zz' + d + '0042']
        if objs:
            first_new = 'zz' + d + '0043'
            o = objs[0]
            if isinstance(o, str):
                objs[0] = type(o)(first_new)
            elif hasattr(o, 'id'):
                o.id = first_new
            else:
                o.name = first_new
            new_ids[0] = first_new
        mk = _objs(extra, case['kind'])
        objs.extend(mk)
        new_ids += extra
        ctx.trace()
        ctx.trans()
        out2 = _get_omkm_range(objs=objs, delimiter=d, format=case['form'])
        hsig = dict(sig, history='call, edit the collection in place, call again')
        try:
            got2 = R.expand(out2, case['form'])
        except R.Malformed as e:
            ctx.fail('output is well-formed range notation of the requested form', hsig, case, '%r (%s)' % (out2, e),
                     'well-formed')
            return
        ctx.equal('a collection edited in place and given again is written with its new content',
                  sorted(set(got2)), sorted(set(new_ids)), hsig, case)


def _range_tags(case, ctx):
    spec = case['spec']
    ns = [s[1] for s in spec]
    pf = {s[0] for s in spec}
    if not spec:
        ctx.tag('ids:empty')
    if len(spec) == 1:
        ctx.tag('ids:single')
    if len(pf) == 1 and len(ns) >= 2:
        srt = sorted(set(ns))
        if any(b - a == 1 for a, b in zip(srt, srt[1:])):
            ctx.tag('ids:run')
        if any(b - a > 1 for a, b in zip(srt, srt[1:])):
            ctx.tag('ids:gap')
        if len(set(ns)) < len(ns):
            ctx.tag('ids:duplicate')
        if ns != sorted(ns):
            ctx.tag('ids:unsorted')
    if len(pf) == 2:
        ctx.tag('ids:two-prefixes')
    if len(pf) == 3:
        ctx.tag('ids:three-prefixes')
    seq = [k for k, _ in itertools.groupby(s[0] for s in spec)]
    if len(seq) > len(set(seq)):
        ctx.tag('ids:interleaved')
    if case.get('long'):
        ctx.tag('ids:long-run')
    if '' in pf:
        ctx.tag('prefix:empty')
    if '<empty+delimiter>' in pf:
        ctx.tag('prefix:empty+delimiter')
    if 'rxn_a' in pf:
        ctx.tag('prefix:contains-delimiter')
    rn = {s[2] for s in spec}
    for r in rn:
        ctx.tag('render:' + r)
    if any(n > 9999 for n in ns):
        ctx.tag('suffix:>9999')
    ctx.tag('kind:' + case['kind'])
    ctx.tag('form:' + case['form'])
    ctx.tag('delim:' + case['delim'])
    if any(x in ODD_PREFIXES for x in pf):
        ctx.tag('prefix:odd')
    bx = case.get('badx')
    if bx:
        ctx.tag('badx:' + bx['cls'])
        ctx.tag('badx-context:' + bx['context'])
        if bx['prefix'] == '' and bx['cls'] != 'non-str':
            ctx.tag('badx-prefix:none')
        if bx['prefix'] == '{d}':
            ctx.tag('badx-prefix:delimiter-only')
        ctx.tag('badx-parent:' + ('omitted', 'None', 'object')[bx['parent']])
        return bx['context'] != 'alone'
    return len(spec) >= 2


def _range_run(shard, ctx):
    for i, case in enumerate(_range_cases(shard['tier'])):
        if i % shard['n'] != shard['k']:
            continue
        key = repr((case['spec'], case['kind'], case['form'], case['delim'], case.get('bad'),
                    sorted((case.get('badx') or {}).items())))
        ctx.state(key)
        if _range_tags(case, ctx):
            ctx.nontrivial(key)
        if i % 30011 == 0:
            ctx.sample(case, limit=1)
        ctx.run_case(_range_eval, case, _range_sig(case))


# ------------------------------------------------------------------------------ (fields)
def _field_species():
    """Fresh species for every case: phases write themselves into species.phase (and IdealGas drops
    reactions whose species carry another phase), which is C07's subject, not this one's."""
    from pmutt.statmech import StatMech
    sp = [StatMech(name='H2', elements={'H': 2}), StatMech(name='H(S)', elements={'H': 1, 'Pt': 1})]
    for x in sp:
        x.phase = None
    return sp


def _field_cases(tier):
    p = _tierp(tier)
    for size in range(0, 4):
        for sub in itertools.combinations(UNIVERSE, size):
            for order in ([list(sub)] if size < 2 else [list(sub), list(reversed(sub))]):
                for pfx in ('r', '', 'rxn_a'):
                    for rnd in ('%04d', '%d'):
                        for kind in ('str', 'id'):
                            for d in DELIMS:
                                for where in ('phase-reactions', 'interface-interactions', 'bep-cti', 'bep-yaml',
                                              'idealgas-reactions'):
                                    if where == 'bep-yaml' and d == '-':
                                        continue              # to_omkm_yaml has no delimiter argument
                                    if where in ('interface-interactions',) and kind == 'id':
                                        kind_ = 'name'
                                    else:
                                        kind_ = kind
                                    yield dict(part='field', where=where, spec=[[pfx, n, rnd] for n in order],
                                               kind=kind_, delim=d, width=80 if size % 2 else 60)


def _field_sig(case):
    rn = sorted({s[2] for s in case['spec']})
    return dict(part='field', field=case['where'], render=rn[0] if rn else 'none',
                n='0' if not case['spec'] else ('1' if len(case['spec']) == 1 else 'many'))


def _extract(text, field):
    m = re.search(r'\b%s=(\[[^\]]*\])' % re.escape(field), text)
    return None if m is None else m.group(1)


def _field_eval(case, ctx):
    sig = _field_sig(case)
    d = case['delim']
    ids = _ids(case['spec'], d)
    where = case['where']
    sp = _field_species()
    ctx.trace()
    ctx.trans()
    outs = []           # (text or list, form)
    if where == 'idealgas-reactions':
        from pmutt.cantera.phase import IdealGas
        from pmutt.omkm.reaction import SurfaceReaction
        rx = [SurfaceReaction(id=i, reactants=[sp[0]], reactants_stoich=[1.], products=[sp[0]],
                              products_stoich=[1.], A=1., beta=0., Ea=0.) for i in ids]
        ph = IdealGas(name='gas', species=[sp[0]], reactions=rx)
        text = ph.to_cti(max_line_len=case['width'], delimiter=d)
        outs.append((_extract(text, 'reactions'), 'str', ids))
    elif where in ('phase-reactions', 'interface-interactions'):
        from pmutt.omkm.phase import InteractingInterface
        objs = _objs(ids, case['kind'])
        kw = dict(reactions=objs) if where == 'phase-reactions' else dict(interactions=objs)
        ph = InteractingInterface(name='surf', species=[sp[1]], site_density=1.e-9, phases=['gas'], **kw)
        text = ph.to_cti(max_line_len=case['width'], delimiter=d)
        outs.append((_extract(text, 'reactions' if where == 'phase-reactions' else 'interactions'), 'str', ids))
    else:
        from pmutt.omkm.reaction import BEP
        objs = _objs(ids, case['kind'])
        half = len(objs) // 2
        bep = BEP(slope=0.5, intercept=20., name='bep1', direction='cleavage', synthesis_reactions=objs[:half],
                  cleavage_reactions=objs[half:])
        if where == 'bep-cti':
            text = bep.to_cti(act_energy_unit='kcal/mol', delimiter=d)
            outs.append((_extract(text, 'synthesis_reactions'), 'str', ids[:half]))
            outs.append((_extract(text, 'cleavage_reactions'), 'str', ids[half:]))
        else:
            from pmutt.omkm.units import Units
            y = bep.to_omkm_yaml(units=Units())
            outs.append((y.get('synthesis-reactions', []), 'list', ids[:half]))
            outs.append((y.get('cleavage-reactions', []), 'list', ids[half:]))
    ctx.evals()
    for out, form, exp in outs:
        if out is None:
            ctx.fail('written field is present', sig, case, 'field not found', 'a [..] list')
            continue
        try:
            got = R.expand(out, form)
        except R.Malformed as e:
            ctx.fail('written field is well-formed range notation', sig, case, '%r (%s)' % (out, e), 'well-formed')
            continue
        ctx.equal('written reactions=/interactions= field denotes exactly the member ids', sorted(set(got)),
                  sorted(set(exp)), sig, case)


def _field_run(shard, ctx):
    for i, case in enumerate(_field_cases(shard['tier'])):
        if i % shard['n'] != shard['k']:
            continue
        key = repr(sorted(case.items()))
        ctx.state(key)
        if len(case['spec']) >= 2:
            ctx.nontrivial(key)
        ctx.tag('field:' + case['where'])
        if i % 5003 == 0:
            ctx.sample(case, limit=1)
        ctx.run_case(_field_eval, case, _field_sig(case))


# ------------------------------------------------------------------------------ (wrap)
_ALPH = 'abcdefghijklmnopqrstuvwxyzABCDEFGHIJKLMNOPQRSTUVWXYZ0123456789_()*'


def _token(i, length):
    """A token of exactly `length` characters whose first two characters encode its index (so that
    order is observable)."""
    n = len(_ALPH)
    return ''.join(_ALPH[(i // n ** j + 11 * j) % n] if j < 2 else _ALPH[(i * 7 + j) % n] for j in range(length))


def _tok_lengths(n, pattern):
    if pattern == 'all1':
        return [1] * n
    if pattern == 'all30':
        return [30] * n
    if pattern == 'alt':
        return [1 if j % 2 == 0 else 30 for j in range(n)]
    if pattern == 'asc':
        return [1 + (j % 30) for j in range(n)]
    if pattern == 'one120':
        return [120 if j == n // 2 else 1 + (j * 5) % 30 for j in range(n)]
    raise ValueError(pattern)


_PUNCT = "-:,./=+[];'&%<>|"


def _tokens(n, pattern, salt=0):
    """n tokens of the pattern; `salt` shifts the index code so that two fields of one object differ."""
    if pattern == 'punct':
        # 5..30 characters with a hyphen / colon / comma / ... in the middle (never a blank or a quote)
        out = []
        for j in range(n):
            L = 5 + (j * 7) % 26
            t = _token(j + salt, L)
            out.append(t[:L // 2] + _PUNCT[j % len(_PUNCT)] + t[L // 2 + 1:])
        return out
    return [_token(j + salt, L) for j, L in enumerate(_tok_lengths(n, pattern))]


def _wrap_obj(tokens, container):
    """Returns (object to give obj_to_cti, tokens expected in order)."""
    if container == 'list':
        return list(tokens), list(tokens)
    if container == 'tuple':
        return tuple(tokens), list(tokens)
    if container == 'str':
        return ' '.join(tokens), list(tokens)
    if container == 'set':
        s = set(tokens)
        return s, list(s)                      # iteration order of this very set object
    if container == 'dict':
        dd = {}
        for j, t in enumerate(tokens):
            if len(t) >= 4:
                cut = max(2, len(t) // 2)
                dd[t[:cut]] = t[cut + 1:]
            else:
                dd[_token(j, 2)] = ''
        return dd, ['%s:%s' % (k, v) for k, v in dd.items()]
    raise ValueError(container)


def _wrap_order(obj):
    """The tokens of the object in its present order."""
    if isinstance(obj, str):
        return obj.split()
    if isinstance(obj, dict):
        return ['%s:%s' % kv for kv in obj.items()]
    return list(obj)


def _wrap_cases(tier):
    for n in TOK_COUNTS:
        for pat in TOK_PATTERNS:
            if n == 0 and pat != 'all1':
                continue
            for cont in CONTAINERS:
                for mx in range(30, 101):
                    for off in ((0, 15, 31) if tier == 'quick' else (0, 1, 15, 18, 29, 31)):
                        if mx - off < 4:
                            continue
                        for how in WRAP_HOW:
                            # the widths are given by keyword, by position, or left to their default of 80
                            if (how in ('omit-max', 'omit-both') and mx != 80) or \
                                    (how in ('omit-line', 'omit-both') and mx - off != 80):
                                continue
                            yield dict(part='wrap', n=n, pattern=pat, container=cont, max_line_len=mx,
                                       line_len=mx - off, how=how)


def _wrap_sig(case):
    return dict(part='wrap', container=case['container'], pattern=case['pattern'],
                n='0' if case['n'] == 0 else ('1' if case['n'] == 1 else 'many'), first=case['line_len'] == case['max_line_len'],
                how=case.get('how', 'kw'))


def _wrap_eval(case, ctx):
    from pmutt.io.cantera import obj_to_cti
    sig = _wrap_sig(case)
    obj, exp = _wrap_obj(_tokens(case['n'], case['pattern']), case['container'])
    ll, mx = case['line_len'], case['max_line_len']
    before = copy.deepcopy(obj)
    how = case.get('how', 'kw')
    call = {'kw': lambda: obj_to_cti(obj, line_len=ll, max_line_len=mx),
            'pos': lambda: obj_to_cti(obj, ll, mx),
            'omit-max': lambda: obj_to_cti(obj, line_len=ll),
            'omit-line': lambda: obj_to_cti(obj, max_line_len=mx),
            'omit-both': lambda: obj_to_cti(obj)}[how]
    text = call()
    ctx.tag('wrap-how:' + how)
    ctx.true('obj_to_cti leaves the value it is given unchanged', obj == before and _wrap_order(obj) == exp,
             sig, case, repr(obj)[:120], repr(before)[:120])
    ctx.true('obj_to_cti called again with the same arguments gives the same text', call() == text, sig, case,
             None, text[:120])
    ctx.trace()
    ctx.trans()
    ctx.evals()
    try:
        got = R.cti_tokens(text)
    except R.Malformed as e:
        ctx.fail('wrapped value is a quoted CTI string', sig, case, '%r (%s)' % (text[:80], e), 'quoted string')
        return
    ctx.equal('wrapping preserves every token in order', got, exp, sig, case)
    lines = text.split('\n')
    ctx.tag('wrap:multi-line' if len(lines) > 1 else 'wrap:single-line')
    worst = None
    for j, line in enumerate(lines):
        limit = ll if j == 0 else mx
        if len(line) > limit and R.line_tokens(line) > 1:
            worst = (j, len(line), limit, line[:120])
            break
    ctx.true('no line exceeds its width unless it holds a single token', worst is None, sig, case, worst,
             'first line <= line_len, others <= max_line_len')
    ctx.outcome('no line exceeds its width unless it holds a single token', (len(lines), max(len(x) for x in lines)))


def _wrap_run(shard, ctx):
    for i, case in enumerate(_wrap_cases(shard['tier'])):
        if i % shard['n'] != shard['k']:
            continue
        key = repr(sorted(case.items()))
        ctx.state(key)
        if case['n'] >= 2:
            ctx.nontrivial(key)
        ctx.tag('wrap:' + case['container'])
        if case['n'] == 0:
            ctx.tag('wrap:empty')
        if case['pattern'] == 'one120' and case['n']:
            ctx.tag('wrap:long-token')
        if i % 7001 == 0:
            ctx.sample(case, limit=1)
        ctx.run_case(_wrap_eval, case, _wrap_sig(case))


# ------------------------------------------------------------------------------ (phase)
PHASE_CLS = ['cantera.IdealGas', 'cantera.StoichSolid', 'omkm.IdealGas', 'omkm.StoichSolid',
             'omkm.InteractingInterface']
PHASE_COUNTS = [0, 1, 2, 5, 12, 28, 80]
PHASE_EXTRAS = ['none', 'all']
PHASE_HOW = ['kw', 'pos', 'default']
PHASE_HIST = ['single', 'repeat', 'other-width-first', 'two-objects', 'edited']
PHASE_WIDTHS = list(range(40, 101))
PHASE_FIELDS = ['name', 'elements', 'species', 'phases', 'beps', 'kinetics', 'transport', 'options', 'note',
                'initial_state']

CL_PH_WIDTH = 'phase writer: no line of a string field exceeds max_line_len unless it holds a single token'
CL_PH_TOKENS = 'phase writer: a wrapped field keeps every token in order'
CL_PH_FORM = 'phase writer: a string field is a quoted CTI string followed by its separator'
CL_PH_PRESENT = 'phase writer: a non-empty field is written'
CL_PH_AGAIN = 'phase writer: the same call repeated gives the same text'
CL_PH_ALONE = 'phase writer: species, phases, options and note of the caller are left unchanged'


class _Sp:
    def __init__(self, name, elements):
        self.name = name
        self.elements = elements
        self.phase = None


class _Rxn:
    def __init__(self, id, bep):
        self.id = id
        if bep != 'no-attribute':
            self.bep = bep


def _phase_species(n, pattern, salt):
    names = _tokens(n, pattern, salt)
    return [_Sp(nm, {_token(j + salt + 3000, 2): 1, 'H': 2}) for j, nm in enumerate(names)]


def _phase_make(cls, n, pattern, extras, salt):
    """Builds the phase; returns (phase, expectation dict field -> tokens, caller-owned inputs)."""
    mod, cname = cls.split('.')
    if mod == 'cantera':
        import pmutt.cantera.phase as M
    else:
        import pmutt.omkm.phase as M
    K = getattr(M, cname)
    species = _phase_species(n, pattern, salt)
    name = 'ph%d_%s' % (salt, cname)
    kw = dict(name=name, species=species)
    exp = dict(name=[name], species=[s.name for s in species],
               elements=sorted({e for s in species for e in s.elements}))
    own = dict(species=species)
    if cname == 'StoichSolid':
        kw['density'] = 12.4
    if cname == 'InteractingInterface':
        kw['site_density'] = 2.5e-9
        kw['phases'] = ['gas']
        exp['phases'] = ['gas']
    if extras == 'all':
        t_list = _tokens(n, pattern, salt + 1000)
        t_opts = _tokens(n, pattern, salt + 1500)
        t_note = _tokens(n, pattern, salt + 2000)
        t_dict, e_dict = _wrap_obj(_tokens(n, pattern, salt + 2500), 'dict')
        kw['transport'] = tuple(t_list)
        exp['transport'] = list(t_list)
        kw['note'] = ' '.join(t_note)
        exp['note'] = list(t_note)
        if cname == 'IdealGas':
            kw['kinetics'] = _token(salt + 7, 11)
            exp['kinetics'] = [kw['kinetics']]
            kw['options'] = t_dict
            exp['options'] = e_dict
        elif cname == 'StoichSolid':
            kw['options'] = list(t_opts)
            exp['options'] = list(t_opts)
            kw['initial_state'] = t_dict
            exp['initial_state'] = e_dict
        else:
            kw['options'] = list(t_opts)
            exp['options'] = list(t_opts)
            # phases given as names and as objects with a name
            ph_names = _tokens(n, pattern, salt + 3500)
            kw['phases'] = [nm if j % 2 else _WithName(nm) for j, nm in enumerate(ph_names)]
            exp['phases'] = list(ph_names)
            # BEP names are collected from the reactions: two reactions share each BEP, one reaction has no
            # bep attribute and one has bep None
            bep_names = _tokens(n, pattern, salt + 600)
            rx = [_Rxn('r_0000', 'no-attribute'), _Rxn('r_0001', None)]
            for j, nm in enumerate(bep_names):
                b = _WithName(nm)
                rx += [_Rxn('r_%04d' % (2 * j + 2), b), _Rxn('r_%04d' % (2 * j + 3), b)]
            kw['reactions'] = rx
            exp['beps'] = list(dict.fromkeys(bep_names))
        own.update(options=kw['options'], phases=kw.get('phases'))
    ph = K(**kw)
    return ph, exp, own


def _phase_snapshot(ph, own):
    return dict(species=[(id(s), s.name, dict(s.elements)) for s in own['species']],
                options=copy.deepcopy(own.get('options')),
                phases=[getattr(x, 'name', x) for x in own.get('phases') or []],
                note=ph.note, transport=ph.transport, same_list=ph.species is own['species'])


def _phase_call(ph, width, how):
    if how == 'kw':
        return ph.to_cti(max_line_len=width)
    if how == 'pos':
        return ph.to_cti(width)
    return ph.to_cti()


def _phase_judge(text, width, exp, sig, case, ctx):
    """Every string argument of the written directive: well-formed, tokens as given, lines within the width."""
    seen = set()
    for name, value, lines, sep in R.cti_string_args(text):
        fsig = dict(sig, field=name if name in PHASE_FIELDS else 'other')
        ctx.evals()
        worst = None
        for j, (line, ntok) in enumerate(lines):
            if len(line) > width:
                if ntok > 1:
                    worst = (j, len(line), width, line[:140])
                    break
                ctx.tag('phase:single-token-over-width')
        ctx.true(CL_PH_WIDTH, worst is None, fsig, case, worst, 'every line of the field <= max_line_len')
        ctx.outcome(CL_PH_WIDTH, (name, len(lines), max(len(x[0]) for x in lines)))
        if len(lines) > 1:
            ctx.tag('phase-wrapped:' + name)
        if name not in exp or name in seen:
            continue
        seen.add(name)
        try:
            got = R.cti_tokens(value)
            if sep not in (',\n', ')\n'):
                raise R.Malformed('followed by %r' % sep)
        except R.Malformed as e:
            ctx.fail(CL_PH_FORM, fsig, case, '%r (%s)' % (value[:80], e), 'quoted string then , or )')
            continue
        ctx.true(CL_PH_FORM, True, fsig, case)
        if name == 'elements':
            got = sorted(got)           # a set: any order
        ctx.equal(CL_PH_TOKENS, got, exp[name], fsig, case)
    for name, e in exp.items():
        if name not in seen:
            # InteractingInterface leaves empty optional fields out
            ctx.true(CL_PH_PRESENT, not e, dict(sig, field=name), case, 'field not found', e[:6])


def _phase_sig(case):
    return dict(part='phase', cls=case['cls'], hist=case['hist'], how=case['how'], field='-')


def _phase_eval(case, ctx):
    sig = _phase_sig(case)
    cls, n, pat, extras, w, how, hist = (case[k] for k in ('cls', 'n', 'pattern', 'extras', 'width', 'how', 'hist'))
    if how == 'default' and w != 80:
        raise ValueError('default width is 80')
    ph, exp, own = _phase_make(cls, n, pat, extras, 0)
    snap = _phase_snapshot(ph, own)
    ctx.trans()
    if hist == 'other-width-first':
        # the same object written at another width first
        w2 = 140 - w
        ctx.trace()
        _phase_judge(_phase_call(ph, w2, 'kw'), w2, exp, sig, case, ctx)
    elif hist == 'two-objects':
        # another phase of the next class with other species, written at another width in between
        cls2 = PHASE_CLS[(PHASE_CLS.index(cls) + 1) % len(PHASE_CLS)]
        n2 = PHASE_COUNTS[(PHASE_COUNTS.index(n) + 3) % len(PHASE_COUNTS)]
        ph2, exp2, own2 = _phase_make(cls2, n2, pat, extras, 200)
        w2 = 140 - w
        ctx.trace()
        _phase_judge(_phase_call(ph2, w2, 'kw'), w2, exp2, dict(sig, cls=cls2), case, ctx)
    ctx.trace()
    text = _phase_call(ph, w, how)
    _phase_judge(text, w, exp, sig, case, ctx)
    ctx.true(CL_PH_ALONE, _phase_snapshot(ph, own) == snap, sig, case, None, 'inputs as before the call')
    if hist == 'repeat':
        ctx.trace()
        ctx.true(CL_PH_AGAIN, _phase_call(ph, w, how) == text, sig, case, None, text[:160])
    elif hist == 'two-objects':
        ctx.trace()
        _phase_judge(_phase_call(ph2, w2, 'kw'), w2, exp2, dict(sig, cls=cls2), case, ctx)
    elif hist == 'edited':
        # species appended and the note extended after the first call: the next call writes the new content
        extra = _Sp(_token(4000, 17), {'Zz': 1})
        ph.append_species(extra)
        exp = dict(exp, species=exp['species'] + [extra.name], elements=sorted(set(exp['elements']) | {'Zz'}))
        if extras == 'all':
            ph.note = ph.note + ' ' + _token(4001, 9)
            exp['note'] = exp['note'] + [_token(4001, 9)]
        ctx.trace()
        _phase_judge(_phase_call(ph, w, how), w, exp, sig, case, ctx)


def _phase_cases(tier):
    q = tier == 'quick'
    for cls in PHASE_CLS:
        for n in PHASE_COUNTS:
            for pat in TOK_PATTERNS:
                if n == 0 and pat != 'all1':
                    continue
                for extras in PHASE_EXTRAS:
                    for w in PHASE_WIDTHS:
                        base = dict(part='phase', cls=cls, n=n, pattern=pat, extras=extras, width=w)
                        yield dict(base, how='kw', hist='single')
                        yield dict(base, how='pos', hist='single')
                        if w == 80:
                            yield dict(base, how='default', hist='single')
                        if q and w % 5 and w not in (72, 79, 81):
                            continue
                        for hist in PHASE_HIST[1:]:
                            yield dict(base, how='kw', hist=hist)
                            if w == 80:
                                yield dict(base, how='default', hist=hist)


def _phase_run(shard, ctx):
    for i, case in enumerate(_phase_cases(shard['tier'])):
        if i % shard['n'] != shard['k']:
            continue
        key = repr(sorted(case.items()))
        ctx.state(key)
        if case['n'] >= 5:
            ctx.nontrivial(key)
        ctx.tag('phase:' + case['cls'])
        ctx.tag('phase-how:' + case['how'])
        ctx.tag('phase-hist:' + case['hist'])
        ctx.tag('phase-width:' + ('<80' if case['width'] < 80 else ('80' if case['width'] == 80 else '>80')))
        if i % 9001 == 0:
            ctx.sample(case, limit=1)
        ctx.run_case(_phase_eval, case, _phase_sig(case))


# ------------------------------------------------------------------------------ module API
_EVAL = dict(range=_range_eval, field=_field_eval, wrap=_wrap_eval, phase=_phase_eval)
_SIG = dict(range=_range_sig, field=_field_sig, wrap=_wrap_sig, phase=_phase_sig)
_RUN = dict(range=_range_run, field=_field_run, wrap=_wrap_run, phase=_phase_run)


def shards(tier):
    q = tier == 'quick'
    out = []
    for part, n in (('range', 12 if q else 32), ('field', 2 if q else 2), ('wrap', 4 if q else 8),
                    ('phase', 8 if q else 16)):
        out += [dict(part=part, tier=tier, k=k, n=n) for k in range(n)]
    return out


def run_shard(shard, ctx):
    _RUN[shard['part']](shard, ctx)


def check_case(case, ctx):
    part = case['part']
    ctx.run_case(_EVAL[part], case, _SIG[part](case))


LEVEL_TEXT = ('Bounded exhaustive enumeration of id collections (subsets, orderings, duplicates, 1-3 prefixes, '
              'renderings, item kinds, output forms, delimiters) on the real _get_omkm_range and of token lists x '
              'line widths on the real obj_to_cti; the produced range notation is expanded again by an '
              'independent reader and must denote exactly the input ids; wrapped text is re-tokenized and every '
              'line measured; the phase / BEP writers\' range fields are checked the same way; every string field of '
              'every phase writer is re-tokenized and its physical lines measured for every max_line_len 40..100.')
LEVEL_NOTE = ('Generated non-encodable ids take every (kind, form, delimiter) with prefix r<d> and four of the sixteen '
              'in rotation with the other prefixes; the Unicode alphabets are those of the interpreter. '
              'Suffix universe of 11 integers, subsets up to 4 (quick) / 6 (thorough) ids per prefix plus long runs '
              'up to 60 ids; every ordering only for sizes <= 4; non-sorted orderings and multi-prefix cases take '
              'one (kind, form, delimiter) combination each in rotation.')
TECHNIQUE = 'bounded exhaustive product enumeration on the implementation, expand-and-compare oracle'
