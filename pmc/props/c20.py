"""C20 - the ideal-gas and van der Waals equations of state invert consistently.

Shape C: lattice walk over (T, P, n) and (T, V, n) states of the real IdealGasEOS / vanDerWaalsEOS
objects; state invariants (solve for one variable, substitute back, recover the others; selected
root = reference root; V linear in n; critical constants) on every state, edge laws (Boyle /
Charles ratios, monotone volume along isotherms and isobars, approach to the ideal gas) on every
lattice edge.  Reference: exact-arithmetic bisection of the cubic, the law of corresponding states,
the second virial coefficient (pmc/ref/eos_ref.py).

Added after the seeded-change rounds (notes/C20.md, "Strengthening after seeded changes"):
* object histories - two or three vanDerWaalsEOS objects made by every construction route (a, b / from_critical /
  from_dict / to_dict-from_dict / JSON encoder-decoder / copy / deepcopy) with the same or different parameters, an attribute edit (or an
  edit of a returned dict) in between, every object queried before and after against a model in which each object
  owns its a, b;
* one object swept over the whole lattice twice (second pass reversed);
* calling conventions - positional arguments, every subset of arguments left to its default, integer-typed
  (int, numpy int64 / int32) T, P, V, n, Tc, Pc, a, and gas_phase given as 0 / 1 / numpy bool.
"""
import copy
import itertools
import json
import math

import numpy as np

from pmc.ref import eos_ref as E

ID = 'C20'
RULE = ('every (gas, T, P, n, root) and (gas, T, V, n) state of the lattice, every isotherm / isobar edge between '
        'adjacent lattice points, every (Tc, Pc) pair; every object history first-construction x second-construction '
        'x edit x third-construction over the construction routes {a,b / from_critical / from_dict} x {same, other '
        'parameters} + {to_dict-from_dict, JSON round trip, copy, deepcopy}, edits {a, b of either object x 2 factors, the dict '
        'returned by to_dict}; every calling convention {keyword, positional, each subset of arguments omitted, '
        'each subset of integer-valued arguments given as int / numpy int, gas_phase as 0/1/numpy bool} of every '
        'getter; a state is non-trivial when it is a van der Waals state '
        'with three real roots, a liquid-root state, a state generated from V, a critical-point construction, '
        'an object history or a non-keyword calling convention')
ASSUMPTIONS = ['lattices of T, P, n, V/b, (a, b), (Tc, Pc) as stated in bounds',
               'substitute-back in P is judged against the size of the two terms RT/(Vm-b) and a/Vm^2 whose '
               'difference it is (DESIGN 3.4, identities); all other substitute-backs at 1e-8 relative',
               'a (T, P) state whose cubic has a nearly double root (margin < 1e-6) is exempt from the root-count '
               'clauses only',
               'gas constant: the library value R(J/mol/K); its accuracy is property C12',
               'object histories: length 3 constructions + 1 edit (the third construction repeats the first or the '
               'second in the quick tier), gas pairs and query states as stated in bounds; every object is modelled '
               'as the sole owner of its a, b',
               'integer-typed arguments: only integer-valued lattice values are converted (int, numpy.int64, '
               'numpy.int32)']
EXPLANATION = ('every state is evaluated on the real EOS objects; expected volumes come from an exact-arithmetic '
               'bisection of the van der Waals cubic, pressures from the reduced equation of state')

T_Q = [50.0, 150.0, 298.15, 700.0, 3000.0]
P_Q = [1e-3, 0.1, 1.0, 30.0, 1e3]
N_Q = [1e-3, 1.0, 1e3]
T_T = [50.0, 90.0, 150.0, 220.0, 298.15, 450.0, 700.0, 1500.0, 3000.0]
P_T = [1e-3, 1e-2, 0.1, 1.0, 5.0, 30.0, 100.0, 300.0, 1e3]
N_T = [1e-3, 0.05, 1.0, 40.0, 1e3]
VR = [1.05, 1.5, 3.0, 10.0, 1e2, 1e4, 1e6]                  # molar volume in units of b, states from V
V_IDEAL = [1e-6, 1e-3, 0.0247895618937, 1.0, 1e3]           # m3
RED_FROM_V = [(tr, vr) for tr in (0.7, 0.85, 0.95) for vr in (0.5, 0.6, 0.7, 1.0, 2.0, 5.0, 20.0)]   # (T/Tc, V/Vc)
P_LIMIT = [1e-3, 1e-4, 1e-5, 1e-6]                          # bar, approach to the ideal gas
TC = [5.0, 33.0, 304.0, 647.0, 1000.0]
PC = [1.0, 13.0, 74.0, 221.0, 300.0]
TR = [0.7, 0.9, 1.0, 1.5]
VRED = [0.5, 0.8, 0.99, 1.0, 1.01, 2.0, 10.0]
# object histories
H_PAIRS_Q = [('CO2', 'H2O'), ('He', 'SF6'), ('N2', 'NH3'), ('C3H8', 'H2')]                  # (base, other)
H_PAIRS_T = [('He', 'H2'), ('H2', 'N2'), ('N2', 'CO2'), ('CO2', 'H2O'), ('H2O', 'NH3'), ('NH3', 'C3H8'),
             ('C3H8', 'SF6'), ('SF6', 'He')]
H_FIRST = ['init', 'critical', 'dict']
H_DERIVE = ['roundtrip', 'json', 'copy', 'deepcopy']
H_STATES = [(150.0, 1.0, 1e3), (700.0, 30.0, 1e-3)]          # (T / K, P / bar, n / mol) asked of every object
H_FACTORS = [0.9, 1.25]                                      # attribute edits (stay inside the (a, b) box)
CLS_VDW = "<class 'pmutt.eos.vanDerWaalsEOS'>"
# calling conventions: integer-valued states
C_T_Q, C_T_T = [150, 700], [50, 150, 700, 3000]
C_P = [1, 30, 1000]
C_NV = [(1, 1000), (1000, 1)]                                # (n / mol, V / m3): Vm = 1000 and 1e-3 m3/mol
C_TYPES = ['int', 'np.int64', 'np.int32']
C_FLAGS = ['int', 'np.bool_']

PLANNED_TAGS = ['ideal:from-TPn', 'ideal:from-TVn', 'ideal:defaults', 'ideal:edge-P', 'ideal:edge-T',
                'vdw:three-roots', 'vdw:one-root', 'vdw:gas-root', 'vdw:liquid-root', 'vdw:supercritical',
                'vdw:subcritical', 'vdw:from-V:largest', 'vdw:from-V:smallest', 'vdw:from-V:middle',
                'vdw:from-V:negative-P', 'vdw:edge-P', 'vdw:edge-T', 'vdw:limit', 'critical:from_critical',
                'critical:from-ab', 'critical:reduced:subcritical', 'critical:reduced:critical',
                'critical:reduced:supercritical', 'vdw:defaults',
                'history:ctor:init', 'history:ctor:critical', 'history:ctor:dict', 'history:ctor:roundtrip', 'history:ctor:json',
                'history:ctor:copy', 'history:ctor:deepcopy', 'history:same-construction-twice',
                'history:edit:set-a', 'history:edit:set-b', 'history:edit:returned-dict',
                'history:query:three-roots', 'history:query:one-root', 'history:query:after-own-edit',
                'history:query:after-edit-of-another', 'history:query:from_critical-unedited',
                'sweep:ideal', 'sweep:vdw', 'calls:positional', 'calls:omitted', 'calls:typed:int',
                'calls:typed:np.int64', 'calls:typed:np.int32', 'calls:flag:int', 'calls:flag:np.bool_',
                'calls:ctor:typed', 'calls:ctor:positional', 'calls:ctor:int-a']


def _lat(tier):
    return (T_Q, P_Q, N_Q) if tier == 'quick' else (T_T, P_T, N_T)


def gases(tier):
    out = dict(E.GASES)
    if tier == 'quick':
        for a, b in itertools.product(E.BOX_A, E.BOX_B):
            out['box a=%g b=%g' % (a, b)] = (a, b)
    else:
        for a, b in itertools.product([0.003, 0.03, 0.3, 3.0], [1e-5, 3e-5, 8e-5, 2e-4]):
            out['box a=%g b=%g' % (a, b)] = (a, b)
    return out


def bounds(tier):
    T, P, N = _lat(tier)
    return dict(T=T, P_bar=P, n=N, gases=sorted(gases(tier)), roots=['gas', 'liquid'], V_over_b=VR,
                from_V_reduced=RED_FROM_V, V_ideal_m3=V_IDEAL, P_limit_bar=P_LIMIT, Tc=TC, Pc_bar=PC, T_reduced=TR, V_reduced=VRED,
                history=dict(gas_pairs=_h_pairs(tier), first=H_FIRST, second='{a,b / from_critical / from_dict} x {same, other '
                             'parameters} + {to_dict-from_dict, JSON round trip, copy, deepcopy} of the first',
                             edit='{a, b} x {first, second object} x factors %s + {edit the dict returned by to_dict of '
                                  'the first, second object}' % H_FACTORS,
                             third='repeat of the first / of the second construction' if tier == 'quick' else
                                   'the 10 second constructions + {to_dict-from_dict, JSON round trip, copy, deepcopy} of the second',
                             queries='every object before and after every step', query_states_T_Pbar_n=H_STATES),
                sweep='one object per gas (and one ideal-gas object) over the whole (T, P, n) lattice, then again in '
                      'reverse order with the roots asked in the other order',
                calling_conventions=dict(T=C_T_Q if tier == 'quick' else C_T_T, P_bar=C_P, n_V=C_NV, int_types=C_TYPES,
                                         gas_phase_as=C_FLAGS, styles=['keyword', 'positional', 'every subset of '
                                                                       'arguments omitted', 'every subset of numbers '
                                                                       'integer-typed']))


def _h_pairs(tier):
    return H_PAIRS_Q if tier == 'quick' else H_PAIRS_T


def shards(tier):
    out = [dict(kind='ideal', part=k) for k in range(2)]
    out += [dict(kind='vdw', gas=g) for g in gases(tier)]
    out += [dict(kind='limit')]
    out += [dict(kind='critical', Tc=tc) for tc in TC]
    out += [dict(kind='reduced'), dict(kind='defaults')]
    out += [dict(kind='history', base=g1, other=g2, first=f) for g1, g2 in _h_pairs(tier) for f in H_FIRST]
    return out


def _eos():
    from pmutt.eos import IdealGasEOS, vanDerWaalsEOS
    return IdealGasEOS, vanDerWaalsEOS


def _R():
    from pmutt import constants as c
    return c.R('J/mol/K')


# ------------------------------------------------------------------ ideal gas
def _k_ideal(case, ctx):
    Ideal, _ = _eos()
    eos = Ideal()
    T, n = case['T'], case['n']
    R = _R()
    sig = dict(eos='ideal', start=case['start'])
    if case['start'] == 'TPn':
        ctx.tag('ideal:from-TPn')
        P = case['P']
        V = eos.get_V(T=T, P=P, n=n)
        ctx.close('ideal gas: V = nRT/P', V, n * R * T / (P * 1e5), dict(sig, getter='get_V'), case, rtol=1e-12)
        ctx.close('ideal gas: volume is linear in amount', V, n * eos.get_V(T=T, P=P, n=1.0),
                  dict(sig, getter='get_V'), case, rtol=1e-12)
    else:
        ctx.tag('ideal:from-TVn')
        V = case['V']
        P = eos.get_P(T=T, V=V, n=n)
        ctx.close('ideal gas: P = nRT/V', P, n * R * T / V / 1e5, dict(sig, getter='get_P'), case, rtol=1e-12)
    ctx.evals(6)
    back = [eos.get_P(T=T, V=V, n=n), eos.get_V(T=T, P=P, n=n), eos.get_T(V=V, P=P, n=n),
            eos.get_n(V=V, P=P, T=T)]
    for name, o, e in zip(['get_P', 'get_V', 'get_T', 'get_n'], back, [P, V, T, n]):
        ctx.close('ideal gas: solving for one variable and substituting back returns the state', o, e,
                  dict(sig, getter=name), case, rtol=1e-8)


def _k_ideal_edge(case, ctx):
    Ideal, _ = _eos()
    eos = Ideal()
    ctx.trans()
    ctx.evals(2)
    n = case['n']
    if case['axis'] == 'P':
        ctx.tag('ideal:edge-P')
        T, (p1, p2) = case['T'], case['P']
        v1, v2 = eos.get_V(T=T, P=p1, n=n), eos.get_V(T=T, P=p2, n=n)
        ctx.close('ideal gas edge law: V1 P1 = V2 P2 on an isotherm', v1 * p1, v2 * p2,
                  dict(eos='ideal', edge='P'), case, rtol=1e-12)
    else:
        ctx.tag('ideal:edge-T')
        P, (t1, t2) = case['P'], case['T']
        v1, v2 = eos.get_V(T=t1, P=P, n=n), eos.get_V(T=t2, P=P, n=n)
        ctx.close('ideal gas edge law: V1/T1 = V2/T2 on an isobar', v1 / t1, v2 / t2,
                  dict(eos='ideal', edge='T'), case, rtol=1e-12)


# ------------------------------------------------------------------ van der Waals
def _terms(a, b, R, T, vm):
    return abs(R * T / (vm - b)) + abs(a / vm ** 2)


def _k_vdw(case, ctx):
    """One (gas, T, P) point: both roots, all n."""
    _, VdW = _eos()
    a, b, T, P = case['a'], case['b'], case['T'], case['P']
    R = _R()
    eos = VdW(a=a, b=b)
    roots, margin = E.vdw_roots(a, b, R * T, P * 1e5)
    ctx.tag('vdw:subcritical' if T < 8.0 * a / (27.0 * b * R) else 'vdw:supercritical')
    decided = margin >= 1e-6
    if decided:
        ctx.tag('vdw:three-roots' if len(roots) == 3 else 'vdw:one-root')
    regime = ('%d-root' % len(roots)) if decided else 'near-spinodal'
    vms = {}
    for root, gp in (('gas', True), ('liquid', False)):
        ctx.tag('vdw:%s-root' % root)
        sig = dict(eos='vdW', root=root, regime=regime)
        vm = eos.get_Vm(T=T, P=P, gas_phase=gp)
        ctx.evals()
        vms[root] = vm
        ref = roots[-1] if gp else roots[0]
        if decided:
            ctx.close('van der Waals: selected root = largest (gas) / smallest (liquid) real root of the cubic',
                      vm, ref, dict(sig, getter='get_Vm'), case, rtol=1e-8)
        else:
            ctx.true('van der Waals: selected root is a real root of the cubic',
                     min(abs(vm - r) / r for r in roots) < 1e-4 or margin < 1e-6, sig, case, vm, roots)
        ctx.true('van der Waals: molar volume exceeds the excluded volume b', vm > b, sig, case, vm, b)
        for n in case['n']:
            V = eos.get_V(T=T, P=P, n=n, gas_phase=gp)
            ctx.evals(4)
            ctx.close('van der Waals: volume is linear in amount', V, n * vm, dict(sig, getter='get_V'), case,
                      rtol=1e-12)
            pb = eos.get_P(T=T, V=V, n=n)
            ctx.close('van der Waals: P(T, V(T,P,n), n) = P on the selected root', pb * 1e5, P * 1e5,
                      dict(sig, getter='get_P'), case, rtol=0.0, atol=1e-10 * _terms(a, b, R, T, vm),
                      scale=1.0)
            ctx.close('van der Waals: T(V(T,P,n), P, n) = T on the selected root', eos.get_T(V=V, P=P, n=n), T,
                      dict(sig, getter='get_T'), case, rtol=1e-8)
            ctx.close('van der Waals: n(V(T,P,n), P, T) = n on the selected root',
                      eos.get_n(V=V, P=P, T=T, gas_phase=gp), n, dict(sig, getter='get_n'), case, rtol=1e-8)
    if decided:
        sig = dict(eos='vdW', regime=regime)
        if len(roots) == 3:
            ctx.true('van der Waals: inside the coexistence range the two roots differ',
                     vms['gas'] > vms['liquid'] * (1.0 + 1e-6), sig, case, vms, roots)
        else:
            ctx.close('van der Waals: with a single real root both selections return it', vms['gas'],
                      vms['liquid'], sig, case, rtol=1e-12)


def _k_vdw_from_v(case, ctx):
    """State generated from (T, V, n)."""
    _, VdW = _eos()
    a, b, T, vr, n = case['a'], case['b'], case['T'], case['vr'], case['n']
    R = _R()
    eos = VdW(a=a, b=b)
    vm = vr * b
    V = vm * n
    sig = dict(eos='vdW', start='TVn')
    P = eos.get_P(T=T, V=V, n=n)
    ctx.evals()
    exp = (R * T / (vm - b) - a / vm ** 2) / 1e5
    ctx.close('van der Waals: P = RT/(Vm-b) - a/Vm^2', P, exp, dict(sig, getter='get_P'), case, rtol=0.0,
              atol=1e-12 * _terms(a, b, R, T, vm) / 1e5, scale=1.0)
    tb = eos.get_T(V=V, P=P, n=n)
    ctx.evals()
    # T = (P + a/Vm^2)(Vm - b)/R : P itself carries the cancellation error of the two terms
    ctx.close('van der Waals: T(V, P(T,V,n), n) = T', tb, T, dict(sig, getter='get_T'), case, rtol=1e-8)
    if not P > 0:
        ctx.tag('vdw:from-V:negative-P')
        return
    roots, margin = E.vdw_roots(a, b, R * T, P * 1e5)
    # which root is vm?
    k = min(range(len(roots)), key=lambda i: abs(roots[i] - vm))
    ctx.true('van der Waals: the generating volume is a root of the cubic at the returned pressure',
             abs(roots[k] - vm) <= 1e-6 * vm or margin < 1e-6, sig, case, vm, roots)
    if margin < 1e-6:
        return
    dpdv = -R * T / (vm - b) ** 2 + 2.0 * a / vm ** 3          # Pa per (m3/mol)
    kappa = abs(P * 1e5 / (vm * dpdv))                         # d ln V / d ln P
    tol = 1e-8 * (1.0 + kappa) + 1e-12 * _terms(a, b, R, T, vm) / abs(vm * dpdv)
    last = len(roots) - 1
    which = 'largest' if k == last else 'smallest' if k == 0 else 'middle'
    ctx.tag('vdw:from-V:' + which)
    sel = []
    if k == last:
        sel.append(('gas', True))
    if k == 0:
        sel.append(('liquid', False))
    for root, gp in sel:
        s2 = dict(sig, root=root)
        ctx.evals(2)
        ctx.close('van der Waals: V(T, P(T,V,n), n) = V on the selected root',
                  eos.get_V(T=T, P=P, n=n, gas_phase=gp), V, dict(s2, getter='get_V'), case, rtol=tol)
        ctx.close('van der Waals: n(V, P(T,V,n), T) = n on the selected root',
                  eos.get_n(V=V, P=P, T=T, gas_phase=gp), n, dict(s2, getter='get_n'), case, rtol=tol)
    if not sel:
        # mechanically unstable branch: neither selection may return it
        ctx.evals(2)
        g = eos.get_V(T=T, P=P, n=n, gas_phase=True)
        liq = eos.get_V(T=T, P=P, n=n, gas_phase=False)
        ctx.true('van der Waals: the unstable middle root is never selected', liq < V < g, sig, case,
                 dict(V=V, gas=g, liquid=liq))


def _k_vdw_edge(case, ctx):
    _, VdW = _eos()
    eos = VdW(a=case['a'], b=case['b'])
    ctx.trans()
    ctx.evals(4)
    for root, gp in (('gas', True), ('liquid', False)):
        if case['axis'] == 'P':
            ctx.tag('vdw:edge-P')
            T, (p1, p2) = case['T'], case['P']
            v1, v2 = eos.get_Vm(T=T, P=p1, gas_phase=gp), eos.get_Vm(T=T, P=p2, gas_phase=gp)
            ctx.true('van der Waals edge law: selected volume decreases with pressure on an isotherm', v2 < v1,
                     dict(eos='vdW', edge='P', root=root), case, [v1, v2])
        else:
            ctx.tag('vdw:edge-T')
            P, (t1, t2) = case['P'], case['T']
            v1, v2 = eos.get_Vm(T=t1, P=P, gas_phase=gp), eos.get_Vm(T=t2, P=P, gas_phase=gp)
            ctx.true('van der Waals edge law: selected volume increases with temperature on an isobar', v2 > v1,
                     dict(eos='vdW', edge='T', root=root), case, [v1, v2])


def _k_limit(case, ctx):
    Ideal, VdW = _eos()
    a, b, T = case['a'], case['b'], case['T']
    R = _R()
    eos, ig = VdW(a=a, b=b), Ideal()
    ctx.tag('vdw:limit')
    sig = dict(eos='vdW', limit='ideal gas')
    deltas = []
    for P in P_LIMIT:
        ctx.evals(2)
        ctx.trans()
        d = eos.get_V(T=T, P=P, n=1.0) / ig.get_V(T=T, P=P, n=1.0) - 1.0
        deltas.append(d)
        b2 = E.second_virial(a, b, R * T) * P * 1e5 / (R * T)
        if abs(b2) < 2e-4:
            ctx.close('van der Waals -> ideal gas: V/V_ideal - 1 = B2 P/RT to first order', d, b2, sig, case,
                      rtol=0.0, atol=0.02 * abs(b2) + 4.0 * (b * P * 1e5 / (R * T)) ** 2 + 1e-13, scale=1.0)
    mags = [abs(d) for d in deltas]
    ctx.true('van der Waals -> ideal gas: relative difference shrinks as P -> 0',
             all(m2 < m1 or m1 < 1e-12 for m1, m2 in zip(mags, mags[1:])), sig, case, deltas)
    ctx.true('van der Waals -> ideal gas: relative difference < 1e-3 at the lowest pressure', mags[-1] < 1e-3, sig,
             case, mags[-1], '< 1e-3')
    ctx.outcome('van der Waals -> ideal gas: relative difference < 1e-3 at the lowest pressure', mags[-1])


# ------------------------------------------------------------------ critical constants
def _k_critical(case, ctx):
    _, VdW = _eos()
    tc, pc = case['Tc'], case['Pc']
    R = _R()
    ctx.tag('critical:from_critical')
    eos = VdW.from_critical(Tc=tc, Pc=pc)
    sig = dict(eos='vdW', what='critical constants')
    ctx.evals(2)
    ctx.close('from_critical(Tc, Pc): get_Tc / get_Pc reproduce Tc, Pc', [eos.get_Tc(), eos.get_Pc()], [tc, pc],
              dict(sig, getter='get_Tc/get_Pc'), case, rtol=1e-8)
    ctx.close('from_critical: a = 27 R^2 Tc^2 / (64 Pc), b = R Tc / (8 Pc)', [eos.a, eos.b],
              [27.0 * (R * tc) ** 2 / (64.0 * pc * 1e5), R * tc / (8.0 * pc * 1e5)],
              dict(sig, getter='from_critical'), case, rtol=1e-12)
    for n in case['n']:
        vc = eos.get_Vc(n=n)
        ctx.evals(2)
        ctx.close('Vc = 3 n b', vc, 3.0 * n * eos.b, dict(sig, getter='get_Vc'), case, rtol=1e-12)
        zc = pc * 1e5 * vc / (n * R * tc)
        ctx.true('critical compressibility Pc Vc / (n R Tc) = 3/8', abs(zc - 0.375) <= 1e-8, dict(sig, getter='get_Vc'),
                 case, zc, 0.375)
        ctx.close('the critical point lies on the equation of state: P(Tc, Vc, n) = Pc',
                  eos.get_P(T=tc, V=vc, n=n), pc, dict(sig, getter='get_P'), case, rtol=1e-8)


def _k_critical_ab(case, ctx):
    _, VdW = _eos()
    a, b = case['a'], case['b']
    R = _R()
    ctx.tag('critical:from-ab')
    eos = VdW(a=a, b=b)
    sig = dict(eos='vdW', what='critical constants', start='a,b')
    tc, pc = eos.get_Tc(), eos.get_Pc()
    ctx.evals(2)
    ctx.close('Tc = 8a/(27 b R), Pc = a/(27 b^2)', [tc, pc], [8.0 * a / (27.0 * b * R), a / (27.0 * b * b) / 1e5],
              dict(sig, getter='get_Tc/get_Pc'), case, rtol=1e-12)
    again = VdW.from_critical(Tc=tc, Pc=pc)
    ctx.close('from_critical(get_Tc, get_Pc) returns the parameters a, b', [again.a, again.b], [a, b],
              dict(sig, getter='from_critical'), case, rtol=1e-8)


def _k_reduced(case, ctx):
    _, VdW = _eos()
    a, b, tr, vr, n = case['a'], case['b'], case['tr'], case['vr'], case['n']
    eos = VdW(a=a, b=b)
    ctx.tag('critical:reduced:' + ('critical' if tr == 1.0 else 'subcritical' if tr < 1 else 'supercritical'))
    sig = dict(eos='vdW', what='corresponding states')
    tc, pc, vc = eos.get_Tc(), eos.get_Pc(), eos.get_Vc(n=n)
    ctx.evals(4)
    p = eos.get_P(T=tr * tc, V=vr * vc, n=n)
    exp = E.reduced_pressure(tr, vr)
    ctx.close('law of corresponding states: P/Pc = 8 Tr/(3 Vr - 1) - 3/Vr^2', p / pc, exp, sig, case, rtol=0.0,
              atol=1e-10 * (abs(8.0 * tr / (3.0 * vr - 1.0)) + 3.0 / vr ** 2), scale=1.0)


def _k_defaults(case, ctx):
    """Default arguments describe one state (T0, P0, V0, 1 mol)."""
    from pmutt import constants as c
    Ideal, VdW = _eos()
    if case['eos'] == 'ideal':
        ctx.tag('ideal:defaults')
        eos = Ideal()
        sig = dict(eos='ideal', start='defaults')
        ctx.evals(4)
        ctx.close('default arguments are one consistent ideal-gas state (T0, P0, V0, 1 mol)',
                  [eos.get_V(), eos.get_P(), eos.get_T(), eos.get_n()],
                  [c.R('J/mol/K') * 298.15 / 1e5, 1.0, 298.15, 1.0], sig, case, rtol=1e-12)
    else:
        ctx.tag('vdw:defaults')
        a, b = case['a'], case['b']
        eos = VdW(a=a, b=b)
        sig = dict(eos='vdW', start='defaults')
        ctx.evals(5)
        ctx.close('default arguments = explicit standard state', [eos.get_V(), eos.get_Vm(), eos.get_P(), eos.get_T(),
                                                                  eos.get_n(), eos.get_Vc()],
                  [eos.get_V(T=298.15, P=1.0, n=1.0, gas_phase=True), eos.get_Vm(T=298.15, P=1.0, gas_phase=True),
                   eos.get_P(T=298.15, V=c.V0('m3'), n=1.0), eos.get_T(V=c.V0('m3'), P=1.0, n=1.0),
                   eos.get_n(V=c.V0('m3'), P=1.0, T=298.15, gas_phase=True), eos.get_Vc(n=1.0)], sig, case,
                  rtol=1e-14)


# ------------------------------------------------------------------ independent model of every getter
_roots = E.roots_memo
_ref_call = E.getter_value
_crit_ab = E.from_critical_ab


def _crit_of(a, b, R):
    """A plain (Tc / K, Pc / bar) pair close to the critical point of (a, b) - six significant digits."""
    return float('%.6g' % (8.0 * a / (27.0 * b * R))), float('%.6g' % (a / (27.0 * b * b) / 1e5))


# ------------------------------------------------------------------ object histories
def _h_query(ctx, case, objs, model, k, R):
    """Ask object k everything; the expected answers come from the model's a, b of object k alone.

    The clauses are ordered from cause to consequence and a query stops at its first failing clause, so that a
    shared / stale parameter is reported once (as such) and not once more per getter."""
    o, m = objs[k], model[k]
    a, b = m['a'], m['b']
    sig = dict(eos='vdW', what='object history', made_by=m['by'])
    if m['edited'] == 'attribute':
        ctx.tag('history:query:after-own-edit')
    if any(x['edited'] != 'no' for i, x in enumerate(model) if i != k):
        ctx.tag('history:query:after-edit-of-another')
    ctx.evals(4)
    if not ctx.close('object history: a, b of an object are the values it was built with / last given', [o.a, o.b],
                     [a, b], dict(sig, getter='a, b'), case, rtol=1e-12):
        return
    ns = [n for _, _, n in H_STATES]
    if not ctx.close('object history: Tc = 8a/(27 b R), Pc = a/(27 b^2), Vc = 3 n b of the object\'s own a, b',
                     [o.get_Tc(), o.get_Pc()] + [o.get_Vc(n=n) for n in ns],
                     [_ref_call('vdW', a, b, R, 'get_Tc', {})[0], _ref_call('vdW', a, b, R, 'get_Pc', {})[0]]
                     + [3.0 * n * b for n in ns], dict(sig, getter='get_Tc/get_Pc/get_Vc'), case, rtol=1e-12):
        return
    if m['crit'] is not None:
        ctx.tag('history:query:from_critical-unedited')
        if not ctx.close('object history: an unedited object from from_critical(Tc, Pc) reproduces Tc, Pc whatever was '
                         'done with other objects', [o.get_Tc(), o.get_Pc()], m['crit'],
                         dict(sig, getter='get_Tc/get_Pc'), case, rtol=1e-8):
            return
    for T, P, n in H_STATES:
        roots, margin = _roots(a, b, R * T, P * 1e5)
        if margin < 1e-6:
            ctx.tag('history:query:near-spinodal')
            continue
        ctx.tag('history:query:three-roots' if len(roots) == 3 else 'history:query:one-root')
        g, liq = roots[-1], roots[0]
        ctx.evals(10)
        if not ctx.close('object history: selected roots are the roots of the cubic of the object\'s own a, b',
                         [o.get_Vm(T=T, P=P, gas_phase=True), o.get_Vm(T=T, P=P, gas_phase=False),
                          o.get_V(T=T, P=P, n=n, gas_phase=True), o.get_V(T=T, P=P, n=n, gas_phase=False)],
                         [g, liq, n * g, n * liq], dict(sig, getter='get_Vm/get_V'), case, rtol=1e-8):
            return
        if not ctx.close('object history: n(V, P, T) = n on both roots of the object\'s own a, b',
                         [o.get_n(V=n * g, P=P, T=T, gas_phase=True), o.get_n(V=n * liq, P=P, T=T, gas_phase=False)],
                         [n, n], dict(sig, getter='get_n'), case, rtol=1e-8):
            return
        for vm in (g, liq):
            if not ctx.close('object history: P(T, V, n) = P on both roots of the object\'s own a, b',
                             o.get_P(T=T, V=n * vm, n=n) * 1e5, P * 1e5, dict(sig, getter='get_P'), case, rtol=0.0,
                             atol=1e-10 * _terms(a, b, R, T, vm), scale=1.0):
                return
        if not ctx.close('object history: T(V, P, n) = T on both roots of the object\'s own a, b',
                         [o.get_T(V=n * g, P=P, n=n), o.get_T(V=n * liq, P=P, n=n)], [T, T],
                         dict(sig, getter='get_T'), case, rtol=1e-8):
            return


def _k_history(case, ctx):
    """A history of constructions, edits and queries on several vanDerWaalsEOS objects in one process."""
    _, VdW = _eos()
    R = _R()
    objs, model = [], []
    made = []
    for op in case['ops']:
        ctx.trans()
        kind = op[0]
        if kind in ('new', 'derive'):
            how = op[1]
            sig = dict(eos='vdW', what='object history', made_by=how)
            ctx.tag('history:ctor:' + how)
            if kind == 'new':
                x, y = op[2], op[3]
                if [how, x, y] in made:
                    ctx.tag('history:same-construction-twice')
                made.append([how, x, y])
                if how == 'init':
                    obj, m = VdW(a=x, b=y), dict(a=x, b=y, crit=None)
                elif how == 'critical':
                    obj = VdW.from_critical(Tc=x, Pc=y)
                    a, b = _crit_ab(x, y, R)
                    m = dict(a=a, b=b, crit=[x, y])
                elif how == 'dict':
                    d = {'class': CLS_VDW, 'a': x, 'b': y}
                    before = copy.deepcopy(d)
                    obj, m = VdW.from_dict(d), dict(a=x, b=y, crit=None)
                    ctx.true('object history: the dict given to from_dict is left as it was', d == before, sig, case,
                             d, before)
                    d['a'], d['b'] = 2.0 * x, 2.0 * y            # the caller goes on using its dict
                else:
                    raise ValueError(how)
            else:
                src = op[2]
                if how == 'roundtrip':
                    obj = VdW.from_dict(objs[src].to_dict())
                elif how == 'json':
                    from pmutt.io.json import pmuttEncoder, json_to_pmutt
                    obj = json.loads(json.dumps(objs[src], cls=pmuttEncoder), object_hook=json_to_pmutt)
                elif how == 'copy':
                    obj = copy.copy(objs[src])
                elif how == 'deepcopy':
                    obj = copy.deepcopy(objs[src])
                else:
                    raise ValueError(how)
                crit = model[src]['crit']
                m = dict(a=model[src]['a'], b=model[src]['b'], crit=None if crit is None else list(crit))
            m.update(by=how, edited='no')
            ctx.true('object history: every construction returns a new object', all(obj is not o for o in objs), sig,
                     case, [i for i, o in enumerate(objs) if o is obj], [])
            objs.append(obj)
            model.append(m)
        elif kind == 'set':
            _, k, attr, f = op
            ctx.tag('history:edit:set-' + attr)
            v = model[k][attr] * f
            setattr(objs[k], attr, v)
            model[k][attr] = v
            model[k]['crit'] = None
            model[k]['edited'] = 'attribute'
        elif kind == 'edit-dict':
            k = op[1]
            ctx.tag('history:edit:returned-dict')
            d = objs[k].to_dict()
            for key in ('a', 'b'):
                if key in d:
                    d[key] = 3.0 * d[key]
            d.pop('class', None)
            if model[k]['edited'] == 'no':
                model[k]['edited'] = 'returned dict'
        elif kind == 'query':
            _h_query(ctx, case, objs, model, op[1], R)
        else:
            raise ValueError(kind)


def _h_news(p, R):
    a, b = p
    tc, pc = _crit_of(a, b, R)
    return {'init': ['new', 'init', a, b], 'critical': ['new', 'critical', tc, pc], 'dict': ['new', 'dict', a, b]}


def _histories(tier, base, other, first):
    """Op lists: first construction, second construction, one edit, third construction, queries in between."""
    R = _R()
    nb, no = _h_news(base, R), _h_news(other, R)
    seconds = [nb[h] for h in H_FIRST] + [no[h] for h in H_FIRST] + [['derive', h, 0] for h in H_DERIVE]
    edits = [['set', k, attr, f] for k in (0, 1) for attr in ('a', 'b') for f in H_FACTORS]
    edits += [['edit-dict', k] for k in (0, 1)]
    q = lambda *ks: [['query', k] for k in ks]
    for second in seconds:
        if tier == 'quick':
            thirds = [nb[first], second if second[0] == 'new' else ['derive', second[1], 1]]
        else:
            thirds = seconds + [['derive', h, 1] for h in H_DERIVE]
        thirds = [t for i, t in enumerate(thirds) if t not in thirds[:i]]
        for edit in edits:
            for third in thirds:
                yield [nb[first]] + q(0) + [second] + q(0, 1) + [edit] + q(0, 1) + [third] + q(2, 0, 1)


# ------------------------------------------------------------------ one object over the whole lattice, twice
def _k_sweep(case, ctx):
    Ideal, VdW = _eos()
    R = _R()
    pts = [(t, p) for t in case['T'] for p in case['P']]
    ns = list(case['n'])
    if case['eos'] == 'ideal':
        ctx.tag('sweep:ideal')
        eos = Ideal()
        a = b = None
    else:
        ctx.tag('sweep:vdw')
        a, b = case['a'], case['b']
        eos = VdW(a=a, b=b)
    for label, seq, nseq, sel in (('first', pts, ns, (True, False)), ('second, reversed', pts[::-1], ns[::-1], (False, True))):
        sig = dict(eos=case['eos'], what='one object over the lattice', sweep=label)
        for T, P in seq:
            ctx.trans()
            if case['eos'] == 'ideal':
                for n in nseq:
                    V = n * R * T / (P * 1e5)
                    ctx.evals(4)
                    ctx.close('one ideal-gas object over the whole lattice, twice: every getter returns the state',
                              [eos.get_V(T=T, P=P, n=n), eos.get_P(T=T, V=V, n=n), eos.get_T(V=V, P=P, n=n),
                               eos.get_n(V=V, P=P, T=T)], [V, P, T, n], sig, case, rtol=1e-12)
                continue
            roots, margin = _roots(a, b, R * T, P * 1e5)
            if margin < 1e-6:
                continue
            for gp in sel:
                vm = roots[-1] if gp else roots[0]
                s2 = dict(sig, root='gas' if gp else 'liquid')
                ctx.evals(1 + 4 * len(nseq))
                ctx.close('one van der Waals object over the whole lattice, twice: selected root = reference root',
                          [eos.get_Vm(T=T, P=P, gas_phase=gp)] + [eos.get_V(T=T, P=P, n=n, gas_phase=gp) for n in nseq],
                          [vm] + [n * vm for n in nseq], dict(s2, getter='get_Vm/get_V'), case, rtol=1e-8)
                ctx.close('one van der Waals object over the whole lattice, twice: T and n from the reference volume',
                          [eos.get_T(V=n * vm, P=P, n=n) for n in nseq]
                          + [eos.get_n(V=n * vm, P=P, T=T, gas_phase=gp) for n in nseq],
                          [T] * len(nseq) + list(nseq), dict(s2, getter='get_T/get_n'), case, rtol=1e-8)
                ctx.close('one van der Waals object over the whole lattice, twice: P from the reference volume',
                          [eos.get_P(T=T, V=n * vm, n=n) * 1e5 for n in nseq], [P * 1e5] * len(nseq),
                          dict(s2, getter='get_P'), case, rtol=0.0,
                          atol=1e-10 * _terms(a, b, R, T, vm), scale=1.0)


# ------------------------------------------------------------------ calling conventions
_ORDER = {'ideal': {'get_V': ['T', 'P', 'n'], 'get_P': ['T', 'V', 'n'], 'get_T': ['V', 'P', 'n'],
                    'get_n': ['V', 'P', 'T']},
          'vdW': {'get_Vm': ['T', 'P', 'gas_phase'], 'get_V': ['T', 'P', 'n', 'gas_phase'], 'get_P': ['T', 'V', 'n'],
                  'get_T': ['V', 'P', 'n'], 'get_n': ['V', 'P', 'T', 'gas_phase'], 'get_Vc': ['n']}}


def _conv(typ, v):
    if typ == 'int':
        return int(v)
    if typ == 'np.int64':
        return np.int64(v)
    if typ == 'np.int32':
        return np.int32(v)
    if typ == 'np.bool_':
        return np.bool_(v)
    raise ValueError(typ)


def _subsets(names):
    for r in range(1, len(names) + 1):
        for c in itertools.combinations(names, r):
            yield c


def _k_calls(case, ctx):
    """One integer-valued state; every getter called in every convention, each against the reference."""
    Ideal, VdW = _eos()
    R = _R()
    kind = case['eos']
    a, b = case.get('a'), case.get('b')
    eos = Ideal() if kind == 'ideal' else VdW(a=a, b=b)
    vals = dict(T=float(case['T']), P=float(case['P']), n=float(case['n']), V=float(case['V']))

    def one(getter, kw, call, style):
        ref = _ref_call(kind, a, b, R, getter, kw)
        if ref is None:
            return
        exp, rtol, atol = ref
        ctx.evals()
        ctx.close('calling conventions: a getter returns the reference value however its arguments are given',
                  call(), exp, dict(eos=kind, what='calling convention', style=style, getter=getter), case,
                  rtol=rtol, atol=atol, scale=None if rtol else 1.0)

    for getter, order in _ORDER[kind].items():
        fn = getattr(eos, getter)
        num = [k for k in order if k != 'gas_phase']
        for gp in ((True, False) if 'gas_phase' in order else (None,)):
            kw = {k: vals[k] for k in num}
            if gp is not None:
                kw['gas_phase'] = gp
            one(getter, kw, lambda: fn(**kw), 'keyword')
            ctx.tag('calls:positional')
            one(getter, kw, lambda: fn(*[kw[k] for k in order]), 'positional')
            for typ in C_TYPES:
                for sub in _subsets(num):
                    ctx.tag('calls:typed:' + typ)
                    kt = dict(kw)
                    for k in sub:
                        kt[k] = _conv(typ, kw[k])
                    one(getter, kw, lambda: fn(**kt), typ)
            if gp is not None:
                for typ in C_FLAGS:
                    ctx.tag('calls:flag:' + typ)
                    kt = dict(kw, gas_phase=_conv(typ, gp))
                    one(getter, kw, lambda: fn(**kt), 'gas_phase as ' + typ)
        # arguments left to their defaults (T0, P0, V0, 1 mol, gas root)
        full = {k: vals[k] for k in num}
        if 'gas_phase' in order:
            full['gas_phase'] = False
        for sub in _subsets(order):
            ctx.tag('calls:omitted')
            kw = {k: v for k, v in full.items() if k not in sub}
            one(getter, kw, lambda: fn(**kw), 'omitted')


def _k_ctor_calls(case, ctx):
    """Constructors called positionally / with integer-typed numbers."""
    _, VdW = _eos()
    R = _R()
    sig = dict(eos='vdW', what='calling convention', getter='constructor')

    def judge(obj, a, b, crit, style):
        ctx.evals(3)
        s = dict(sig, style=style)
        ctx.close('calling conventions: the constructed object has the reference a, b', [obj.a, obj.b], [a, b], s,
                  case, rtol=1e-12)
        ctx.close('calling conventions: the constructed object has the reference critical constants',
                  [obj.get_Tc(), obj.get_Pc(), obj.get_Vc(n=2)],
                  [8.0 * a / (27.0 * b * R), a / (27.0 * b * b) / 1e5, 6.0 * b], s, case, rtol=1e-12)
        if crit:
            ctx.close('calling conventions: from_critical(Tc, Pc) reproduces Tc, Pc', [obj.get_Tc(), obj.get_Pc()],
                      crit, s, case, rtol=1e-8)
        T, P = 298.15, 1.0
        roots, margin = _roots(float(a), float(b), R * T, P * 1e5)
        if margin >= 1e-6:
            ctx.close('calling conventions: the constructed object selects the reference roots',
                      [obj.get_Vm(T=T, P=P, gas_phase=True), obj.get_Vm(T=T, P=P, gas_phase=False)],
                      [roots[-1], roots[0]], s, case, rtol=1e-8)

    if case['how'] == 'critical':
        tc, pc = case['Tc'], case['Pc']
        a, b = _crit_ab(tc, pc, R)
        ctx.tag('calls:ctor:positional')
        judge(VdW.from_critical(tc, pc), a, b, [tc, pc], 'positional')
        for typ in C_TYPES:
            for sub in _subsets(['Tc', 'Pc']):
                ctx.tag('calls:ctor:typed')
                kw = dict(Tc=tc, Pc=pc)
                for k in sub:
                    kw[k] = _conv(typ, kw[k])
                judge(VdW.from_critical(**kw), a, b, [tc, pc], typ)
    else:
        a, b = case['a'], case['b']
        ctx.tag('calls:ctor:positional')
        judge(VdW(a, b), a, b, None, 'positional')
        if float(a) == int(a):
            for typ in C_TYPES:
                ctx.tag('calls:ctor:int-a')
                judge(VdW(a=_conv(typ, a), b=b), a, b, None, typ)


_KINDS = {'ideal': _k_ideal, 'ideal-edge': _k_ideal_edge, 'vdw': _k_vdw, 'vdw-from-v': _k_vdw_from_v,
          'vdw-edge': _k_vdw_edge, 'limit': _k_limit, 'critical': _k_critical, 'critical-ab': _k_critical_ab,
          'reduced': _k_reduced, 'defaults': _k_defaults, 'history': _k_history, 'sweep': _k_sweep, 'calls': _k_calls,
          'ctor-calls': _k_ctor_calls}


def check_case(case, ctx):
    ctx.trace()
    return _KINDS[case['kind']](case, ctx)


def _run(ctx, case, nontrivial=True):
    ctx.state(case)
    if nontrivial:
        ctx.nontrivial(case)
    ctx.sample(case, limit=1)
    ctx.run_case(check_case, case, dict(eos=case.get('eos', 'vdW'), kind=case['kind']))


def run_shard(shard, ctx):
    tier = ctx.tier
    T, P, N = _lat(tier)
    kind = shard['kind']
    if kind == 'ideal':
        if shard['part'] == 0:
            for t, p, n in itertools.product(T, P, N):
                _run(ctx, dict(kind='ideal', eos='ideal', start='TPn', T=t, P=p, n=n), nontrivial=False)
            for t, n in itertools.product(T, N):
                for p1, p2 in zip(P, P[1:]):
                    _run(ctx, dict(kind='ideal-edge', eos='ideal', axis='P', T=t, P=[p1, p2], n=n), False)
            for t, p, (n, v) in itertools.product(C_T_Q if tier == 'quick' else C_T_T, C_P, C_NV):
                _run(ctx, dict(kind='calls', eos='ideal', T=t, P=p, n=n, V=v))
        else:
            _run(ctx, dict(kind='sweep', eos='ideal', T=T, P=P, n=N))
            for t, v, n in itertools.product(T, V_IDEAL, N):
                _run(ctx, dict(kind='ideal', eos='ideal', start='TVn', T=t, V=v, n=n))
            for p, n in itertools.product(P, N):
                for t1, t2 in zip(T, T[1:]):
                    _run(ctx, dict(kind='ideal-edge', eos='ideal', axis='T', P=p, T=[t1, t2], n=n), False)
    elif kind == 'vdw':
        a, b = gases(tier)[shard['gas']]
        g = shard['gas']
        for t, p in itertools.product(T, P):
            _run(ctx, dict(kind='vdw', gas=g, a=a, b=b, T=t, P=p, n=N))
        for t, vr, n in itertools.product(T, VR, N):
            _run(ctx, dict(kind='vdw-from-v', gas=g, a=a, b=b, T=t, vr=vr, n=n))
        tc = 8.0 * a / (27.0 * b * _R())
        for (tr, vr), n in itertools.product(RED_FROM_V, N):
            _run(ctx, dict(kind='vdw-from-v', gas=g, a=a, b=b, T=tr * tc, vr=3.0 * vr, n=n))
        for t in T:
            for p1, p2 in zip(P, P[1:]):
                _run(ctx, dict(kind='vdw-edge', gas=g, a=a, b=b, axis='P', T=t, P=[p1, p2]))
        for p in P:
            for t1, t2 in zip(T, T[1:]):
                _run(ctx, dict(kind='vdw-edge', gas=g, a=a, b=b, axis='T', P=p, T=[t1, t2]))
        _run(ctx, dict(kind='critical-ab', gas=g, a=a, b=b))
        _run(ctx, dict(kind='sweep', eos='vdW', gas=g, a=a, b=b, T=T, P=P, n=N))
        for t, p, (n, v) in itertools.product(C_T_Q if tier == 'quick' else C_T_T, C_P, C_NV):
            _run(ctx, dict(kind='calls', eos='vdW', gas=g, a=a, b=b, T=t, P=p, n=n, V=v))
        _run(ctx, dict(kind='ctor-calls', how='init', gas=g, a=a, b=b))
    elif kind == 'limit':
        for g, (a, b) in gases(tier).items():
            for t in T:
                _run(ctx, dict(kind='limit', gas=g, a=a, b=b, T=t))
    elif kind == 'critical':
        for pc in PC:
            _run(ctx, dict(kind='critical', Tc=shard['Tc'], Pc=pc, n=N))
            _run(ctx, dict(kind='ctor-calls', how='critical', Tc=shard['Tc'], Pc=pc))
    elif kind == 'reduced':
        for g, (a, b) in gases(tier).items():
            for tr, vr in itertools.product(TR, VRED):
                for n in (N[0], 1.0, N[-1]):
                    _run(ctx, dict(kind='reduced', gas=g, a=a, b=b, tr=tr, vr=vr, n=n))
    elif kind == 'defaults':
        _run(ctx, dict(kind='defaults', eos='ideal'))
        for g, (a, b) in gases(tier).items():
            _run(ctx, dict(kind='defaults', eos='vdW', gas=g, a=a, b=b))
    elif kind == 'history':
        gs = gases(tier)
        base, other = gs[shard['base']], gs[shard['other']]
        for ops in _histories(tier, base, other, shard['first']):
            _run(ctx, dict(kind='history', base=shard['base'], other=shard['other'], ops=ops))
    else:
        raise ValueError(kind)


LEVEL_TEXT = ('Lattice walk over the real IdealGasEOS and vanDerWaalsEOS getters: every (gas, T, P, n, root) and '
              '(gas, T, V, n) state and every isotherm / isobar edge of the stated lattices, with substitute-back, '
              'root selection against an exact-arithmetic solution of the cubic, linearity in n, the ideal-gas '
              'limit against the second virial coefficient, critical constants and the law of corresponding states; '
              'every bounded history of two or three objects built by every construction route with an edit in '
              'between, each object judged against its own a, b; every calling convention (positional, omitted, '
              'integer-typed arguments) of every getter against an independent reference of that getter.')
LEVEL_NOTE = ('T, P, n, V/b, (a, b) and (Tc, Pc) come from finite lattices (8 real gases + the corners / a 4x4 grid of '
              'the stated (a, b) box); substitute-back of P is judged against the size of the cancelling terms; '
              'states within 1e-6 of a double root are exempt from the root-count clauses only; object histories '
              'are 3 constructions + 1 edit long on 4 (quick) / 8 (thorough) pairs of real gases, queried at two states.')
TECHNIQUE = 'lattice walk with state invariants and edge laws on the implementation, exact-arithmetic reference roots'
