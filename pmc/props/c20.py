"""C20 - the ideal-gas and van der Waals equations of state invert consistently.

Shape C: lattice walk over (T, P, n) and (T, V, n) states of the real IdealGasEOS / vanDerWaalsEOS
objects; state invariants (solve for one variable, substitute back, recover the others; selected
root = reference root; V linear in n; critical constants) on every state, edge laws (Boyle /
Charles ratios, monotone volume along isotherms and isobars, approach to the ideal gas) on every
lattice edge.  Reference: exact-arithmetic bisection of the cubic, the law of corresponding states,
the second virial coefficient (pmc/ref/eos_ref.py).
"""
import itertools
import math

from pmc.ref import eos_ref as E

ID = 'C20'
RULE = ('every (gas, T, P, n, root) and (gas, T, V, n) state of the lattice, every isotherm / isobar edge between '
        'adjacent lattice points, every (Tc, Pc) pair; a state is non-trivial when it is a van der Waals state '
        'with three real roots, a liquid-root state, a state generated from V, or a critical-point construction')
ASSUMPTIONS = ['lattices of T, P, n, V/b, (a, b), (Tc, Pc) as stated in bounds',
               'substitute-back in P is judged against the size of the two terms RT/(Vm-b) and a/Vm^2 whose '
               'difference it is (DESIGN 3.4, identities); all other substitute-backs at 1e-8 relative',
               'a (T, P) state whose cubic has a nearly double root (margin < 1e-6) is exempt from the root-count '
               'clauses only',
               'gas constant: the library value R(J/mol/K); its accuracy is property C12']
EXPLANATION = ('every state is evaluated on the real EOS objects; expected volumes come from an exact-arithmetic '
               'bisection of the van der Waals cubic, pressures from the reduced equation of state')

T_Q = [50.0, 150.0, 298.15, 700.0, 3000.0]
P_Q = [1e-3, 0.1, 1.0, 30.0, 1e3]
N_Q = [1e-3, 1.0, 1e3]
T_T = [50.0, 90.0, 150.0, 220.0, 298.15, 450.0, 700.0, 1500.0, 3000.0]
P_T = [1e-3, 1e-2, 0.1, 1.0, 5.0, 30.0, 100.0, 300.0, 1e3]
N_T = [1e-3, 0.05, 1.0, 40.0, 1e3]
VR = [1.05, 1.5, 3.0, 10.0, 1e2, 1e4, 1e6]                  # molar volume in units of b, states from V
V_IDEAL = [1e-6, 1e-3, 0.0247895618937, 1.0, 1e3]           # m3
RED_FROM_V = [(tr, vr) for tr in (0.7, 0.85, 0.95) for vr in (0.5, 0.6, 0.7, 1.0, 2.0, 5.0, 20.0)]   # (T/Tc, V/Vc)
P_LIMIT = [1e-3, 1e-4, 1e-5, 1e-6]                          # bar, approach to the ideal gas
TC = [5.0, 33.0, 304.0, 647.0, 1000.0]
PC = [1.0, 13.0, 74.0, 221.0, 300.0]
TR = [0.7, 0.9, 1.0, 1.5]
VRED = [0.5, 0.8, 0.99, 1.0, 1.01, 2.0, 10.0]

PLANNED_TAGS = ['ideal:from-TPn', 'ideal:from-TVn', 'ideal:defaults', 'ideal:edge-P', 'ideal:edge-T',
                'vdw:three-roots', 'vdw:one-root', 'vdw:gas-root', 'vdw:liquid-root', 'vdw:supercritical',
                'vdw:subcritical', 'vdw:from-V:largest', 'vdw:from-V:smallest', 'vdw:from-V:middle',
                'vdw:from-V:negative-P', 'vdw:edge-P', 'vdw:edge-T', 'vdw:limit', 'critical:from_critical',
                'critical:from-ab', 'critical:reduced:subcritical', 'critical:reduced:critical',
                'critical:reduced:supercritical', 'vdw:defaults']


def _lat(tier):
    return (T_Q, P_Q, N_Q) if tier == 'quick' else (T_T, P_T, N_T)


def gases(tier):
    out = dict(E.GASES)
    if tier == 'quick':
        for a, b in itertools.product(E.BOX_A, E.BOX_B):
            out['box a=%g b=%g' % (a, b)] = (a, b)
    else:
        for a, b in itertools.product([0.003, 0.03, 0.3, 3.0], [1e-5, 3e-5, 8e-5, 2e-4]):
            out['box a=%g b=%g' % (a, b)] = (a, b)
    return out


def bounds(tier):
    T, P, N = _lat(tier)
    return dict(T=T, P_bar=P, n=N, gases=sorted(gases(tier)), roots=['gas', 'liquid'], V_over_b=VR,
                from_V_reduced=RED_FROM_V, V_ideal_m3=V_IDEAL, P_limit_bar=P_LIMIT, Tc=TC, Pc_bar=PC, T_reduced=TR, V_reduced=VRED)


def shards(tier):
    out = [dict(kind='ideal', part=k) for k in range(2)]
    out += [dict(kind='vdw', gas=g) for g in gases(tier)]
    out += [dict(kind='limit')]
    out += [dict(kind='critical', Tc=tc) for tc in TC]
    out += [dict(kind='reduced'), dict(kind='defaults')]
    return out


def _eos():
    from pmutt.eos import IdealGasEOS, vanDerWaalsEOS
    return IdealGasEOS, vanDerWaalsEOS


def _R():
    from pmutt import constants as c
    return c.R('J/mol/K')


# ------------------------------------------------------------------ ideal gas
def _k_ideal(case, ctx):
    Ideal, _ = _eos()
    eos = Ideal()
    T, n = case['T'], case['n']
    R = _R()
    sig = dict(eos='ideal', start=case['start'])
    if case['start'] == 'TPn':
        ctx.tag('ideal:from-TPn')
        P = case['P']
        V = eos.get_V(T=T, P=P, n=n)
        ctx.close('ideal gas: V = nRT/P', V, n * R * T / (P * 1e5), dict(sig, getter='get_V'), case, rtol=1e-12)
        ctx.close('ideal gas: volume is linear in amount', V, n * eos.get_V(T=T, P=P, n=1.0),
                  dict(sig, getter='get_V'), case, rtol=1e-12)
    else:
        ctx.tag('ideal:from-TVn')
        V = case['V']
        P = eos.get_P(T=T, V=V, n=n)
        ctx.close('ideal gas: P = nRT/V', P, n * R * T / V / 1e5, dict(sig, getter='get_P'), case, rtol=1e-12)
    ctx.evals(6)
    back = [eos.get_P(T=T, V=V, n=n), eos.get_V(T=T, P=P, n=n), eos.get_T(V=V, P=P, n=n),
            eos.get_n(V=V, P=P, T=T)]
    for name, o, e in zip(['get_P', 'get_V', 'get_T', 'get_n'], back, [P, V, T, n]):
        ctx.close('ideal gas: solving for one variable and substituting back returns the state', o, e,
                  dict(sig, getter=name), case, rtol=1e-8)


def _k_ideal_edge(case, ctx):
    Ideal, _ = _eos()
    eos = Ideal()
    ctx.trans()
    ctx.evals(2)
    n = case['n']
    if case['axis'] == 'P':
        ctx.tag('ideal:edge-P')
        T, (p1, p2) = case['T'], case['P']
        v1, v2 = eos.get_V(T=T, P=p1, n=n), eos.get_V(T=T, P=p2, n=n)
        ctx.close('ideal gas edge law: V1 P1 = V2 P2 on an isotherm', v1 * p1, v2 * p2,
                  dict(eos='ideal', edge='P'), case, rtol=1e-12)
    else:
        ctx.tag('ideal:edge-T')
        P, (t1, t2) = case['P'], case['T']
        v1, v2 = eos.get_V(T=t1, P=P, n=n), eos.get_V(T=t2, P=P, n=n)
        ctx.close('ideal gas edge law: V1/T1 = V2/T2 on an isobar', v1 / t1, v2 / t2,
                  dict(eos='ideal', edge='T'), case, rtol=1e-12)


# ------------------------------------------------------------------ van der Waals
def _terms(a, b, R, T, vm):
    return abs(R * T / (vm - b)) + abs(a / vm ** 2)


def _k_vdw(case, ctx):
    """One (gas, T, P) point: both roots, all n."""
    _, VdW = _eos()
    a, b, T, P = case['a'], case['b'], case['T'], case['P']
    R = _R()
    eos = VdW(a=a, b=b)
    roots, margin = E.vdw_roots(a, b, R * T, P * 1e5)
    ctx.tag('vdw:subcritical' if T < 8.0 * a / (27.0 * b * R) else 'vdw:supercritical')
    decided = margin >= 1e-6
    if decided:
        ctx.tag('vdw:three-roots' if len(roots) == 3 else 'vdw:one-root')
    regime = ('%d-root' % len(roots)) if decided else 'near-spinodal'
    vms = {}
    for root, gp in (('gas', True), ('liquid', False)):
        ctx.tag('vdw:%s-root' % root)
        sig = dict(eos='vdW', root=root, regime=regime)
        vm = eos.get_Vm(T=T, P=P, gas_phase=gp)
        ctx.evals()
        vms[root] = vm
        ref = roots[-1] if gp else roots[0]
        if decided:
            ctx.close('van der Waals: selected root = largest (gas) / smallest (liquid) real root of the cubic',
                      vm, ref, dict(sig, getter='get_Vm'), case, rtol=1e-8)
        else:
            ctx.true('van der Waals: selected root is a real root of the cubic',
                     min(abs(vm - r) / r for r in roots) < 1e-4 or margin < 1e-6, sig, case, vm, roots)
        ctx.true('van der Waals: molar volume exceeds the excluded volume b', vm > b, sig, case, vm, b)
        for n in case['n']:
            V = eos.get_V(T=T, P=P, n=n, gas_phase=gp)
            ctx.evals(4)
            ctx.close('van der Waals: volume is linear in amount', V, n * vm, dict(sig, getter='get_V'), case,
                      rtol=1e-12)
            pb = eos.get_P(T=T, V=V, n=n)
            ctx.close('van der Waals: P(T, V(T,P,n), n) = P on the selected root', pb * 1e5, P * 1e5,
                      dict(sig, getter='get_P'), case, rtol=0.0, atol=1e-10 * _terms(a, b, R, T, vm),
                      scale=1.0)
            ctx.close('van der Waals: T(V(T,P,n), P, n) = T on the selected root', eos.get_T(V=V, P=P, n=n), T,
                      dict(sig, getter='get_T'), case, rtol=1e-8)
            ctx.close('van der Waals: n(V(T,P,n), P, T) = n on the selected root',
                      eos.get_n(V=V, P=P, T=T, gas_phase=gp), n, dict(sig, getter='get_n'), case, rtol=1e-8)
    if decided:
        sig = dict(eos='vdW', regime=regime)
        if len(roots) == 3:
            ctx.true('van der Waals: inside the coexistence range the two roots differ',
                     vms['gas'] > vms['liquid'] * (1.0 + 1e-6), sig, case, vms, roots)
        else:
            ctx.close('van der Waals: with a single real root both selections return it', vms['gas'],
                      vms['liquid'], sig, case, rtol=1e-12)


def _k_vdw_from_v(case, ctx):
    """State generated from (T, V, n)."""
    _, VdW = _eos()
    a, b, T, vr, n = case['a'], case['b'], case['T'], case['vr'], case['n']
    R = _R()
    eos = VdW(a=a, b=b)
    vm = vr * b
    V = vm * n
    sig = dict(eos='vdW', start='TVn')
    P = eos.get_P(T=T, V=V, n=n)
    ctx.evals()
    exp = (R * T / (vm - b) - a / vm ** 2) / 1e5
    ctx.close('van der Waals: P = RT/(Vm-b) - a/Vm^2', P, exp, dict(sig, getter='get_P'), case, rtol=0.0,
              atol=1e-12 * _terms(a, b, R, T, vm) / 1e5, scale=1.0)
    tb = eos.get_T(V=V, P=P, n=n)
    ctx.evals()
    # T = (P + a/Vm^2)(Vm - b)/R : P itself carries the cancellation error of the two terms
    ctx.close('van der Waals: T(V, P(T,V,n), n) = T', tb, T, dict(sig, getter='get_T'), case, rtol=1e-8)
    if not P > 0:
        ctx.tag('vdw:from-V:negative-P')
        return
    roots, margin = E.vdw_roots(a, b, R * T, P * 1e5)
    # which root is vm?
    k = min(range(len(roots)), key=lambda i: abs(roots[i] - vm))
    ctx.true('van der Waals: the generating volume is a root of the cubic at the returned pressure',
             abs(roots[k] - vm) <= 1e-6 * vm or margin < 1e-6, sig, case, vm, roots)
    if margin < 1e-6:
        return
    dpdv = -R * T / (vm - b) ** 2 + 2.0 * a / vm ** 3          # Pa per (m3/mol)
    kappa = abs(P * 1e5 / (vm * dpdv))                         # d ln V / d ln P
    tol = 1e-8 * (1.0 + kappa) + 1e-12 * _terms(a, b, R, T, vm) / abs(vm * dpdv)
    last = len(roots) - 1
    which = 'largest' if k == last else 'smallest' if k == 0 else 'middle'
    ctx.tag('vdw:from-V:' + which)
    sel = []
    if k == last:
        sel.append(('gas', True))
    if k == 0:
        sel.append(('liquid', False))
    for root, gp in sel:
        s2 = dict(sig, root=root)
        ctx.evals(2)
        ctx.close('van der Waals: V(T, P(T,V,n), n) = V on the selected root',
                  eos.get_V(T=T, P=P, n=n, gas_phase=gp), V, dict(s2, getter='get_V'), case, rtol=tol)
        ctx.close('van der Waals: n(V, P(T,V,n), T) = n on the selected root',
                  eos.get_n(V=V, P=P, T=T, gas_phase=gp), n, dict(s2, getter='get_n'), case, rtol=tol)
    if not sel:
        # mechanically unstable branch: neither selection may return it
        ctx.evals(2)
        g = eos.get_V(T=T, P=P, n=n, gas_phase=True)
        liq = eos.get_V(T=T, P=P, n=n, gas_phase=False)
        ctx.true('van der Waals: the unstable middle root is never selected', liq < V < g, sig, case,
                 dict(V=V, gas=g, liquid=liq))


def _k_vdw_edge(case, ctx):
    _, VdW = _eos()
    eos = VdW(a=case['a'], b=case['b'])
    ctx.trans()
    ctx.evals(4)
    for root, gp in (('gas', True), ('liquid', False)):
        if case['axis'] == 'P':
            ctx.tag('vdw:edge-P')
            T, (p1, p2) = case['T'], case['P']
            v1, v2 = eos.get_Vm(T=T, P=p1, gas_phase=gp), eos.get_Vm(T=T, P=p2, gas_phase=gp)
            ctx.true('van der Waals edge law: selected volume decreases with pressure on an isotherm', v2 < v1,
                     dict(eos='vdW', edge='P', root=root), case, [v1, v2])
        else:
            ctx.tag('vdw:edge-T')
            P, (t1, t2) = case['P'], case['T']
            v1, v2 = eos.get_Vm(T=t1, P=P, gas_phase=gp), eos.get_Vm(T=t2, P=P, gas_phase=gp)
            ctx.true('van der Waals edge law: selected volume increases with temperature on an isobar', v2 > v1,
                     dict(eos='vdW', edge='T', root=root), case, [v1, v2])


def _k_limit(case, ctx):
    Ideal, VdW = _eos()
    a, b, T = case['a'], case['b'], case['T']
    R = _R()
    eos, ig = VdW(a=a, b=b), Ideal()
    ctx.tag('vdw:limit')
    sig = dict(eos='vdW', limit='ideal gas')
    deltas = []
    for P in P_LIMIT:
        ctx.evals(2)
        ctx.trans()
        d = eos.get_V(T=T, P=P, n=1.0) / ig.get_V(T=T, P=P, n=1.0) - 1.0
        deltas.append(d)
        b2 = E.second_virial(a, b, R * T) * P * 1e5 / (R * T)
        if abs(b2) < 2e-4:
            ctx.close('van der Waals -> ideal gas: V/V_ideal - 1 = B2 P/RT to first order', d, b2, sig, case,
                      rtol=0.0, atol=0.02 * abs(b2) + 4.0 * (b * P * 1e5 / (R * T)) ** 2 + 1e-13, scale=1.0)
    mags = [abs(d) for d in deltas]
    ctx.true('van der Waals -> ideal gas: relative difference shrinks as P -> 0',
             all(m2 < m1 or m1 < 1e-12 for m1, m2 in zip(mags, mags[1:])), sig, case, deltas)
    ctx.true('van der Waals -> ideal gas: relative difference < 1e-3 at the lowest pressure', mags[-1] < 1e-3, sig,
             case, mags[-1], '< 1e-3')
    ctx.outcome('van der Waals -> ideal gas: relative difference < 1e-3 at the lowest pressure', mags[-1])


# ------------------------------------------------------------------ critical constants
def _k_critical(case, ctx):
    _, VdW = _eos()
    tc, pc = case['Tc'], case['Pc']
    R = _R()
    ctx.tag('critical:from_critical')
    eos = VdW.from_critical(Tc=tc, Pc=pc)
    sig = dict(eos='vdW', what='critical constants')
    ctx.evals(2)
    ctx.close('from_critical(Tc, Pc): get_Tc / get_Pc reproduce Tc, Pc', [eos.get_Tc(), eos.get_Pc()], [tc, pc],
              dict(sig, getter='get_Tc/get_Pc'), case, rtol=1e-8)
    ctx.close('from_critical: a = 27 R^2 Tc^2 / (64 Pc), b = R Tc / (8 Pc)', [eos.a, eos.b],
              [27.0 * (R * tc) ** 2 / (64.0 * pc * 1e5), R * tc / (8.0 * pc * 1e5)],
              dict(sig, getter='from_critical'), case, rtol=1e-12)
    for n in case['n']:
        vc = eos.get_Vc(n=n)
        ctx.evals(2)
        ctx.close('Vc = 3 n b', vc, 3.0 * n * eos.b, dict(sig, getter='get_Vc'), case, rtol=1e-12)
        zc = pc * 1e5 * vc / (n * R * tc)
        ctx.true('critical compressibility Pc Vc / (n R Tc) = 3/8', abs(zc - 0.375) <= 1e-8, dict(sig, getter='get_Vc'),
                 case, zc, 0.375)
        ctx.close('the critical point lies on the equation of state: P(Tc, Vc, n) = Pc',
                  eos.get_P(T=tc, V=vc, n=n), pc, dict(sig, getter='get_P'), case, rtol=1e-8)


def _k_critical_ab(case, ctx):
    _, VdW = _eos()
    a, b = case['a'], case['b']
    R = _R()
    ctx.tag('critical:from-ab')
    eos = VdW(a=a, b=b)
    sig = dict(eos='vdW', what='critical constants', start='a,b')
    tc, pc = eos.get_Tc(), eos.get_Pc()
    ctx.evals(2)
    ctx.close('Tc = 8a/(27 b R), Pc = a/(27 b^2)', [tc, pc], [8.0 * a / (27.0 * b * R), a / (27.0 * b * b) / 1e5],
              dict(sig, getter='get_Tc/get_Pc'), case, rtol=1e-12)
    again = VdW.from_critical(Tc=tc, Pc=pc)
    ctx.close('from_critical(get_Tc, get_Pc) returns the parameters a, b', [again.a, again.b], [a, b],
              dict(sig, getter='from_critical'), case, rtol=1e-8)


def _k_reduced(case, ctx):
    _, VdW = _eos()
    a, b, tr, vr, n = case['a'], case['b'], case['tr'], case['vr'], case['n']
    eos = VdW(a=a, b=b)
    ctx.tag('critical:reduced:' + ('critical' if tr == 1.0 else 'subcritical' if tr < 1 else 'supercritical'))
    sig = dict(eos='vdW', what='corresponding states')
    tc, pc, vc = eos.get_Tc(), eos.get_Pc(), eos.get_Vc(n=n)
    ctx.evals(4)
    p = eos.get_P(T=tr * tc, V=vr * vc, n=n)
    exp = E.reduced_pressure(tr, vr)
    ctx.close('law of corresponding states: P/Pc = 8 Tr/(3 Vr - 1) - 3/Vr^2', p / pc, exp, sig, case, rtol=0.0,
              atol=1e-10 * (abs(8.0 * tr / (3.0 * vr - 1.0)) + 3.0 / vr ** 2), scale=1.0)


def _k_defaults(case, ctx):
    """Default arguments describe one state (T0, P0, V0, 1 mol)."""
    from pmutt import constants as c
    Ideal, VdW = _eos()
    if case['eos'] == 'ideal':
        ctx.tag('ideal:defaults')
        eos = Ideal()
        sig = dict(eos='ideal', start='defaults')
        ctx.evals(4)
        ctx.close('default arguments are one consistent ideal-gas state (T0, P0, V0, 1 mol)',
                  [eos.get_V(), eos.get_P(), eos.get_T(), eos.get_n()],
                  [c.R('J/mol/K') * 298.15 / 1e5, 1.0, 298.15, 1.0], sig, case, rtol=1e-12)
    else:
        ctx.tag('vdw:defaults')
        a, b = case['a'], case['b']
        eos = VdW(a=a, b=b)
        sig = dict(eos='vdW', start='defaults')
        ctx.evals(5)
        ctx.close('default arguments = explicit standard state', [eos.get_V(), eos.get_Vm(), eos.get_P(), eos.get_T(),
                                                                  eos.get_n(), eos.get_Vc()],
                  [eos.get_V(T=298.15, P=1.0, n=1.0, gas_phase=True), eos.get_Vm(T=298.15, P=1.0, gas_phase=True),
                   eos.get_P(T=298.15, V=c.V0('m3'), n=1.0), eos.get_T(V=c.V0('m3'), P=1.0, n=1.0),
                   eos.get_n(V=c.V0('m3'), P=1.0, T=298.15, gas_phase=True), eos.get_Vc(n=1.0)], sig, case,
                  rtol=1e-14)


_KINDS = {'ideal': _k_ideal, 'ideal-edge': _k_ideal_edge, 'vdw': _k_vdw, 'vdw-from-v': _k_vdw_from_v,
          'vdw-edge': _k_vdw_edge, 'limit': _k_limit, 'critical': _k_critical, 'critical-ab': _k_critical_ab,
          'reduced': _k_reduced, 'defaults': _k_defaults}


def check_case(case, ctx):
    ctx.trace()
    return _KINDS[case['kind']](case, ctx)


def _run(ctx, case, nontrivial=True):
    ctx.state(case)
    if nontrivial:
        ctx.nontrivial(case)
    ctx.sample(case, limit=1)
    ctx.run_case(check_case, case, dict(eos=case.get('eos', 'vdW'), kind=case['kind']))


def run_shard(shard, ctx):
    tier = ctx.tier
    T, P, N = _lat(tier)
    kind = shard['kind']
    if kind == 'ideal':
        if shard['part'] == 0:
            for t, p, n in itertools.product(T, P, N):
                _run(ctx, dict(kind='ideal', eos='ideal', start='TPn', T=t, P=p, n=n), nontrivial=False)
            for t, n in itertools.product(T, N):
                for p1, p2 in zip(P, P[1:]):
                    _run(ctx, dict(kind='ideal-edge', eos='ideal', axis='P', T=t, P=[p1, p2], n=n), False)
        else:
            for t, v, n in itertools.product(T, V_IDEAL, N):
                _run(ctx, dict(kind='ideal', eos='ideal', start='TVn', T=t, V=v, n=n))
            for p, n in itertools.product(P, N):
                for t1, t2 in zip(T, T[1:]):
                    _run(ctx, dict(kind='ideal-edge', eos='ideal', axis='T', P=p, T=[t1, t2], n=n), False)
    elif kind == 'vdw':
        a, b = gases(tier)[shard['gas']]
        g = shard['gas']
        for t, p in itertools.product(T, P):
            _run(ctx, dict(kind='vdw', gas=g, a=a, b=b, T=t, P=p, n=N))
        for t, vr, n in itertools.product(T, VR, N):
            _run(ctx, dict(kind='vdw-from-v', gas=g, a=a, b=b, T=t, vr=vr, n=n))
        tc = 8.0 * a / (27.0 * b * _R())
        for (tr, vr), n in itertools.product(RED_FROM_V, N):
            _run(ctx, dict(kind='vdw-from-v', gas=g, a=a, b=b, T=tr * tc, vr=3.0 * vr, n=n))
        for t in T:
            for p1, p2 in zip(P, P[1:]):
                _run(ctx, dict(kind='vdw-edge', gas=g, a=a, b=b, axis='P', T=t, P=[p1, p2]))
        for p in P:
            for t1, t2 in zip(T, T[1:]):
                _run(ctx, dict(kind='vdw-edge', gas=g, a=a, b=b, axis='T', P=p, T=[t1, t2]))
        _run(ctx, dict(kind='critical-ab', gas=g, a=a, b=b))
    elif kind == 'limit':
        for g, (a, b) in gases(tier).items():
            for t in T:
                _run(ctx, dict(kind='limit', gas=g, a=a, b=b, T=t))
    elif kind == 'critical':
        for pc in PC:
            _run(ctx, dict(kind='critical', Tc=shard['Tc'], Pc=pc, n=N))
    elif kind == 'reduced':
        for g, (a, b) in gases(tier).items():
            for tr, vr in itertools.product(TR, VRED):
                for n in (N[0], 1.0, N[-1]):
                    _run(ctx, dict(kind='reduced', gas=g, a=a, b=b, tr=tr, vr=vr, n=n))
    elif kind == 'defaults':
        _run(ctx, dict(kind='defaults', eos='ideal'))
        for g, (a, b) in gases(tier).items():
            _run(ctx, dict(kind='defaults', eos='vdW', gas=g, a=a, b=b))
    else:
        raise ValueError(kind)


LEVEL_TEXT = ('Lattice walk over the real IdealGasEOS and vanDerWaalsEOS getters: every (gas, T, P, n, root) and '
              '(gas, T, V, n) state and every isotherm / isobar edge of the stated lattices, with substitute-back, '
              'root selection against an exact-arithmetic solution of the cubic, linearity in n, the ideal-gas '
              'limit against the second virial coefficient, critical constants and the law of corresponding states.')
LEVEL_NOTE = ('T, P, n, V/b, (a, b) and (Tc, Pc) come from finite lattices (8 real gases + the corners / a 4x4 grid of '
              'the stated (a, b) box); substitute-back of P is judged against the size of the cancelling terms; '
              'states within 1e-6 of a double root are exempt from the root-count clauses only.')
TECHNIQUE = 'lattice walk with state invariants and edge laws on the implementation, exact-arithmetic reference roots'
