"""C05 - thermdat files written by pMuTT read back to the same species.

Shape B: deviation-bounded product over the fields of one species and the options of
write_thermdat / read_thermdat (all configurations that differ from the default in
0, 1, 2 coordinates; thorough adds 3 coordinates over reduced alphabets).
Shape A: every list of <= 3 (thorough: 4) species over a menu of 8 marked species
(names END / PENDANT / MYTHERMO, a repeated name, digits, 15 characters, Cu123 ...) is
written and read; the reader's line automaton (which record of which species comes
next) therefore sees every ordered succession of these species.

Oracles: (1) the independent fixed-column parser pmc/ref/thermdat.py must recover the
species from the *written text*; (2) read_thermdat must return what was written;
(3) a species read inside a collection must equal the same species written alone.
"""
import itertools
import json
import math
import os
import shutil
import tempfile

import numpy as np

from pmc.engine.core import HarnessError
from pmc.ref import thermdat as ref

ID = 'C05'
RULE = ('single species: every configuration that differs from the default species/options in at most '
        '2 (thorough: also 3, reduced alphabets) of the coordinates name, elements, phase, T bounds, 14 '
        'coefficients, notes, write_date, supp_data, supp_txt, container, read format, newline; lists: '
        'every ordered list of <= 3 (thorough 4) species over a menu of 8 marked species x container x '
        'format x newline, plus long lists up to 200; a case is non-trivial when the written file shows '
        'at least one feature the default file does not (branch tag); plus explicit families (both tiers): '
        'coefficients whose nine-digit rounding carries into the next decade in every position, names and notes '
        'with every punctuation character in first/middle/last position, every printable phase character, '
        'integer-typed numbers, boundary option values, objects edited in place between two writes, '
        'temperature bounds with non-terminating / long decimal expansions and on the 0.05 K rounding carries in '
        'every position, supplementary data that is itself a whole thermdat text (own THERMO header and END line) '
        'followed by the written species')
ASSUMPTIONS = [
    'field values come from the finite alphabets listed in bounds (placed on every column/width boundary '
    'of the format: 1/2-letter symbols x 1/2/3-digit counts, 15-character names, 6-character temperatures, '
    'both signs and exponent signs of coefficients, half-way rounding)',
    'a species whose name begins with "!" (record 1 would be a Chemkin comment line) may be refused by '
    'write_thermdat with a ValueError before anything is written; if it is written it must read back like any other',
    'extra families (both tiers, outside the deviation product): coefficients on the rounding boundary of the printed '
    'precision in every position, names/notes with every ASCII punctuation character first/middle/last and '
    'number-like names, every printable phase character, integer-typed coefficients/temperatures, boundary option '
    'values, species edited in place between two writes',
    'with read format dict and a repeated species name the dictionary cannot hold both; only "every entry is '
    'one of the written species of that name" is required there',
    'supplementary data blocks are well-formed Chemkin entries produced by the reference formatter, bare or '
    'wrapped as a complete thermdat text (THERMO header, default temperatures, END line; also the text returned '
    'by write_thermdat itself); a file whose supplementary data holds an END line must still read back to all '
    'species, those after that END included ("reading never silently drops species")',
]
EXPLANATION = ('explicit enumeration on the implementation: every case writes a real file with write_thermdat and '
               'reads it with read_thermdat; the written text is decoded by an independent fixed-column parser')

LEVEL_TEXT = ('Deviation-bounded product enumeration (complete at 0, 1 and 2 deviating coordinates; 3 in the '
              'thorough tier over reduced alphabets) of species fields and writer/reader options, and an '
              'explicit-state walk of the reader line automaton over every ordered list of up to 3 (4) species '
              'from a menu of 8 marked species; every file is decoded by an independent fixed-column parser and '
              'by read_thermdat and compared with what was written; each shard first runs a call history in its '
              'fresh process to show that a write/read does not depend on earlier calls.')
LEVEL_NOTE = ('Finite alphabets on the column/width boundaries of the format; lists up to 200 species; a name '
              'starting with "!" may be refused at write time (ValueError, no file); duplicate names with dict output '
              'only checked for "no foreign entry".')
TECHNIQUE = ('deviation-bounded exhaustive product enumeration + explicit-state exploration of the reader line '
             'automaton on the implementation, independent fixed-column reference parser as oracle')

N_SHARDS = 32

# ------------------------------------------------------------------ alphabets
A_DEFAULT = [3.65264072491, 1.06108515273e-03, 3.83455580617e-08, 3.84923664159e-10, -2.13953966838e-13,
             -3.02204928447e+04, 1.60236266512e+00,
             3.99524709336e+00, 5.18551442794e-04, -5.53026360158e-06, 1.85895538421e-08, -1.55138452967e-11,
             -3.02807840652e+04, -7.89384507713e-02]          # file order: a_high[0..6], a_low[0..6]
COEF_VALUES = [0.0, 1.0, -1.0, 1.23456789e30, -1.23456789e30, 1.23456789e-30, -1.23456789e-30,
               9.99999999e2, -9.99999999e2, 9.99999999e-2, -9.99999999e-2, 1.000000005]
COEF_VALUES_RED = [0.0, -1.23456789e30, 1.23456789e-30, 1.000000005]

NAMES = ['H2', 'A', 'ABCDEFGHIJKLMNO', '2BUTENE', '123', 'PENDANT', 'END', 'MYTHERMO', 'THERMO', 'CH3(S)',
         'X*', 'a.b-c']
PHASES = ['G', 'S', 'B', 'L']
TEMPS = [[100.0, 500.0, 1500.0], [1.0, 2.0, 3.0], [298.15, 1000.05, 9999.9]]
NOTES = [None, '', 'ab12cd34', 'abcdefghijkl', 'TRENDS18']
SUPP_TXT = [None, '!comment', '! two lines\n' + '! with END and THERMO and a 1 in column 80'.ljust(79) + '1\n',
            '!  100  200  300']
SUPP_DATA = [None, 'one', 'one-nonl', 'two']

SYM1 = ['H', 'O', 'C', 'N']
SYM2 = ['Cu', 'Pt', 'Ni', 'Zn']
COUNTS = [1, 2, 12, 123, 999]

SUPP_SPECIES = [
    dict(name='O2', notes='TPIS89', elements=[['O', 2]], phase='G', T_low=200.0, T_high=3500.0, T_mid=1000.0,
         a_high=[3.28253784, 1.48308754e-03, -7.57966669e-07, 2.09470555e-10, -2.16717794e-14, -1088.45772,
                 5.45323129],
         a_low=[3.78245636, -2.99673416e-03, 9.84730201e-06, -9.68129509e-09, 3.24372837e-12, -1063.94356,
                3.65767573]),
    dict(name='PT(B)', notes='', elements=[['Pt', 1]], phase='S', T_low=50.0, T_high=1500.0, T_mid=623.4,
         a_high=[1.5, -2.25e-03, 3.125e-06, -4.0625e-09, 5.03125e-12, -6.015625e+02, 7.0078125],
         a_low=[-8.5, 9.25e-02, -1.0125e-04, 1.10625e-07, -1.203125e-10, 1.3015625e+03, -14.0078125]),
]


def _slot(k, two, n, typ='int'):
    return [(SYM2 if two else SYM1)[k], n, typ]


def _elements_alphabet(tier):
    """Element configurations: list of [symbol, count, type] entries (type int|float|np)."""
    out = [[['H', 2, 'int']]]                                   # default first

    def add(cfg):
        if cfg not in out:
            out.append(cfg)
    # one entry: symbol length x count x {int, float}; np.int64 on two
    for typ in ('int', 'float'):
        for two in (0, 1):
            for n in COUNTS:
                add([_slot(0, two, n, typ)])
    add([_slot(0, 0, 12, 'np')])
    add([_slot(0, 1, 123, 'np')])
    # two entries: full product
    for t0, n0, t1, n1 in itertools.product((0, 1), COUNTS, (0, 1), COUNTS):
        add([_slot(0, t0, n0), _slot(1, t1, n1)])
    red = [(0, 1), (1, 12), (0, 123), (1, 123), (1, 999)]
    for n in (3, 4):
        if tier == 'thorough':
            for combo in itertools.product(red, repeat=n):
                add([_slot(k, c[0], c[1]) for k, c in enumerate(combo)])
        else:
            base = [red[0]] * n
            add([_slot(k, c[0], c[1]) for k, c in enumerate(base)])
            for r in red[1:]:
                add([_slot(k, r[0], r[1]) for k in range(n)])
            for i in range(n):
                for r in red[1:]:
                    c = list(base)
                    c[i] = r
                    add([_slot(k, v[0], v[1]) for k, v in enumerate(c)])
            for i in range(n - 1):                 # adjacent slots both deviating (field overflow into the next)
                for r, s in itertools.product(red[2:], repeat=2):
                    c = list(base)
                    c[i], c[i + 1] = r, s
                    add([_slot(k, v[0], v[1]) for k, v in enumerate(c)])
    # zero-count entries (omitted by the writer)
    add([['He', 0, 'int'], ['H', 2, 'int']])
    add([['H', 2, 'int'], ['He', 0, 'int']])
    add([['H', 2, 'int'], ['He', 0, 'float'], ['Cu', 123, 'int']])
    add([['He', 0, 'int'], ['Cu', 999, 'int'], ['O', 1, 'int']])
    add([['H', 1, 'int'], ['He', 0, 'int'], ['O', 12, 'int'], ['C', 1, 'int'], ['Pt', 4, 'int']])
    add([['H', 12, 'float'], ['Pt', 2, 'float'], ['He', 0, 'int'], ['C', 123, 'float']])
    return out


ELEMENTS_RED = [[['H', 2, 'int']], [['Cu', 123, 'int']], [['H', 999, 'int']], [['Cu', 2, 'float']],
                [['H', 12, 'float'], ['O', 1, 'int']],
                [['H', 1, 'int'], ['Pt', 12, 'int']], [['Cu', 999, 'int'], ['Pt', 123, 'int']],
                [['C', 1, 'int'], ['H', 123, 'int'], ['Ni', 12, 'int']],
                [['C', 1, 'int'], ['H', 2, 'int'], ['O', 3, 'int'], ['Pt', 4, 'int']],
                [['Cu', 999, 'int'], ['Pt', 999, 'int'], ['Ni', 999, 'int'], ['Zn', 999, 'int']],
                [['He', 0, 'int'], ['Cu', 999, 'int'], ['O', 1, 'int']],
                [['C', 123, 'int'], ['H', 123, 'int'], ['O', 123, 'int'], ['N', 123, 'int']]]


def _coords(tier, reduced=False):
    """Ordered list of (coordinate name, values); values[0] is the default."""
    co = [('name', NAMES),
          ('elements', ELEMENTS_RED if reduced else _elements_alphabet(tier)),
          ('phase', PHASES[:2] if reduced else PHASES),
          ('T', TEMPS)]
    cv = COEF_VALUES_RED if reduced else COEF_VALUES
    for k in range(14):
        co.append(('a%d' % k, [A_DEFAULT[k]] + cv))
    co += [('notes', NOTES), ('write_date', [True, False]), ('supp_data', SUPP_DATA), ('supp_txt', SUPP_TXT),
           ('container', ['list', 'dict']), ('fmt', ['list', 'tuple', 'dict']), ('newline', ['\n', '\r\n'])]
    return co


def _case_from(coords, dev):
    """dev: {coordinate index: value index}.  Returns the explicit case."""
    v = {name: vals[dev.get(i, 0)] for i, (name, vals) in enumerate(coords)}
    sp = dict(name=v['name'], elements=v['elements'], phase=v['phase'], T=v['T'],
              a=[v['a%d' % k] for k in range(14)], notes=v['notes'])
    return dict(kind='single', species=[sp], write_date=v['write_date'], supp_data=v['supp_data'],
                supp_txt=v['supp_txt'], container=v['container'], fmt=v['fmt'], newline=v['newline'])


def _deviations(coords, level):
    """All deviation dicts with exactly `level` deviating coordinates, in a fixed order."""
    idx = range(len(coords))
    for subset in itertools.combinations(idx, level):
        ranges = [range(1, len(coords[i][1])) for i in subset]
        for combo in itertools.product(*ranges):
            yield dict(zip(subset, combo))


# ------------------------------------------------------------------ menu for lists
def _marked(m):
    """14 coefficients that identify menu entry m: every value distinct within and across entries."""
    out = []
    for k in range(14):
        mant = 1.0 + m / 10.0 + k / 200.0 + 1.2345e-6
        expo = [0, -3, -7, -10, -13, 4, 0][k % 7]
        sign = -1.0 if (k + m) % 3 == 0 else 1.0
        out.append(sign * mant * 10.0 ** expo)
    return out


MENU = [
    dict(name='H2', elements=[['H', 2, 'int']], phase='G', T=[100.0, 500.0, 1500.0], notes=None),
    dict(name='END', elements=[['C', 1, 'int'], ['H', 12, 'int']], phase='G', T=[200.0, 1000.0, 3000.0], notes='n1'),
    dict(name='PENDANT', elements=[['Pt', 2, 'int']], phase='S', T=[298.15, 1000.05, 9999.9], notes=None),
    dict(name='MYTHERMO', elements=[['O', 123, 'int'], ['H', 1, 'int']], phase='L', T=[1.0, 2.0, 3.0], notes=''),
    dict(name='H2', elements=[['H', 2, 'int'], ['O', 1, 'int']], phase='G', T=[100.0, 600.0, 1500.0],
         notes='twin'),
    dict(name='123', elements=[['C', 1, 'int'], ['H', 2, 'int'], ['O', 3, 'int'], ['Pt', 4, 'int']], phase='B',
         T=[50.0, 400.0, 800.0], notes='abcdefghijkl'),
    dict(name='ABCDEFGHIJKLMNO', elements=[['Cu', 123, 'int'], ['He', 0, 'int'], ['N', 1, 'int']], phase='S',
         T=[300.0, 700.5, 2000.0], notes='ab12cd34'),
    dict(name='CH3(S)', elements=[['C', 1, 'float'], ['H', 3, 'float'], ['Ni', 12, 'float']], phase='S',
         T=[100.0, 550.0, 1200.0], notes=None),
]
for _m, _sp in enumerate(MENU):
    _sp['a'] = _marked(_m)

LONG_QUICK = [200]
LONG_THOROUGH = [5, 10, 50, 100, 199, 200]


def _long_list(n):
    out = []
    for i in range(n):
        sp = dict(MENU[i % 8])
        sp['name'] = sp['name'][:12] + '%03d' % i
        sp['a'] = [v * (1.0 + (i // 8) / 64.0) for v in sp['a']]
        out.append(sp)
    return out


def _list_cases(tier):
    maxlen = 3 if tier == 'quick' else 4
    for n in range(1, maxlen + 1):
        for ids in itertools.product(range(8), repeat=n):
            for container, fmt, newline in itertools.product(['list', 'dict'], ['list', 'tuple', 'dict'],
                                                             ['\n', '\r\n']):
                yield dict(kind='list', ids=list(ids), species=[MENU[i] for i in ids], write_date=(n % 2 == 1),
                           supp_data=None, supp_txt=None, container=container, fmt=fmt, newline=newline)
    for n in (LONG_QUICK if tier == 'quick' else LONG_THOROUGH):
        for container, fmt, newline in itertools.product(['list', 'dict'], ['list', 'tuple', 'dict'],
                                                         ['\n', '\r\n']):
            yield dict(kind='long', n=n, write_date=True, supp_data='two' if fmt == 'tuple' else None,
                       supp_txt='!long' if container == 'dict' else None, container=container, fmt=fmt,
                       newline=newline)


# ------------------------------------------------------------------ extra families (strengthening, both tiers)
PUNCT = '!"#$%&\'()*+,-./:;<=>?@[\\]^_`{|}~'                    # the 32 ASCII punctuation characters
PRINTABLE = ''.join(chr(c) for c in range(33, 127))            # the 94 non-blank printable ASCII characters
# mantissas around the point where rounding to nine significant digits carries into the next decade
CARRY_MANT = ['9.999999996', '9.9999999951', '9.999999995', '9.999999994', '9.99999999']
CARRY_DECADES = list(range(-30, 30))
CARRY_DECADES_RED = [-30, -10, -9, -5, -1, 0, 5, 9, 10, 29]
NAMES_SPECIAL = ['END!1', 'THERMO!x', 'END!', '!END', '!THERMO', 'END&', 'THERMO/', 'END=1', '0', '1', '2', '3', '4',
                 '12345678', '1.5E+05', 'E+05', '1E5', '1D5', '-1', '+1', '1.0', '.5', 'nan', 'inf', '100', '1500.0',
                 '-3.0220493E+04', 'end', 'thermo', 'End', 'G', 'S', 'H', 'He', 'H2O', '1.0000000E+00!',
                 '!23456789012345', '1!', '1&', '4/']
NOTES_SPECIAL = ['END', 'THERMO', 'END 1', 'THERMO A', '1', '4', '12345678', '1.5E+05', 'a b', 'a  b c', '1 2 3',
                 '100 500', ' x', 'x ', '   ', 'G', 'H   2', '!', '!!', 'END!', '! END']
INT_A = [3, 1, 0, -2, 5, -30220, 2, 4, -1, 7, 0, -3, -30281, 1]
# temperatures inside 1-9999.9 K that are not multiples of 0.1 K: non-terminating expansions (n/3, n/7), many
# decimals, just below / on / above the 0.05 K rounding point, values whose 0.1 K rounding is one character wider
# (9.96 -> 10.0, 99.95.. -> 100.0, 999.96 -> 1000.0) and the top of the range (9999.94.. -> 9999.9)
T_LONG = [1.04, 1.05, 10.0 / 3.0, 9.96, 100.0 / 7.0, 99.95000001, 1000.0 / 3.0, 812.3456789, 999.96, 1234.56789012,
          20000.0 / 7.0, 5000.04, 9999.94, 9999.9499999]
T_LONG_ELEMENTS = [[['H', 2, 'int']], [['Cu', 2, 'float']],
                   [['Cu', 999, 'int'], ['Pt', 999, 'int'], ['Ni', 999, 'int'], ['Zn', 999, 'int']],
                   [['C', 123, 'int'], ['H', 123, 'int'], ['O', 123, 'int'], ['N', 123, 'int']]]
# supplementary data that carries keyword lines of its own (see _supp_text)
SUPP_INNER = ['file-one', 'file-two', 'file-nonl', 'file-self', 'file-self-dated', 'two-files', 'end-only',
              'end-first', 'end-padded', 'end-comment', 'thermo-only']
SUPP_HDR = 'THERMO ALL\n   300.000  1000.000  5000.000\n'


def _dflt(**kw):
    sp = dict(name='H2', elements=[['H', 2, 'int']], phase='G', T=[100.0, 500.0, 1500.0], a=list(A_DEFAULT),
              notes=None)
    sp.update(kw)
    return sp


def _mk(m, name, elements, **kw):
    sp = dict(name=name, elements=elements, phase='G', T=[100.0, 500.0, 1500.0], a=_marked(m), notes=None)
    sp.update(kw)
    return sp


def _before():
    return _mk(8, 'CH4', [['C', 1, 'int'], ['H', 4, 'int']], T=[200.0, 1000.0, 3000.0])


def _after():
    return _mk(9, 'PT(S)', [['Pt', 1, 'int']], phase='S', T=[298.15, 1000.05, 9999.9], notes='after')


def _xcase(family, species, **opt):
    c = dict(kind='single' if len(species) == 1 else 'xlist', family=family, species=species, write_date=True,
             supp_data=None, supp_txt=None, container='list', fmt='list', newline='\n')
    c.update(opt)
    return c


def _carry_values(decades, mants):
    return [float('%s%se%d' % (sg, m, e)) for e in decades for sg in ('', '-') for m in mants]


def _extra_names():
    out = []
    for ch in PUNCT:
        out += [ch + 'CH2', 'CH' + ch + '2', 'CH2' + ch, ch, 'ABCDEFGHIJKLMN' + ch]
    out += NAMES_SPECIAL
    return list(dict.fromkeys(out))


def _extra_notes():
    out = []
    for ch in PUNCT:
        out += [ch + 'note', 'no' + ch + 'te', 'note' + ch, ch, 'abcdefg' + ch, 'abcdefgh' + ch]
    out += NOTES_SPECIAL
    return list(dict.fromkeys(out))


EDITS = [
    ('name', dict(name='CH3OH')), ('name-keyword', dict(name='END')), ('name-longer', dict(name='ABCDEFGHIJKLMNO')),
    ('elements-count', dict(elements=[['H', 12, 'int']])),
    ('elements-added', dict(elements=[['H', 2, 'int'], ['Pt', 123, 'int']])),
    ('elements-replaced', dict(elements=[['Cu', 1, 'int'], ['O', 2, 'int'], ['N', 3, 'int'], ['C', 4, 'int']])),
    ('phase', dict(phase='s')), ('T', dict(T=[298.15, 1000.05, 9999.9])),
    ('a_high[0]', dict(a_edit=[[0, -7.25]])), ('a_low[6]', dict(a_edit=[[13, 1.23456789e-30]])),
    ('a-all', dict(a_edit=[[k, v] for k, v in enumerate(_marked(5))])),
    ('notes', dict(notes='edited')),
]


def _extra_cases(tier):
    """Explicit cases outside the deviation product; the same in both tiers."""
    # --- A: coefficients on the rounding boundary of the printed precision
    for k in range(14):                                   # one position deviating
        for v in _carry_values(CARRY_DECADES_RED, CARRY_MANT[:2]):
            a = list(A_DEFAULT)
            a[k] = v
            yield _xcase('coef-carry:single', [_dflt(a=a)])
    for k in range(13):                                   # two adjacent fields carry
        for s0, s1 in itertools.product(('', '-'), repeat=2):
            a = list(A_DEFAULT)
            a[k], a[k + 1] = float(s0 + '9.999999996e5'), float(s1 + '9.9999999951e-10')
            yield _xcase('coef-carry:adjacent', [_dflt(a=a)], write_date=False)
    vals = _carry_values(CARRY_DECADES, CARRY_MANT)
    for r in range(len(vals)):                            # every value in every position (rotation)
        a = [vals[(r + 43 * k) % len(vals)] for k in range(14)]
        yield _xcase('coef-carry:rotation', [_dflt(a=a)], newline='\r\n' if r % 2 else '\n')
    # --- B: names with every punctuation character first / middle / last, number-like names, keywords
    for i, nm in enumerate(_extra_names()):
        yield _xcase('name', [_dflt(name=nm)])
        yield _xcase('name', [_dflt(name=nm)], write_date=False)
        yield _xcase('name', [_before(), _dflt(name=nm), _after()], fmt=['list', 'tuple'][i % 2])
        yield _xcase('name', [_before(), _dflt(name=nm), _after()], container='dict', fmt='dict', write_date=False)
    # --- C: notes (written when write_date=False) with the same characters
    for i, nt in enumerate(_extra_notes()):
        for nm in ('H2', 'ABCDEFGHIJKLMNO'):
            yield _xcase('notes', [_before(), _dflt(name=nm, notes=nt), _after()], write_date=False)
        yield _xcase('notes', [_dflt(notes=nt)], write_date=False, fmt='dict')
    # --- D: every printable phase character
    for i, ph in enumerate(PRINTABLE):
        yield _xcase('phase', [_dflt(phase=ph)])
        yield _xcase('phase', [_before(), _dflt(phase=ph), _mk(9, 'PT(S)', [['Pt', 1, 'int']], phase=ph.swapcase())],
                     container=['list', 'dict'][i % 2], fmt=['dict', 'list', 'tuple'][i % 3])
    # --- E: integer-typed and array-typed numbers
    for a_type, T_type in itertools.product([None, 'int', 'np-int', 'np-float', 'tuple'],
                                            [None, 'int', 'np-int', 'np-float']):
        if a_type is None and T_type is None:
            continue
        a = [float(v) for v in INT_A] if a_type in ('int', 'np-int') else list(A_DEFAULT)
        yield _xcase('typed', [_dflt(a=a, a_type=a_type, T_type=T_type)])
        yield _xcase('typed', [_before(), _dflt(a=a, a_type=a_type, T_type=T_type), _after()], container='dict')
    # --- F: boundary values of the options
    for wd in (True, False, 1, 0):
        for sd, st, nl in itertools.product([None, 'empty', 'one'], [None, '', '!c'], ['\n', '\r\n', None, '']):
            if sd in (None, 'one') and st in (None, '!c') and nl in ('\n', '\r\n') and wd in (True, False):
                continue                                  # already in the deviation product
            yield _xcase('options', [_dflt(notes='ab12cd34')], write_date=wd, supp_data=sd, supp_txt=st, newline=nl)
    # --- H: temperature bounds with long decimal expansions (the widest text a T field may have to hold)
    # every increasing triple whose bounds lie at least 0.5 K apart (the read clauses evaluate the species at the
    # mid-points of both ranges and 0.2 K either side of T_mid: closer bounds would put these points inside the
    # 0.1 K the statement allows T_mid to move): every value in every position it can take
    triples = [t for t in itertools.combinations(T_LONG, 3) if _t_apart(t)]
    for i, (lo, mid, hi) in enumerate(triples):
        yield _xcase('T-long', [_dflt(T=[lo, mid, hi])], write_date=bool(i % 2))
        yield _xcase('T-long', [_before(), _dflt(T=[lo, mid, hi]), _after()], write_date=not i % 2,
                     container=['list', 'dict'][i % 2], fmt=['list', 'tuple', 'dict'][i % 3])
    for v in T_LONG:                                      # one long value, the other two round; full composition
        for pos, T in enumerate(([v, 9999.0, 9999.9], [1.0, v, 9999.9], [1.0, 2.0, v])):
            if not _t_apart(T):
                continue
            for els in T_LONG_ELEMENTS:
                yield _xcase('T-long', [_dflt(T=T, elements=els)], write_date=False)
            yield _xcase('T-long', [_dflt(T=T, T_type='np-float')])
            yield _xcase('T-long', [_before(), _dflt(T=T, T_type='np-float', phase='S')], newline='\r\n')
    # --- I: supplementary data that is a whole thermdat text (own THERMO / END lines), species written after it
    afters = [[_dflt()], [_dflt(name='END')], [_mk(10, '2THERMO', [['C', 1, 'int'], ['O', 2, 'int']], phase='L'),
                                               _after()],
              [_mk(11, 'THERMO', [['Pt', 1, 'int']], phase='S'), _mk(12, 'END', [['C', 1, 'int'], ['H', 4, 'int']]),
               _before()]]
    for i, sd in enumerate(SUPP_INNER):
        for j, sp_list in enumerate(afters):
            for st in (None, '! new species\n! END of comment'):
                for container in ('list', 'dict'):
                    yield _xcase('supp-inner', sp_list, supp_data=sd, supp_txt=st, container=container,
                                 fmt=['list', 'tuple', 'dict'][(i + j) % 3], write_date=bool((i + j) % 2))
    # --- G: a species edited in place between two writes of the same objects
    for label, edit in EDITS:
        for container in ('list', 'dict'):
            yield dict(kind='edit', family='edit', label=label, species=[_dflt(notes='orig'), _before()], edit=edit,
                       write_date=(label != 'notes'), supp_data=None, supp_txt=None, container=container, fmt='list',
                       newline='\n')


# ------------------------------------------------------------------ call histories
def _plain(name, elements, phase='G', T=None, notes=None, m=0):
    return dict(name=name, elements=[[s, n, 'int'] for s, n in elements], phase=phase,
                T=T or [100.0, 500.0, 1500.0], notes=notes, a=_marked(m))


def _call(species, write_date=True, supp_data=None, supp_txt=None, container='list', fmt='list', newline='\n'):
    return dict(kind='call', species=species, write_date=write_date, supp_data=supp_data, supp_txt=supp_txt,
                container=container, fmt=fmt, newline=newline)


def _history_menu():
    return [
        _call([_plain('H2', [['H', 2]], m=0)]),
        _call([_plain('CO2', [['C', 1], ['O', 2]], notes='abc', m=1)], write_date=False),
        _call([_plain('PT(S)', [['Pt', 1]], phase='S', T=[298.15, 1000.05, 9999.9], m=2)], container='dict',
              newline='\r\n'),
        _call([_plain('H2O', [['H', 2], ['O', 1]], m=3), _plain('NH3', [['N', 1], ['H', 3]], m=4)], fmt='tuple'),
        _call([_plain('CH4', [['C', 1], ['H', 4]], m=5)], supp_data='one', fmt='dict'),
        _call([_plain('O', [['O', 1]], m=6)], supp_txt='!comment'),
        _call([_plain('CH3OH', [['C', 1], ['H', 4], ['O', 1]], phase='L', m=7)], write_date=False),
        _call([_plain('N2', [['N', 2]], m=8), _plain('AR', [['Ar', 1]], m=9), _plain('HE', [['He', 1]], m=10)],
              container='dict', fmt='dict'),
    ]


def _history_case(k):
    """History number k: call c0, then 1-4 other calls, then c0 again."""
    menu = _history_menu()
    n = len(menu)
    start, between = k % n, 1 + (k // n) % 4
    calls = [menu[start]] + [menu[(start + 1 + j) % n] for j in range(between)] + [menu[start]]
    return dict(kind='history', k=k, calls=calls)


C_H1 = 'repeatable: the same collection written and read again after other calls gives the same file and species'


def _outcome(call, env):
    """Observable result of one write+read: ('ok', file image, projections) or ('exc', type, where)."""
    from pmutt.io.thermdat import read_thermdat
    from pmc.engine.core import classify_exception
    try:
        objs = [_build(sp) for sp in call['species']]
        _write(objs, call, env.path)
        with open(env.path, 'rb') as f:
            image = f.read().decode('ascii')
        res = read_thermdat(env.path, format=call['fmt'])
        seq = list(res.values()) if isinstance(res, dict) else list(res)
        return ['ok', image, [_proj_nasa(o) for o in seq]]
    except Exception as e:
        where = classify_exception(e)
        if where is None:
            raise
        return ['exc', type(e).__name__, where]


def _evaluate_history(case, ctx, env):
    sig = dict(kind='history')

    def fn(case_, ctx_):
        outs = []
        for i, call in enumerate(case_['calls']):
            outs.append(_outcome(call, env))
            ctx_.trace()
            ctx_.trans()
            ctx_.state(('history', case_['k'], i))
        ctx_.tag('history:repeat-after-%d-calls' % (len(case_['calls']) - 2))
        first, last = outs[0], outs[-1]
        ok = ctx_.equal(C_H1, last, first, sig, case_)
        return ok
    res = {}

    def run(case_, ctx_):
        res['ok'] = fn(case_, ctx_)
    ctx.run_case(run, case, sig)
    return bool(res.get('ok'))


# ------------------------------------------------------------------ runner API
def bounds(tier):
    co = _coords(tier)
    b = dict(single_species_coordinates={n: len(v) for n, v in co},
             deviation_level_complete=2,
             names=NAMES, phases=PHASES, T_triples=TEMPS, coefficient_values=COEF_VALUES, notes=NOTES,
             element_configurations=len(co[1][1]),
             element_counts=COUNTS, list_menu=[m['name'] for m in MENU],
             list_max_length=3 if tier == 'quick' else 4,
             long_lists=LONG_QUICK if tier == 'quick' else LONG_THOROUGH,
             containers=['list', 'dict'], read_formats=['list', 'tuple', 'dict'], newlines=['\\n', '\\r\\n'],
             call_histories='%d (one per shard, first thing in a fresh process): call, 1-4 other calls, same call' % N_SHARDS)
    b['extra_families'] = dict(
        coefficient_carry=dict(mantissas=CARRY_MANT, decades_every_position_by_rotation=[-30, 29],
                               decades_single_deviation=CARRY_DECADES_RED, signs=2, positions=14),
        names=len(_extra_names()), names_rule='each of the 32 ASCII punctuation characters first/middle/last/alone/'
        'in column 15, number-like names, keyword + punctuation; alone, without date, inside a list of 3',
        notes=len(_extra_notes()), phases=len(PRINTABLE),
        typed_inputs=dict(coefficients=['int', 'np-int', 'np-float', 'tuple'], T=['int', 'np-int', 'np-float']),
        options=dict(write_date=[True, False, 1, 0], supp_data=[None, '', 'one entry'], supp_txt=[None, '', '!c'],
                     newline=['\\n', '\\r\\n', None, '']),
        edits_in_place=[e[0] for e in EDITS],
        T_long=dict(values=T_LONG, rule='every increasing triple with bounds >= 0.5 K apart (alone and as the middle species of three); each '
                    'value alone in T_low / T_mid / T_high with round neighbours x 4 compositions (1 to 4 slots, up '
                    'to column 44) and as numpy.float64'),
        supp_data_with_keyword_lines=dict(kinds=SUPP_INNER, species_after=['H2', 'END', '2THERMO+PT(S)',
                                                                           'THERMO+END+CH4'],
                                          supp_txt=[None, 'two comment lines'], containers=2),
        cases=sum(1 for _ in _extra_cases(tier)))
    if tier == 'thorough':
        b['deviation_level_3_reduced_coordinates'] = {n: len(v) for n, v in _coords(tier, True)}
    return b


def shards(tier):
    return [dict(k=k, n=N_SHARDS) for k in range(N_SHARDS)]


def _all_cases(tier):
    co = _coords(tier)
    for level in (0, 1, 2):
        for dev in _deviations(co, level):
            yield ('s', co, dev)
    if tier == 'thorough':
        cr = _coords(tier, True)
        for dev in _deviations(cr, 3):
            yield ('s', cr, dev)
    for case in _list_cases(tier):
        yield ('l', None, case)
    for case in _extra_cases(tier):
        yield ('x', None, case)


def run_shard(shard, ctx):
    k, n = shard['k'], shard['n']
    _selftest_reference()
    env = _Env()
    try:
        # the shard process is fresh here: first a call history (the stateless enumeration below is only
        # meaningful - and replayable - if a call's result does not depend on earlier calls)
        if not _evaluate_history(_history_case(k), ctx, env):
            ctx.refuse('shard stopped after its call history failed: per-case results would depend on call order')
            return
        for i, (kind, co, x) in enumerate(_all_cases(ctx.tier)):
            if i % n != k:
                continue
            case = _case_from(co, x) if kind == 's' else x
            _evaluate(case, ctx, env)
            if kind == 'x':
                if i % (37 * n) == k:
                    ctx.sample(case, limit=3)
            elif kind == 'l' or len(x) >= 2:
                ctx.sample(case if case['kind'] != 'list' else {q: case[q] for q in case if q != 'species'},
                           limit=2)
    finally:
        env.close()


def check_case(case, ctx):
    env = _Env()
    try:
        if case['kind'] == 'history':
            _evaluate_history(case, ctx, env)
        else:
            _evaluate(case, ctx, env)
    finally:
        env.close()


# ------------------------------------------------------------------ harness pieces
class _Env:
    def __init__(self):
        self.dir = tempfile.mkdtemp(prefix='pmc_c05_')
        self.path = os.path.join(self.dir, 'thermdat')
        self.alone = {}

    def close(self):
        shutil.rmtree(self.dir, ignore_errors=True)


def _selftest_reference():
    """The reference parser must decode what the reference formatter writes (harness sanity)."""
    for sp in SUPP_SPECIES:
        text = 'THERMO ALL\n   300.000  1000.000  5000.000\n' + ref.format_entry(sp) + '\nEND\n'
        res = ref.parse(text)
        if res['problems'] or len(res['species']) != 1:
            raise HarnessError('reference parser rejects reference formatter: %s' % res['problems'][:2])
        got = res['species'][0]
        for key in ('name', 'elements', 'phase', 'T_low', 'T_high', 'T_mid'):
            if got[key] != sp[key]:
                raise HarnessError('reference parser/formatter disagree on %s' % key)
        for a, b in zip(got['a_high'] + got['a_low'], sp['a_high'] + sp['a_low']):
            if abs(a - b) > 5e-9 * abs(b):
                raise HarnessError('reference parser/formatter disagree on a coefficient')


def _supp_text(key):
    if key is None:
        return None, []
    if key == 'empty':
        return '', []
    if key == 'one':
        return ref.format_entry(SUPP_SPECIES[0]) + '\n', [SUPP_SPECIES[0]]
    if key == 'one-nonl':
        return ref.format_entry(SUPP_SPECIES[1]), [SUPP_SPECIES[1]]
    if key == 'two':
        return ref.format_entry(SUPP_SPECIES[1]) + '\n' + ref.format_entry(SUPP_SPECIES[0]) + '\n', \
            [SUPP_SPECIES[1], SUPP_SPECIES[0]]
    if key in SUPP_INNER:
        e0, e1 = ref.format_entry(SUPP_SPECIES[0]), ref.format_entry(SUPP_SPECIES[1])
        s0, s1 = SUPP_SPECIES[0], SUPP_SPECIES[1]
        if key == 'file-one':
            return SUPP_HDR + e0 + '\nEND\n', [s0]
        if key == 'file-two':
            return SUPP_HDR + e1 + '\n' + e0 + '\nEND\n', [s1, s0]
        if key == 'file-nonl':
            return SUPP_HDR + e0 + '\nEND', [s0]
        if key in ('file-self', 'file-self-dated'):
            # the text write_thermdat itself returns for a library of two species (input here, not an oracle)
            from pmutt.io.thermdat import write_thermdat
            return write_thermdat([_build_supp(s1), _build_supp(s0)], write_date=(key == 'file-self-dated')), [s1, s0]
        if key == 'two-files':
            return SUPP_HDR + e0 + '\nEND\n' + SUPP_HDR + e1 + '\nEND\n', [s0, s1]
        if key == 'end-only':
            return e0 + '\nEND\n', [s0]
        if key == 'end-first':
            return 'END\n' + e1 + '\n', [s1]
        if key == 'end-padded':
            return SUPP_HDR + e0 + '\n' + 'END'.ljust(80) + '\n', [s0]
        if key == 'end-comment':
            return SUPP_HDR + e1 + '\nEND\n! species added to the library above\n', [s1]
        if key == 'thermo-only':
            return 'THERMO\n   300.000  1000.000  5000.000\n' + e1 + '\n', [s1]
    raise ValueError(key)


def _build_supp(sp):
    from pmutt.empirical.nasa import Nasa
    return Nasa(name=sp['name'], elements={s: n for s, n in sp['elements']}, phase=sp['phase'], T_low=sp['T_low'],
                T_mid=sp['T_mid'], T_high=sp['T_high'], a_high=list(sp['a_high']), a_low=list(sp['a_low']),
                notes=sp['notes'])


def _count(n, typ):
    if typ == 'int':
        return int(n)
    if typ == 'float':
        return float(n)
    if typ == 'np':
        return np.int64(n)
    raise ValueError(typ)


def _build(sp):
    from pmutt.empirical.nasa import Nasa
    els = {}
    for sym, n, typ in sp['elements']:
        els[sym] = _count(n, typ)
    T = [_typed_T(v, sp.get('T_type')) for v in sp['T']]
    return Nasa(name=sp['name'], elements=els, phase=sp['phase'], T_low=T[0], T_mid=T[1], T_high=T[2],
                a_high=_typed_a(sp['a'][:7], sp.get('a_type')), a_low=_typed_a(sp['a'][7:], sp.get('a_type')),
                notes=sp['notes'])


def _typed_T(v, typ):
    if typ is None:
        return v
    if typ == 'int':
        return _exact_int(v)
    if typ == 'np-int':
        return np.int64(_exact_int(v))
    if typ == 'np-float':
        return np.float64(v)
    raise ValueError(typ)


def _exact_int(v):
    if int(v) != v:
        raise HarnessError('integer-typed case with a non-integral value %r' % (v,))
    return int(v)


def _typed_a(vals, typ):
    if typ is None:
        return list(vals)
    if typ == 'int':
        return [_exact_int(v) for v in vals]
    if typ == 'np-int':
        return np.array([_exact_int(v) for v in vals], dtype=np.int64)
    if typ == 'np-float':
        return np.array(vals, dtype=np.float64)
    if typ == 'tuple':
        return tuple(vals)
    raise ValueError(typ)


def _expected(sp):
    """What must come back for a written species (independent of pMuTT)."""
    return dict(name=sp['name'], phase=sp['phase'],
                elements=sorted([s, int(n)] for s, n, _ in sp['elements'] if n != 0),
                T=[sp['T'][0], sp['T'][1], sp['T'][2]], a=list(sp['a']))


def _expected_supp(sp):
    return dict(name=sp['name'], phase=sp['phase'], elements=sorted([s, int(n)] for s, n in sp['elements']),
                T=[sp['T_low'], sp['T_mid'], sp['T_high']], a=list(sp['a_high']) + list(sp['a_low']))


def _proj_ref(sp):
    """Projection of a species decoded by the reference parser."""
    # zero counts are NOT filtered here: the statement says zero-count entries are omitted from the file
    return dict(name=sp['name'], phase=sp['phase'], elements=sorted([s, n] for s, n in sp['elements']),
                T=[sp['T_low'], sp['T_mid'], sp['T_high']], a=list(sp['a_high']) + list(sp['a_low']))


def _proj_nasa(obj):
    els = obj.elements if obj.elements is not None else {}
    return dict(name=obj.name, phase=obj.phase,
                elements=sorted([s, int(n)] for s, n in els.items() if n != 0),
                T=[float(obj.T_low), float(obj.T_mid), float(obj.T_high)],
                a=[float(v) for v in obj.a_high] + [float(v) for v in obj.a_low])


def _ident(p):
    return [p['name'], p['phase'], p['elements']]


def _digit9(exp):
    """One unit of the ninth significant digit of every expected coefficient (0 for 0)."""
    out = []
    for v in exp:
        out.append(0.0 if v == 0 else 10.0 ** (math.floor(math.log10(abs(v))) - 8))
    return out


def _name_class(name):
    c = []
    if 'END' in name:
        c.append('~END')
    if 'THERMO' in name:
        c.append('~THERMO')
    if name[:1].isdigit():
        c.append('digit-first')
    if len(name) >= 15:
        c.append('len15')
    if not name.isalnum():
        c.append('punct')
    if name.startswith('!'):
        c.append('bang-first')
    elif '!' in name:
        c.append('bang')
    if _number_like(name) and not name.isdigit():
        c.append('number-like')
    return c


def _number_like(text):
    try:
        float(text.replace('D', 'E').replace('d', 'e'))
    except ValueError:
        return False
    return True


def _phase_class(ph):
    return ('upper' if ph.isupper() else 'lower' if ph.islower() else 'digit' if ph.isdigit() else 'punct')


def _carries(v):
    """True when rounding v to nine significant digits gives a power of ten that v itself is not."""
    if v == 0:
        return False
    m, e = ('%.8e' % abs(v)).split('e')
    return m == '1.00000000' and abs(v) != float('1e' + e)


def _t_long(v):
    """True when the temperature needs more than two decimals (298.15 and 1000.05 of the old alphabet do not)."""
    return round(float(v), 2) != float(v)


def _t_apart(T):
    return T[1] - T[0] >= 0.5 and T[2] - T[1] >= 0.5


def _t_wider(v):
    """True when rounding to 0.1 K needs one more character than the integer part of the value has."""
    return len('%.1f' % v) > len('%d' % int(v)) + 2


def _elem_class(sp):
    c = []
    nz = [(s, n, t) for s, n, t in sp['elements'] if n != 0]
    if any(len(s) == 2 and n >= 100 for s, n, t in nz):
        c.append('sym2+count3')
    if any(t == 'float' for s, n, t in nz):
        c.append('float-count')
    return c


def _sig(case, species):
    names, elems, notes = set(), set(), set()
    for sp in species:
        names.update(_name_class(sp['name']))
        elems.update(_elem_class(sp))
        if not case['write_date'] and sp['notes'] and ('END' in sp['notes'] or 'THERMO' in sp['notes']):
            notes.add('~END')
        if not case['write_date'] and sp['notes'] and '!' in sp['notes']:
            notes.add('bang')
    sig = dict(kind='single' if case['kind'] == 'single' else 'list',
               name='+'.join(sorted(names)) or 'plain',
               elem='+'.join(sorted(elems)) or 'plain',
               nel=max(len([1 for e in sp['elements'] if e[1] != 0]) for sp in species),
               notes='+'.join(sorted(notes)) or 'plain')
    # keys below only appear for inputs outside the original alphabets (older signatures stay as they were)
    phases = set(_phase_class(sp['phase']) for sp in species if sp['phase'] not in PHASES)
    if phases:
        sig['phase'] = '+'.join(sorted(phases))
    if any(_carries(v) for sp in species for v in sp['a']):
        sig['coef'] = 'carry'
    typed = sorted(set(t for sp in species for t in (sp.get('a_type'), sp.get('T_type')) if t))
    if typed:
        sig['typed'] = '+'.join(typed)
    if any(_t_long(v) for sp in species for v in sp['T']):
        sig['T'] = 'long'
    if case['supp_data'] in SUPP_INNER:
        sig['supp'] = 'inner-keyword'
    opt = _opt_class(case)
    if opt:
        sig['opt'] = opt
    if case['kind'] == 'edit':
        sig['edit'] = case['label']
    return sig


def _opt_class(case):
    c = []
    if case['supp_data'] == 'empty':
        c.append('supp_data-empty')
    if case['supp_txt'] == '':
        c.append('supp_txt-empty')
    if case['newline'] in (None, ''):
        c.append('newline-' + ('none' if case['newline'] is None else 'empty'))
    if case['write_date'] is not True and case['write_date'] is not False:
        c.append('write_date-int')
    return '+'.join(c)


def _species_of(case):
    if case['kind'] == 'long':
        return _long_list(case['n'])
    return case['species']


def _evaluate(case, ctx, env):
    species = _species_of(case)
    sig = _sig(case, species)
    if case['kind'] == 'edit':
        ctx.run_case(lambda c, x: _evaluate_edit(c, x, env, species, sig), case, sig)
    else:
        ctx.run_case(lambda c, x: _evaluate_inner(c, x, env, species, sig), case, sig)


def _edited(sp, edit):
    """Species description after the edit (a new dict)."""
    new = json.loads(json.dumps(sp))
    for k, v in edit.items():
        if k == 'a_edit':
            for pos, val in v:
                new['a'][pos] = val
        else:
            new[k] = v
    return new


def _edit_in_place(obj, edit):
    """The same edit applied to the live Nasa object through its public attributes, in place where possible."""
    for k, v in edit.items():
        if k == 'a_edit':
            for pos, val in v:
                if pos < 7:
                    obj.a_high[pos] = val
                else:
                    obj.a_low[pos - 7] = val
        elif k == 'elements':
            obj.elements.clear()
            for sym, n, typ in v:
                obj.elements[sym] = _count(n, typ)
        elif k == 'T':
            obj.T_low, obj.T_mid, obj.T_high = v
        else:
            setattr(obj, k, v)


def _evaluate_edit(case, ctx, env, species, sig):
    """write+read, edit the first species object in place, write+read the same objects again."""
    objs = [_build(sp) for sp in species]
    coll = _collection(objs, case)
    _evaluate_inner(case, ctx, env, species, sig, objs=objs, coll=coll, stage=1)
    _edit_in_place(objs[0], case['edit'])
    species2 = [_edited(species[0], case['edit'])] + list(species[1:])
    ctx.tag('edit:in-place')
    ctx.trans()
    _evaluate_inner(case, ctx, env, species2, sig, objs=objs, coll=coll, stage=2)
    # the second file must be the file of freshly built objects with the new content
    fresh = _write([_build(sp) for sp in species2], case, None)
    again = _write(objs, case, None, coll=coll)
    ctx.true(C_E1, again == fresh, sig, case, observed=case['label'],
             expected='text of the edited objects == text of new objects with the same content')


DEFAULT_TAGS = {'date:on', 'notes:none', 'container:list', 'fmt:list', 'newline:lf'}


def _observe_tags(case, raw, parsed, species):
    """Branch tags, read off the written file wherever the file shows them."""
    tags = set()
    tags.add('newline:crlf' if b'\r\n' in raw else 'newline:lf')
    for sp in parsed['species']:
        nm = sp['name']
        if 'END' in nm:
            tags.add('name~END')
        if 'THERMO' in nm:
            tags.add('name~THERMO')
        if nm[:1].isdigit():
            tags.add('name:digit-first')
        if len(nm) == 15:
            tags.add('name:len15')
        if not nm.isalnum():
            tags.add('name:punct')
        if '!' in nm[1:]:
            tags.add('name:bang-inside')
        if _number_like(nm) and not nm.isdigit():
            tags.add('name:number-like')
        if sp['phase'] not in PHASES and sp['phase'] != ' ':
            tags.add('phase:' + _phase_class(sp['phase']))
        for s, n in sp['elements']:
            tags.add('elem:sym%d-count%d' % (len(s), len(str(n))))
        if len(sp['elements']) == 4:
            tags.add('elem:4-slots')
        if sp['phase'] != 'G':
            tags.add('phase:non-G')
        if sp['T_high'] is not None and sp['T_high'] >= 9999.0:
            tags.add('T:6-characters')
        if sp['T_low'] is not None and sp['T_low'] < 10.0:
            tags.add('T:3-characters')
        co = [v for v in sp['a_high'] + sp['a_low'] if v is not None]
        if any(v == 0 for v in co):
            tags.add('coef:zero')
        if any(abs(v) >= 1e29 for v in co):
            tags.add('coef:E+30')
        if any(0 < abs(v) <= 1e-29 for v in co):
            tags.add('coef:E-30')
    for sp in species:
        if any(n == 0 for s, n, t in sp['elements']):
            tags.add('elem:zero-count-omitted')
        if any(t == 'float' and n != 0 for s, n, t in sp['elements']):
            tags.add('elem:float-count')
        if any(t == 'np' for s, n, t in sp['elements']):
            tags.add('elem:np.int64-count')
        if any(v == 1.000000005 for v in sp['a']):
            tags.add('coef:half-way-rounding')
        if any(_carries(v) for v in sp['a']):
            tags.add('coef:carry-to-next-decade')
        if sp.get('a_type') in ('int', 'np-int'):
            tags.add('typed:int-coefficients')
        if sp.get('T_type') in ('int', 'np-int'):
            tags.add('typed:int-T')
        if any(_t_long(v) for v in sp['T']):
            tags.add('T:more-than-2-decimals')
        if any(_t_wider(v) for v in sp['T']):
            tags.add('T:rounds-up-to-a-wider-text')
        if not case['write_date'] and sp['notes'] and '!' in sp['notes'][:8]:
            tags.add('notes:bang')
        if not case['write_date']:
            nt = sp['notes']
            tags.add('notes:none' if nt is None else 'notes:empty' if nt == '' else
                     'notes:truncated' if len(nt) > 8 else 'notes:8' if len(nt) == 8 else 'notes:short')
            if nt and 'END' in nt:
                tags.add('notes~END')
    tags.add('date:on' if case['write_date'] else 'date:off')
    for o in _opt_class(case).split('+'):
        if o:
            tags.add('opt:' + o)
    if case['supp_data'] is not None:
        tags.add('supp_data')
        if case['supp_data'] == 'one-nonl':
            tags.add('supp_data:no-trailing-newline')
        if case['supp_data'] in SUPP_INNER:
            if parsed.get('n_end', 0) > 1:
                tags.add('supp_data:inner-END-line')
            if parsed['counts'].get('keyword', 0) - parsed.get('n_end', 0) > 1:
                tags.add('supp_data:inner-THERMO-line')
    if parsed['counts'].get('comment'):
        tags.add('supp_txt')
    tags.add('container:' + case['container'])
    tags.add('fmt:' + case['fmt'])
    names = [sp['name'] for sp in species]
    if len(set(names)) < len(names):
        tags.add('list:repeated-name')
    if len(species) >= 200:
        tags.add('list:200')
    if len(species) > 1:
        for i, nm in enumerate(names):
            if 'END' in nm or 'THERMO' in nm:
                tags.add('list:keyword-name-first' if i == 0 else 'list:keyword-name-after-another')
    return tags


PLANNED_TAGS = ['name~END', 'name~THERMO', 'name:digit-first', 'name:len15', 'name:punct',
                'elem:sym1-count1', 'elem:sym1-count2', 'elem:sym1-count3', 'elem:sym2-count1', 'elem:sym2-count2',
                'elem:sym2-count3', 'elem:4-slots', 'elem:zero-count-omitted', 'elem:float-count',
                'elem:np.int64-count', 'phase:non-G', 'T:6-characters', 'T:3-characters', 'coef:zero', 'coef:E+30',
                'coef:E-30', 'coef:half-way-rounding', 'notes:none', 'notes:empty', 'notes:8', 'notes:truncated',
                'notes~END', 'date:on', 'date:off', 'supp_data', 'supp_data:no-trailing-newline', 'supp_txt',
                'container:list', 'container:dict', 'fmt:list', 'fmt:tuple', 'fmt:dict', 'newline:lf',
                'newline:crlf', 'list:repeated-name', 'list:200', 'list:keyword-name-first',
                'list:keyword-name-after-another', 'history:repeat-after-1-calls', 'history:repeat-after-4-calls',
                'name:bang-inside', 'name:bang-first', 'name:number-like', 'phase:lower', 'phase:digit', 'phase:punct',
                'coef:carry-to-next-decade', 'typed:int-coefficients', 'typed:int-T', 'notes:bang',
                'opt:supp_data-empty', 'opt:supp_txt-empty', 'opt:newline-none', 'opt:newline-empty',
                'opt:write_date-int', 'edit:in-place', 'reread:after-editing-the-first-result',
                'T:more-than-2-decimals', 'T:rounds-up-to-a-wider-text', 'supp_data:inner-END-line',
                'supp_data:inner-THERMO-line']

C_L1 = 'layout: every line is a header/comment/END line or an 80-column record numbered 1-4 in column 80, in sequence'
C_L2 = 'layout: fixed-column parser finds as many species in the text as were written'
C_L3 = ('layout: names (col 1-), composition (col 25-44, zero counts omitted) and phase (col 45) decode to the '
        'written species, in order')
C_L4 = 'layout: T bounds in columns 46-75 equal to 0.1 K'
C_L5 = 'layout: 15-character coefficient fields carry the 14 coefficients to 9 significant digits'
C_L6 = 'text returned without filename is the file image; newline option honoured'
C_R1 = 'read: as many species as written (none dropped, duplicated or merged)'
C_R2 = 'read: names, phases and element counts identical and in order'
C_R3 = 'read: T_low/T_mid/T_high equal to 0.1 K'
C_R4 = 'read: 14 coefficients equal to 9 significant digits'
C_R5 = 'read: CpoR/HoRT/SoR of the read species agree with the written species'
C_R6 = 'read: result container follows format (list/tuple/dict keyed by name)'
C_D1 = 'differential: species read inside a collection equals the same species written alone'
C_W1 = 'refusal: a write refused because of a name starting with "!" raises for file and text alike and leaves no file'
C_K1 = "caller's data: the species objects and the collection passed to write_thermdat are unchanged afterwards"
C_F1 = 'fresh: a second read of the same file equals the first after the first result was edited in place'
C_F2 = 'fresh: editing the read result changes neither the written objects nor the text of a second write'
C_E1 = 'edit: the second write of objects edited in place is the file of their new content'


def _collection(objs, case):
    if case['container'] == 'dict':
        return {'k%d' % i: o for i, o in enumerate(objs)}
    return list(objs)


def _write(objs, case, filename, coll=None):
    from pmutt.io.thermdat import write_thermdat
    supp, _ = _supp_text(case['supp_data'])
    if coll is None:
        coll = _collection(objs, case)
    return write_thermdat(coll, filename=filename, write_date=case['write_date'], supp_data=supp,
                          supp_txt=case['supp_txt'], newline=case['newline'])


def _snap(obj):
    """Everything write_thermdat may look at, with types (to compare an object before and after a call)."""
    def arr(a):
        return [type(a).__name__, str(getattr(a, 'dtype', '')), [repr(v) for v in a]]
    return dict(name=obj.name, phase=obj.phase, notes=obj.notes,
                elements=[[k, repr(v)] for k, v in obj.elements.items()],
                T=[repr(obj.T_low), repr(obj.T_mid), repr(obj.T_high)], a_high=arr(obj.a_high), a_low=arr(obj.a_low))


def _snap_coll(coll):
    if isinstance(coll, dict):
        return ['dict', [[k, id(v)] for k, v in coll.items()]]
    return [type(coll).__name__, [id(v) for v in coll]]


def _alone(sp, case, env):
    """Projection of `sp` written alone (list container, default format) and read back."""
    from pmutt.io.thermdat import write_thermdat, read_thermdat
    key = json.dumps([sp, case['write_date'], case['newline']], sort_keys=True)
    if key not in env.alone:
        path = env.path + '_alone'
        write_thermdat([_build(sp)], filename=path, write_date=case['write_date'], newline=case['newline'])
        got = read_thermdat(path)
        env.alone[key] = [_proj_nasa(o) for o in got]
    return env.alone[key]


def _evaluate_inner(case, ctx, env, species, sig, objs=None, coll=None, stage=None):
    from pmutt.io.thermdat import read_thermdat
    if objs is None:
        objs = [_build(sp) for sp in species]
    if coll is None:
        coll = _collection(objs, case)
    _, supp_species = _supp_text(case['supp_data'])
    expected = [_expected_supp(s) for s in supp_species] + [_expected(sp) for sp in species]
    n_supp = len(supp_species)
    snap = [[_snap(o) for o in objs], _snap_coll(coll)]
    extra = case.get('family') is not None

    # ---- write (file and string)
    if any(sp['name'].startswith('!') for sp in species):
        # record 1 of such a species is a comment line of the format: the writer may refuse it (ValueError, nothing
        # written); if it writes, everything below applies as for any other name
        ctx.tag('name:bang-first')
        if os.path.exists(env.path):
            os.remove(env.path)
        refused = []
        for fn in (env.path, None):
            try:
                _write(objs, case, fn, coll=coll)
            except ValueError:
                refused.append(fn)
        if refused:
            ctx.trace()
            ctx.state(dict(case))
            ctx.nontrivial(dict(case))
            ctx.true(C_W1, len(refused) == 2 and not os.path.exists(env.path), sig, case,
                     observed=[len(refused), os.path.exists(env.path)], expected=[2, False])
            ctx.true(C_K1, [[_snap(o) for o in objs], _snap_coll(coll)] == snap, sig, case)
            ctx.refuse('write_thermdat refuses a species name starting with "!" (record 1 would be a comment line)')
            return
    _write(objs, case, env.path, coll=coll)
    text_ret = _write(objs, case, None, coll=coll)
    ctx.trace()
    with open(env.path, 'rb') as f:
        raw = f.read()
    image = raw.decode('ascii')
    nl = case['newline'] if case['newline'] else '\n'        # None / '' : no translation of the '\n' written
    ok6 = ctx.true(C_L6, isinstance(text_ret, str) and image == text_ret.replace('\n', nl), sig, case,
                   observed=len(image), expected='file image == returned text with the requested newline')

    # ---- oracle 1: independent fixed-column parser on the written text
    # a whole thermdat text as supplementary data brings its own END line: records may follow it, the data
    # must still close with END (every other case: any record after END is a layout problem, as before)
    parsed = ref.parse(image, inner_end=case['supp_data'] in SUPP_INNER)
    ctx.trans(sum(parsed['counts'].values()))
    tags = _observe_tags(case, raw, parsed, species)
    for t in tags:
        ctx.tag(t)
    key = dict(case) if case['kind'] != 'list' else {q: case[q] for q in case if q != 'species'}
    if stage is not None:
        key['stage'] = stage
    ctx.state(key)
    if case['kind'] in ('list', 'long'):
        ids = case.get('ids') or ['long%d' % case['n']]
        for i in range(len(ids) if case['kind'] == 'list' else 1):
            for rec in (1, 2, 3, 4):
                ctx.state(('automaton', ids[:i], rec))
    if tags - DEFAULT_TAGS - {'elem:sym1-count1'}:
        ctx.nontrivial(key)

    ctx.true(C_L1, not parsed['problems'], sig, case, observed=parsed['problems'][:3] or 'ok', expected='ok')
    got_ref = [_proj_ref(s) for s in parsed['species']]
    if ctx.equal(C_L2, len(got_ref), len(expected), sig, case):
        if ctx.equal(C_L3, [_ident(p) for p in got_ref], [_ident(p) for p in expected], sig, case):
            _numeric(ctx, C_L4, C_L5, got_ref, expected, sig, case)

    # ---- oracle 2: read_thermdat
    res = read_thermdat(env.path, format=case['fmt'])
    ctx.evals()
    ctx.true(C_K1, [[_snap(o) for o in objs], _snap_coll(coll)] == snap, sig, case)
    names_exp = [p['name'] for p in expected]
    fmt = case['fmt']
    if fmt == 'dict':
        okc = isinstance(res, dict) and all(k == getattr(v, 'name', None) for k, v in res.items())
        ctx.true(C_R6, okc, sig, case, observed=[type(res).__name__, len(res) if okc else None],
                 expected='dict keyed by species name')
        if not okc:
            return
        seq = list(res.values())
        if len(set(names_exp)) < len(names_exp):
            # repeated names cannot all live in a dict: every entry must still be one written species
            uniq = list(dict.fromkeys(names_exp))
            ctx.equal('read: with a repeated name the dict holds every distinct name once, in order',
                      list(res.keys()), uniq, sig, case)
            for k, v in res.items():
                p = _proj_nasa(v)
                cands = [e for e in expected if e['name'] == k]
                hit = [e for e in cands if _ident(e) == _ident(p) and
                       all(abs(a - b) <= 0.5000005 * d for a, b, d in zip(p['a'], e['a'], _digit9(e['a']))) and
                       all(abs(a - b) <= 0.1000001 for a, b in zip(p['T'], e['T']))]
                ctx.true('read: with a repeated name every dict entry is exactly one of the written species',
                         len(hit) >= 1, sig, case, observed=_ident(p), expected='one of %d written' % len(cands))
            return
    else:
        typ = list if fmt == 'list' else tuple
        okc = type(res) is typ
        ctx.true(C_R6, okc, sig, case, observed=type(res).__name__, expected=typ.__name__)
        if not okc:
            return
        seq = list(res)
    got = [_proj_nasa(o) for o in seq]
    if not ctx.equal(C_R1, len(got), len(expected), sig, case):
        return
    if not ctx.equal(C_R2, [_ident(p) for p in got], [_ident(p) for p in expected], sig, case):
        return
    _numeric(ctx, C_R3, C_R4, got, expected, sig, case)

    # thermodynamic values of the written pMuTT species against the written ones
    for obj_w, obj_r, sp in zip(objs, seq[n_supp:], species):
        T_low, T_mid, T_high = sp['T']
        for T in (0.5 * (T_low + T_mid), T_mid - 0.2, T_mid + 0.2, 0.5 * (T_mid + T_high)):
            a = sp['a'][7:] if T < T_mid else sp['a'][:7]
            _, mags = ref.nasa7(a, T)
            obs = [obj_r.get_CpoR(T=T), obj_r.get_HoRT(T=T), obj_r.get_SoR(T=T)]
            exp = [obj_w.get_CpoR(T=T), obj_w.get_HoRT(T=T), obj_w.get_SoR(T=T)]
            ctx.evals(6)
            ctx.close(C_R5, obs, exp, sig, case, rtol=1e-8, atol=0.0, scale=list(mags))
        if len(species) > 8:
            break                                   # long lists: first species only (the rest by coefficients)

    # ---- second read / fresh results (extra families only: one more read and write per case)
    if extra:
        for o in seq:
            o.name = str(o.name) + 'x'
            o.phase = 'Q'
            o.elements['Zz'] = 7
            o.a_high[0] += 1.0
            o.a_low[6] = -o.a_low[6] - 1.0
            o.T_mid = o.T_mid + 1.0
        if isinstance(res, dict):
            res['zz'] = None
        elif isinstance(res, list):
            res.append(None)
        res2 = read_thermdat(env.path, format=fmt)
        ctx.evals()
        ctx.tag('reread:after-editing-the-first-result')
        seq2 = list(res2.values()) if isinstance(res2, dict) else list(res2)
        ctx.true(C_F1, type(res2) is type(res) and [_proj_nasa(o) for o in seq2] == got, sig, case,
                 observed=len(seq2), expected='same container type and the same species as the first read')
        text3 = _write(objs, case, None, coll=coll)
        ctx.true(C_F2, text3 == text_ret and [[_snap(o) for o in objs], _snap_coll(coll)] == snap, sig, case,
                 observed=len(text3), expected='second write == first write; written objects untouched')

    # ---- oracle 3: differential, only when the file holds more than one species
    if len(expected) > 1 and case['kind'] != 'long':
        for i, sp in enumerate(species):
            alone = _alone(sp, case, env)
            ctx.equal(C_D1, [got[n_supp + i]], alone, sig, case)
    elif case['kind'] == 'long':
        for i in (0, 1, len(species) // 2, len(species) - 1):
            alone = _alone(species[i], case, env)
            ctx.equal(C_D1, [got[n_supp + i]], alone, sig, case)


def _numeric(ctx, clause_T, clause_a, got, expected, sig, case):
    for p, e in zip(got, expected):
        if any(v is None for v in p['T'] + p['a']):
            ctx.fail(clause_T if any(v is None for v in p['T']) else clause_a, sig, case,
                     observed='unreadable number', expected='number')
            continue
        ctx.close(clause_T, p['T'], e['T'], sig, case, rtol=0.0, atol=0.1 * (1 + 1e-12))
        ctx.close(clause_a, p['a'], e['a'], sig, case, rtol=0.5 * (1 + 1e-6), atol=0.0, scale=_digit9(e['a']))
