"""C03 - fitted NASA-7 / NASA-9 / Shomate polynomials anchor to the reference, join continuously,
track the source.

Shape B (product enumeration of fit configurations) + Shape C (lattice walk over the fitted
range).  Every case is one call of the real from_data / from_model; the oracles are

  * the reference enthalpy / entropy the caller handed in (anchor),
  * one-sided values of the fitted object's own public getters at every break (continuity),
  * min / max of the data (bounds),
  * closed-form integrals of the generating polynomial(s) (pmc/ref/c03_poly.py; same-family data),
  * the source model's own getters (StatMech sources; thresholds per window class).
"""
import itertools
import math

import numpy as np

from pmc.ref import c03_poly as rp

ID = 'C03'
RULE = ('product family x source x window x n_T x T_mid-form x T_ref-position (from_data: complete; '
        'from_model: 2-deviation product in quick, complete in thorough), each fitted object walked over '
        'a 101-point temperature lattice plus both neighbours of every break; a case is non-trivial when '
        'its branch vector (anchoring branch, source kind, T_mid form, number of segments) differs from '
        'that of the default case (single polynomial, T_mid None, T_ref in the first segment). Parts C / D: '
        'call HISTORIES on caller-owned data (fit, fit again from the very same objects, look at the first fit '
        'again, overwrite the results, edit Cp/R in place, fit once more) enumerated over row order x container / '
        'dtype x source x second call (complete) and, deviation-bounded, window, T_mid form, T_ref position and '
        'type; every fit of a history is judged by the oracles of parts A / B. Part E: NASA-7 T_mid candidate LISTS = '
        '3 inner candidates + one candidate near an end of the window (1-5 rows on the short side, both ends, between / on '
        'rows) in every position, both ends together, end candidates only; x source (3 StatMech species via from_model, 2 '
        'piecewise + 1 single polynomial via from_data) x 2 windows x n_T {50, 15} (x list / tuple / array)')
ASSUMPTIONS = [
    'parts C / D (histories): tables have integer-valued temperatures (so that integer containers hold the same '
    'table); row orders are ascending, descending, second-half-first, two interleaved scans, middle-outwards, '
    'every row twice, whole table twice; containers are float64 / int64 arrays and lists of float / int',
    'temperature windows, n_T, T_mid forms, T_ref positions and sources are the finite alphabets listed in bounds',
    'same-family data: NASA-7/NASA-9 reproduce to 1e-8*(1+|v|); Shomate to 1e-6*(1+|v|) because its Cp fit is '
    'an iterative Levenberg-Marquardt run (scipy curve_fit, default ftol=xtol=1e-8; measured 3e-9)',
    'same-family reproduction is only demanded where the data determine the fit: every NASA-9 segment holds >= 7 '
    'data points and, for piecewise data, the fitted break equals the generating break',
    'StatMech sources: |dCp/R| <= factor(n_T) x E* + 1e-6, E* = residual of an independent least-squares fit of the '
    'family form to the source on the same segments; factor = 5 x the largest ratio seen for NASA-7/Shomate on the '
    'unchanged tree (50 / 12 / 7 for n_T = 15 / 50 / 200); H and S may deviate from the source by what the observed Cp error '
    'and the anchor allow (|dH/RT| <= sup|dCp| |T-T_ref|/T, |dS/R| <= sup|dCp| |ln(T/T_ref)|)',
    'user-supplied T_mid candidates lie strictly inside the window; in parts A - D they leave >= 5 data points on each '
    'side; part E hands over NASA-7 candidate lists that also hold candidates leaving 1 - 5 rows on one side (between two '
    'rows and exactly on a row) in every position of the list; tracking / reproduction is demanded when the chosen break '
    'leaves >= 5 distinct rows on both sides (a 4th-order polynomial is not determined by fewer), the candidate and '
    'least-squares-split clauses, anchor, continuity and bounds always; a row exactly on the chosen break may belong to '
    'either side',
    'from_model reference temperatures are the documented ones: window mean (Nasa, Shomate), T_low (Nasa9)',
]
EXPLANATION = ('every case is an execution of the real fitting code; anchor, continuity and bounds are checked on '
               'every case, reproduction / tracking on every lattice point')

# ------------------------------------------------------------------------------------ alphabets
WINDOWS = [[lo, hi] for lo in (100.0, 298.15, 500.0, 1500.0) for hi in (400.0, 1000.0, 2000.0, 3000.0)
           if lo < hi]
WINDOWS_Q = [[100.0, 400.0], [298.15, 1000.0], [100.0, 3000.0], [500.0, 2000.0], [1500.0, 3000.0]]
NT = [15, 50, 200]
NT_Q = [15, 50]
DEFAULT_WIN = [298.15, 1000.0]
N_LATTICE = 101

UNITS = ['J/mol/K', 'kJ/mol/K', 'L kPa/mol/K', 'cm3 kPa/mol/K', 'm3 Pa/mol/K', 'cm3 MPa/mol/K',
         'm3 bar/mol/K', 'L bar/mol/K', 'L torr/mol/K', 'cal/mol/K', 'kcal/mol/K', 'L atm/mol/K',
         'cm3 atm/mol/K', 'eV/K', 'Eh/K', 'Ha/K']
UNITS_Q = ['J/mol/K', 'kcal/mol/K', 'eV/K', 'cm3 kPa/mol/K']

# Cp/R = sum c_k T^k ; exponent -> coefficient
_H2O_LO = {0: 4.19864056, 1: -2.03643410e-3, 2: 6.52040211e-6, 3: -5.48797062e-9, 4: 1.77197817e-12}
_H2O_HI = {0: 3.03399249, 1: 2.17691804e-3, 2: -1.64072518e-7, 3: -9.70419870e-11, 4: 1.68200992e-14}
_CO2_LO = {0: 2.35677352, 1: 8.98459677e-3, 2: -7.12356269e-6, 3: 2.45919022e-9, 4: -1.43699548e-13}
_ADS = {0: -1.52, 1: 3.1e-2, 2: -4.05e-5, 3: 2.5e-8, 4: -5.9e-12}
_ALT = {0: 12.0, 1: -3.0e-2, 2: 4.0e-5, 3: -2.0e-8, 4: 3.0e-12}
POLYS = {
    'N7': {'e0': {0: 1.0}, 'e1': {1: 1e-3}, 'e2': {2: 1e-6}, 'e3': {3: 1e-9}, 'e4': {4: 1e-12},
           'h2o_lo': _H2O_LO, 'h2o_hi': _H2O_HI, 'co2_lo': _CO2_LO, 'ads': _ADS, 'alt': _ALT},
    'N9': {'e-2': {-2: 1e6}, 'e-1': {-1: 1e3}, 'e0': {0: 1.0}, 'e1': {1: 1e-3}, 'e2': {2: 1e-6},
           'e3': {3: 1e-9}, 'e4': {4: 1e-12},
           'mix': {-2: 4.9e4, -1: -6.2e2, 0: 5.3, 1: -2.5e-3, 2: 2.1e-6, 3: -6.0e-10, 4: 6.0e-14},
           'mix2': {-2: -2.2e4, -1: 3.4e2, 0: 2.9, 1: 4.1e-3, 2: -1.9e-6, 3: 4.2e-10, 4: -3.5e-14}},
    'SH': {'A': {0: 3.6}, 'B': {1: 8.0e-4}, 'C': {2: 8.0e-7}, 'D': {3: -3.0e-10}, 'E': {-2: 1.0e4},
           'h2o': {0: 3.6193, 1: 8.2177e-4, 2: 8.1706e-7, 3: -3.0483e-10, -2: 9.8791e3},
           'co2': {0: 3.0069, 1: 6.6488e-3, 2: -4.3229e-6, 3: 9.4522e-10, -2: -1.6414e4}},
}
# piecewise sources: names of the pieces, lowest first
PIECEWISE = {
    'N7': [['h2o_lo', 'h2o_hi'], ['co2_lo', 'h2o_hi'], ['e0', 'e1'], ['alt', 'ads']],
    'N9': [['mix', 'mix2'], ['e-2', 'e1'], ['mix', 'e0', 'mix2'], ['e4', 'mix2', 'e-1']],
}
for _f in POLYS:
    POLYS[_f]['zero'] = {0: 0.0}           # all-zero Cp: the fitters' "no temperature dependence" shortcut
SINGLES_Q = {'N7': ['e0', 'e3', 'e4', 'h2o_lo', 'alt', 'zero'], 'N9': ['e-2', 'e-1', 'e4', 'mix', 'zero'],
             'SH': ['A', 'C', 'E', 'h2o', 'zero']}

TMID_FORMS = {'N7': ['none', 'scalar', 'list'],
              'N9': ['none', 'scalar', 'list0', 'list1', 'list2', 'array1'],
              'SH': ['n/a']}
TREF_MODES = {'N7': ['T_low', 'q1', 'mid-', 'mid', 'mid+', 'q3', 'T_high'],
              'N9': ['T_low', 'q1', 'b1-', 'b1', 'b1+', 'half', 'b2-', 'b2', 'b2+', 'q3', 'T_high'],
              'SH': ['T_low', 'q1', 'half', 'q3', 'T_high']}
LIST_FRACTIONS = [0.3, 0.4, 0.5, 0.6, 0.7]
LIST_TRUE = 3                      # piecewise data: the generating break is the 4th candidate

SPECIES_B = ['H2O', 'H_atom', 'N2', 'OH', 'CO2', 'C2H6', 'ads3', 'ads6', 'ads9_soft', 'ads30',
             'einstein', 'qrrho9']
SPECIES_C = ['constCp4', 'constCp05']
SPECIES_D = ['elec_only', 'empty']
SPECIES = SPECIES_B + SPECIES_C + SPECIES_D

# StatMech sources: "the small error expected of the polynomial form" is measured, not tabulated:
# E* = sup-norm residual of an independent least-squares fit of the family's Cp basis to the source
# model on a dense lattice of every segment the fitted object has (numpy lstsq on scaled columns).
# The fitted object may be worse than E* by the factor below (it sees only n_T points per segment),
# = 5 x the largest ratio observed on the unchanged tree for NASA-7 and Shomate at that n_T
# (9.3 / 2.2 / 1.4), plus an absolute floor for sources the form represents exactly.
TRACK_FACTOR = {15: 50.0, 50: 12.0, 200: 7.0}
TRACK_FLOOR = 1e-6
BASIS = {'N7': [0, 1, 2, 3, 4], 'N9': [-2, -1, 0, 1, 2, 3, 4], 'SH': [0, 1, 2, 3, -2]}
N_DENSE = 60

PLANNED_TAGS = [
    'n7:T_ref<T_mid', 'n7:T_ref==T_mid', 'n7:T_ref>T_mid',
    'n7:T_mid=none', 'n7:T_mid=scalar', 'n7:T_mid=list', 'n7:piecewise break recovered',
    'n9:segments=1', 'n9:segments=2', 'n9:segments=3',
    'n9:T_ref in segment 0', 'n9:T_ref in segment 1', 'n9:T_ref in segment 2', 'n9:T_ref at break',
    'n9:T_mid=none', 'n9:T_mid=scalar', 'n9:T_mid=list0', 'n9:T_mid=list1', 'n9:T_mid=list2',
    'n9:T_mid=array1', 'n9:underdetermined (reproduction skipped)', 'n9:fit_T_mid=True',
    'n9:fit_T_mid=False',
    'src:single', 'src:piecewise', 'src:statmech', 'src:constCp', 'src:zeroCp',
    'entry:from_data', 'entry:from_model',
] + ['sh:units=%s' % u for u in UNITS]
# parts C / D (histories on caller-owned data); the alphabets are defined with the parts below
PLANNED_TAGS += (
    ['form:order=%s' % o for o in ('asc', 'desc', 'rot', 'evenodd', 'midout', 'dup', 'dupcat')]
    + ['form:cont=%s' % c_ for c_ in ('f8', 'i8', 'list', 'ilist')]
    + ['form:second=%s' % x for x in ('same', 'ref', 'opt')]
    + ['form:tref_type=%s' % x for x in ('float', 'int', 'elem')]
    + ['form:n7 T_mid=%s' % x for x in ('none', 'scalar', 'int', 'list', 'tuple', 'array', 'iarray')]
    + ['form:n9 T_mid=%s' % x for x in ('list2', 'none', 'scalar', 'int', 'list0', 'list1', 'tuple2', 'array1',
                                        'iarray2')]
    + ['form:integer T array', 'form:integer CpoR array']
    + ['mform:argtype=%s' % x for x in ('float', 'int')]
    + ['mform:second=%s' % x for x in ('same', 'species', 'window')]
    + ['mform:%s T_mid=%s' % (f, x) for f in ('n7', 'n9')
       for x in ('none', 'scalar', 'int', 'list', 'tuple', 'array', 'iarray')])
# part E (T_mid candidate lists with candidates near the ends of the window)
PLANNED_TAGS += (
    ['tmlist:cont=%s' % x for x in ('list', 'tuple', 'array')]
    + ['tmlist:hugger at %s' % x for x in ('the front', 'the back', 'an inner position')]
    + ['tmlist:hugger near %s' % x for x in ('T_low', 'T_high')]
    + ['tmlist:some candidate leaves >= 5 rows on both sides', 'tmlist:end-hugging candidates only',
       'tmlist:an end-hugging candidate was chosen', 'tmlist:a data row lies exactly on the reported break',
       'tmlist:chosen break leaves < 5 rows on one side (tracking / reproduction skipped)'])


# ------------------------------------------------------------------------------------ helpers
def _class(fam):
    from pmutt.empirical.nasa import Nasa, Nasa9
    from pmutt.empirical.shomate import Shomate
    return {'N7': Nasa, 'N9': Nasa9, 'SH': Shomate}[fam]


def _frac(win, f):
    return win[0] + f * (win[1] - win[0])


DEFAULT_VECTOR = {'N7': ('T_ref<T_mid', 'single', 'none', None), 'N9': ('segment 0', 'single', 'none', None),
                  'SH': ('n/a', 'single', 'n/a', 'J/mol/K')}


def _ref_values(case):
    """Deterministic, case-dependent reference enthalpy / entropy (so that outcomes differ)."""
    h = core_hash(case)
    href = -40.0 + (h % 9973) / 9973.0 * 55.0          # -40 .. 15
    sref = 2.0 + ((h // 9973) % 9967) / 9967.0 * 60.0  # 2 .. 62
    return href, sref


def core_hash(case):
    from pmc.engine import core
    keys = ('fam', 'src', 'win', 'n_T', 'tmid', 'units')
    return core.hkey({k: case.get(k) for k in keys})


def _lattice(win, breaks, n=None):
    pts = [float(t) for t in np.linspace(win[0], win[1], n or N_LATTICE)]
    for b in breaks:
        b = float(b)
        pts += [float(np.nextafter(b, 0.0)), b, float(np.nextafter(b, 1e9))]
    return sorted(set(pts))


def _breaks_of(fam, obj):
    if fam == 'N7':
        return [float(obj.T_mid)]
    if fam == 'N9':
        segs = sorted(obj.nasas, key=lambda n: float(n.T_low))
        return [float(n.T_high) for n in segs[:-1]]
    return []


def _getters(obj, T):
    return float(np.squeeze(obj.get_CpoR(T=T))), float(np.squeeze(obj.get_HoRT(T=T))), \
        float(np.squeeze(obj.get_SoR(T=T)))


def _coef_len_ok(fam, obj):
    if fam == 'N7':
        return len(obj.a_low) == 7 and len(obj.a_high) == 7
    if fam == 'N9':
        return all(len(n.a) == 9 for n in obj.nasas)
    return len(obj.a) == 8


# -------------------------------------------------------------------------- clauses on one object
def _common_clauses(fam, obj, T_data, T_ref, href, sref, sig, case, ctx):
    """bounds, coefficient length, anchor, continuity.  Returns the list of breaks."""
    lo, hi = float(np.min(T_data)), float(np.max(T_data))
    ctx.true('coefficient vectors have the family length', _coef_len_ok(fam, obj), sig, case,
             observed=fam)
    ctx.equal('bounds: (T_low, T_high) = (min T, max T) of the data',
              [float(obj.T_low), float(obj.T_high)], [lo, hi], sig, case)
    breaks = _breaks_of(fam, obj)
    ctx.true('bounds: every break strictly inside (T_low, T_high)',
             all(lo < b < hi for b in breaks), sig, case, observed=breaks, expected=[lo, hi])
    if fam == 'N9':
        segs = sorted(obj.nasas, key=lambda n: float(n.T_low))
        chain = all(float(a.T_high) == float(b.T_low) for a, b in zip(segs, segs[1:]))
        ctx.true('bounds: NASA-9 segments tile the range without gap or overlap', chain, sig, case,
                 observed=[[float(n.T_low), float(n.T_high)] for n in segs])
        ctx.tag('n9:segments=%d' % len(segs))
    # anchor, through the public getters (the object selects the segment)
    _, h, s = _getters(obj, T_ref)
    ctx.evals(2)
    ctx.close('anchor: HoRT(T_ref) = HoRT_ref', h, href, sig, case, rtol=1e-8, scale=1.0 + abs(href))
    ctx.close('anchor: SoR(T_ref) = SoR_ref', s, sref, sig, case, rtol=1e-8, scale=1.0 + abs(sref))
    # continuity: one-sided values at each break through the public getters
    for b in breaks:
        below, above = float(np.nextafter(b, 0.0)), float(np.nextafter(b, 1e9))
        vals = [_getters(obj, t) for t in (below, b, above)]
        ctx.evals(6)
        hs = [v[1] for v in vals]
        ss = [v[2] for v in vals]
        ctx.close('continuity: H/RT equal on both sides of every break', [hs[0], hs[2]], [hs[1], hs[1]],
                  sig, case, rtol=1e-9, scale=1.0 + abs(hs[1]))
        ctx.close('continuity: S/R equal on both sides of every break', [ss[0], ss[2]], [ss[1], ss[1]],
                  sig, case, rtol=1e-9, scale=1.0 + abs(ss[1]))
    return breaks


def _walk(obj, pts):
    cp, h, s = [], [], []
    for T in pts:
        a, b, c_ = _getters(obj, T)
        cp.append(a)
        h.append(b)
        s.append(c_)
    return np.array(cp), np.array(h), np.array(s)


def _reproduction(fam, obj, pieces, win, breaks, T_ref, href, sref, sig, case, ctx, n_lattice=None):
    pts = _lattice(win, breaks, n_lattice)
    cp, h, s = _walk(obj, pts)
    ctx.evals(3 * len(pts))
    ctx.trans(len(pts) - 1)
    gen_breaks = set(u for u, _ in pieces if not math.isinf(u))
    keep = [i for i, T in enumerate(pts) if T not in gen_breaks]   # Cp is two-valued at a break
    cp_ref = np.array([rp.cp_pw(pieces, T) for T in pts])
    h_ref = np.array([rp.horT(pieces, T, T_ref, href) for T in pts])
    s_ref = np.array([rp.sor(pieces, T, T_ref, sref) for T in pts])
    rtol = 1e-6 if fam == 'SH' else 1e-8
    ctx.close('same-family data: Cp/R reproduced on the lattice', cp[keep], cp_ref[keep], sig, case,
              rtol=rtol, scale=1.0 + np.abs(cp_ref[keep]))
    ctx.close('same-family data: H/RT reproduced on the lattice', h, h_ref, sig, case, rtol=rtol,
              scale=1.0 + np.abs(h_ref))
    ctx.close('same-family data: S/R reproduced on the lattice', s, s_ref, sig, case, rtol=rtol,
              scale=1.0 + np.abs(s_ref))


# ---------------------------------------------------------------------------- part A: from_data
def _pieces_for(case):
    """Generating polynomial pieces (with the generating breaks) for a from_data case."""
    fam, win, n_T, src = case['fam'], case['win'], case['n_T'], case['src']
    names = src.split('|')
    polys = [_poly(fam, n) for n in names]
    if len(names) == 1:
        return rp.single(polys[0])
    form = case['tmid']
    if fam == 'N7':
        if form == 'scalar':
            gb = [_frac(win, 1.0 / 3.0)]
        elif form == 'list':
            gb = [_frac(win, LIST_FRACTIONS[LIST_TRUE])]
        else:                       # none: the break is a data point the screen can reach
            T = np.linspace(win[0], win[1], n_T)
            k = min(max(n_T // 3, 5), n_T - 6)
            gb = [float(T[k])]
    else:
        gb = [_frac(win, 1.0 / 3.0), _frac(win, 2.0 / 3.0)][:len(names) - 1]
    return rp.piecewise(polys, gb)


def _tmid_arg(case):
    fam, win, form = case['fam'], case['win'], case['tmid']
    if fam == 'N7':
        if form == 'none':
            return None
        if form == 'scalar':
            return _frac(win, 1.0 / 3.0)
        return [_frac(win, f) for f in LIST_FRACTIONS]
    if fam == 'N9':
        if form == 'none':
            return None
        if form == 'scalar':
            return _frac(win, 1.0 / 3.0)
        if form == 'list0':
            return []
        if form == 'list1':
            return [_frac(win, 1.0 / 3.0)]
        if form == 'array1':
            return np.array([_frac(win, 1.0 / 3.0)])
        return [_frac(win, 1.0 / 3.0), _frac(win, 2.0 / 3.0)]
    return None


def _n9_expected_breaks(case):
    form = case['tmid']
    win = case['win']
    if form in ('scalar', 'list1', 'array1'):
        return [_frac(win, 1.0 / 3.0)]
    if form == 'list2':
        return [_frac(win, 1.0 / 3.0), _frac(win, 2.0 / 3.0)]
    return []


def _fit_data(case, T, CpoR, T_ref, href, sref):
    fam = case['fam']
    cls = _class(fam)
    kw = dict(name='c03', T=T, CpoR=CpoR, T_ref=T_ref, HoRT_ref=href, SoR_ref=sref)
    if fam == 'SH':
        kw['units'] = case['units']
    else:
        kw['T_mid'] = _tmid_arg(case)
    return cls.from_data(**kw)


def _tref_value(case, breaks):
    mode, win = case['tref'], case['win']
    if mode == 'T_low':
        return win[0]
    if mode == 'T_high':
        return win[1]
    if mode == 'q1':
        return _frac(win, 0.25)
    if mode == 'half':
        return _frac(win, 0.5)
    if mode == 'q3':
        return _frac(win, 0.75)
    if mode.startswith('mid') or mode.startswith('b'):
        idx = 0 if mode.startswith('mid') else int(mode[1]) - 1
        if idx >= len(breaks):
            return None
        b = float(breaks[idx])
        if mode.endswith('-'):
            return float(np.nextafter(b, 0.0))
        if mode.endswith('+'):
            return float(np.nextafter(b, 1e9))
        return b
    raise ValueError(mode)


def _source_kind(case):
    if case['src'] == 'zero':
        return 'zeroCp'
    return 'piecewise' if '|' in case['src'] else 'single'


def _sig_data(case):
    return {'fam': case['fam'], 'entry': 'from_data', 'source': _source_kind(case), 'tmid': case['tmid']}


def _branch(fam, breaks, T_ref):
    if fam == 'N7':
        tm = breaks[0]
        return 'T_ref<T_mid' if T_ref < tm else ('T_ref==T_mid' if T_ref == tm else 'T_ref>T_mid')
    if fam == 'N9':
        if T_ref in breaks:
            return 'at break'
        return 'segment %d' % sum(1 for b in breaks if b < T_ref)
    return 'n/a'


def _eval_data_case(case, ctx):
    fam, win, n_T = case['fam'], case['win'], case['n_T']
    sig = _sig_data(case)
    pieces = _pieces_for(case)
    T = np.linspace(win[0], win[1], n_T)
    CpoR = np.array([rp.cp_pw(pieces, float(t)) for t in T])
    href, sref = _ref_values(case)
    ctx.tag('entry:from_data')
    ctx.tag('src:' + _source_kind(case))
    if fam == 'SH':
        ctx.tag('sh:units=%s' % case['units'])
    else:
        ctx.tag('%s:T_mid=%s' % (fam.lower(), case['tmid']))
    # where the breaks will be: NASA-9 takes them from the argument; NASA-7 chooses among candidates
    # (the choice depends on the Cp data only, so a preliminary fit anchored at T_low reveals it)
    if fam == 'N9':
        planned = _n9_expected_breaks(case)
    elif fam == 'N7' and case['tref'].startswith('mid'):
        pre = _fit_data(case, T, CpoR, win[0], href, sref)
        ctx.trace()
        planned = _breaks_of(fam, pre)
    else:
        planned = []
    T_ref = _tref_value(case, planned)
    if T_ref is None:
        return                               # this T_ref position does not exist for this T_mid form
    obj = _fit_data(case, T, CpoR, T_ref, href, sref)
    ctx.trace()
    br = _judge_data_fit(fam, obj, pieces, T, win, T_ref, href, sref, sig, case, ctx)
    key = dict(case)
    if ctx.state(('data', key)):
        if (br, _source_kind(case), case['tmid'], case.get('units')) != DEFAULT_VECTOR[fam]:
            ctx.nontrivial(('data', key))


def _judge_data_fit(fam, obj, pieces, T_rows, win, T_ref, href, sref, sig, case, ctx, n_lattice=None):
    """Every clause a from_data fit must satisfy: coefficient length, bounds, anchor, continuity and -
    where the data determine the fit - reproduction of the generating polynomial(s).  T_rows are the
    temperatures of the table as the caller tabulated them (any order, repeats allowed)."""
    T_rows = np.asarray(T_rows, dtype=float)
    breaks = _breaks_of(fam, obj)
    br = _branch(fam, breaks, T_ref)
    sig = dict(sig, branch=br)
    if fam == 'N7':
        ctx.tag('n7:' + br)
    elif fam == 'N9':
        ctx.tag('n9:T_ref ' + ('at break' if br == 'at break' else 'in ' + br))
    _common_clauses(fam, obj, T_rows, T_ref, href, sref, sig, case, ctx)
    # same-family reproduction, where the data determine the fit
    gen_breaks = [u for u, _ in pieces if not math.isinf(u)]
    determined = True
    if fam == 'N9':
        edges = [win[0]] + breaks + [win[1]]
        T_dist = np.unique(T_rows)              # a repeated row adds no information
        counts = [int(np.sum((T_dist > a) & (T_dist <= b))) for a, b in zip(edges, edges[1:])]
        if min(counts) < 7:
            determined = False
            ctx.tag('n9:underdetermined (reproduction skipped)')
    if gen_breaks:
        if [float(b) for b in breaks] != [float(b) for b in gen_breaks]:
            determined = False
        elif fam == 'N7':
            ctx.tag('n7:piecewise break recovered')
    if determined:
        _reproduction(fam, obj, pieces, win, breaks, T_ref, href, sref, sig, case, ctx, n_lattice)
    return br


# --------------------------------------------------------------------------- part B: from_model
def build_species(name):
    from pmutt import constants as c
    from pmutt.statmech import ConstantMode, StatMech, elec, nucl, rot, trans, vib

    def gas(M, waves, rot_T, geometry, sigma, E, spin=0.0):
        kw = dict(name=name, trans_model=trans.FreeTrans(n_degrees=3, molecular_weight=M),
                  elec_model=elec.GroundStateElec(potentialenergy=E, spin=spin),
                  nucl_model=nucl.EmptyNucl())
        if waves:
            kw['vib_model'] = vib.HarmonicVib(vib_wavenumbers=list(waves))
        if geometry:
            kw['rot_model'] = rot.RigidRotor(symmetrynumber=sigma, rot_temperatures=list(rot_T),
                                             geometry=geometry)
        return StatMech(**kw)

    def ads(waves, E, cls=None):
        vm = (cls or vib.HarmonicVib)(vib_wavenumbers=list(waves))
        return StatMech(name=name, vib_model=vm, elec_model=elec.GroundStateElec(potentialenergy=E, spin=0.0))

    if name == 'H2O':
        return gas(18.015, [3825.434, 3710.264, 1582.432], [40.1, 20.9, 13.4], 'nonlinear', 2, -14.22)
    if name == 'H_atom':
        return gas(1.008, [], [], None, 1, -1.11, spin=0.5)
    if name == 'N2':
        return gas(28.014, [2330.0], [2.88], 'linear', 2, -16.63)
    if name == 'OH':
        return gas(17.007, [3738.0], [27.2], 'linear', 1, -7.73, spin=0.5)
    if name == 'CO2':
        return gas(44.009, [2349.0, 1333.0, 667.0, 667.0], [0.561], 'linear', 2, -22.95)
    if name == 'C2H6':
        return gas(30.07, [3000., 2990., 2985., 2970., 2950., 2895., 1470., 1468., 1465., 1460., 1388.,
                           1379., 1190., 1185., 995., 822., 820., 289.], [3.85, 0.953, 0.953],
                   'nonlinear', 6, -40.5)
    if name == 'ads3':
        return ads([2000.0, 450.0, 380.0], -10.2)
    if name == 'ads6':
        return ads([1800.0, 400.0, 390.0, 350.0, 60.0, 55.0], -14.8)
    if name == 'ads9_soft':
        return ads([3100., 3000., 1400., 1100., 900., 500., 250., 100., 10.], -20.3)
    if name == 'ads30':
        return ads([50.0 + 122.0 * k for k in range(30)], -75.0)
    if name == 'qrrho9':
        return ads([3100., 3000., 1400., 1100., 900., 500., 250., 100., 10.], -20.3, cls=vib.QRRHOVib)
    if name == 'einstein':
        return StatMech(name=name, vib_model=vib.EinsteinVib(einstein_temperature=400.0,
                                                             interaction_energy=-0.3),
                        elec_model=elec.GroundStateElec(potentialenergy=-5.0, spin=0.0))
    R = c.R('eV/K')
    if name == 'constCp4':
        return StatMech(name=name, elec_model=ConstantMode(Cp=4.0 * R, Cv=3.0 * R, H=-1.0, S=20.0 * R))
    if name == 'constCp05':
        return StatMech(name=name, elec_model=ConstantMode(Cp=0.5 * R, Cv=0.5 * R, H=0.25, S=3.0 * R))
    if name == 'elec_only':
        return StatMech(name=name, elec_model=elec.GroundStateElec(potentialenergy=-3.1, spin=0.5))
    if name == 'empty':
        return StatMech(name=name)
    raise ValueError(name)


def _species_kind(name):
    if name in SPECIES_C:
        return 'constCp'
    if name in SPECIES_D:
        return 'zeroCp'
    return 'statmech'


_MODEL_CACHE = {}


def _model_lattice(name, model, pts):
    """Source-model values on the lattice (memoised per species and temperature inside a shard)."""
    rows = []
    for T in pts:
        key = (name, T)
        v = _MODEL_CACHE.get(key)
        if v is None:
            v = _MODEL_CACHE[key] = (float(np.squeeze(model.get_CpoR(T=T))),
                                     float(np.squeeze(model.get_HoRT(T=T))),
                                     float(np.squeeze(model.get_SoR(T=T))))
        rows.append(v)
    a = np.array(rows)
    return a[:, 0], a[:, 1], a[:, 2]


_BEST_CACHE = {}


def _best_form_error(fam, name, model, edges):
    """Sup-norm residual of an independent least-squares fit of the family's Cp form to the source
    model, segment by segment (the best the form can be expected to do with these breaks)."""
    worst = 0.0
    for a, b in zip(edges, edges[1:]):
        key = (fam, name, float(a), float(b))
        if key not in _BEST_CACHE:
            T = np.linspace(a, b, N_DENSE)
            x = T / b
            A = np.stack([x ** k for k in BASIS[fam]], axis=1)
            y = np.array([float(np.squeeze(model.get_CpoR(T=float(t)))) for t in T])
            coef = np.linalg.lstsq(A, y, rcond=None)[0]
            _BEST_CACHE[key] = float(np.max(np.abs(A @ coef - y)))
        worst = max(worst, _BEST_CACHE[key])
    return worst


def _sig_model(case):
    return {'fam': case['fam'], 'entry': 'from_model', 'source': _species_kind(case['species']),
            'tmid': case['tmid']}


def _fit_model(case, model):
    fam, win = case['fam'], case['win']
    cls = _class(fam)
    if fam == 'N7':
        tm = {'none': None, 'scalar': _frac(win, 1.0 / 3.0),
              'list': [_frac(win, f) for f in LIST_FRACTIONS]}[case['tmid']]
        return cls.from_model(model=model, name='c03', T_low=win[0], T_high=win[1], T_mid=tm,
                              n_T=case['n_T'])
    if fam == 'SH':
        return cls.from_model(model=model, name='c03', T_low=win[0], T_high=win[1], n_T=case['n_T'],
                              units=case['units'])
    n_int = case['n_interval']
    if case['tmid'] == 'none':
        tm = None
    elif case['tmid'] == 'scalar':
        tm = _frac(win, 0.45)
    else:
        tm = list(np.linspace(win[0], win[1], n_int + 1)[1:-1] * 0.97 + 0.03 * win[0])
    return cls.from_model(name='c03', model=model, T_low=win[0], T_high=win[1], T_mid=tm,
                          n_interval=n_int, n_T=case['n_T'], fit_T_mid=case['fit_T_mid'])


def track_errors(case):
    """Calibration helper (not used by the verdict): (max |dCp/R|, E*) for one from_model case."""
    import warnings
    with warnings.catch_warnings():
        warnings.simplefilter('ignore')
        model = build_species(case['species'])
        obj = _fit_model(case, model)
        breaks = _breaks_of(case['fam'], obj)
        pts = _lattice(case['win'], breaks)
        cp, h, s = _walk(obj, pts)
        mcp, mh, ms = _model_lattice(case['species'], model, pts)
        e_star = _best_form_error(case['fam'], case['species'], model,
                                  [case['win'][0]] + sorted(breaks) + [case['win'][1]])
    return float(np.max(np.abs(cp - mcp))), e_star


def _eval_model_case(case, ctx):
    fam, win, name = case['fam'], case['win'], case['species']
    kind = _species_kind(name)
    sig = _sig_model(case)
    ctx.tag('entry:from_model')
    ctx.tag('src:' + kind)
    if fam == 'SH':
        ctx.tag('sh:units=%s' % case['units'])
    else:
        ctx.tag('%s:T_mid=%s' % (fam.lower(), case['tmid']))
    if fam == 'N9':
        ctx.tag('n9:fit_T_mid=%s' % case['fit_T_mid'])
    model = build_species(name)
    obj = _fit_model(case, model)
    ctx.trace()
    _judge_model_fit(fam, win, name, case['n_T'], obj, model, sig, case, ctx)
    key = dict(case)
    if ctx.state(('model', key)):
        if case != default_model_case(fam):
            ctx.nontrivial(('model', key))


def _judge_model_fit(fam, win, name, n_T, obj, model, sig, case, ctx, n_lattice=None):
    """Every clause a from_model fit must satisfy (win: the T_low / T_high handed to from_model)."""
    kind = _species_kind(name)
    win = [float(win[0]), float(win[1])]
    # documented reference temperature of from_model
    T_ref = win[0] if fam == 'N9' else (win[0] + win[1]) / 2.0
    href = float(np.squeeze(model.get_HoRT(T=T_ref)))
    sref = float(np.squeeze(model.get_SoR(T=T_ref)))
    breaks = _breaks_of(fam, obj)
    br = _branch(fam, breaks, T_ref)
    sig = dict(sig, branch=br)
    if fam == 'N7':
        ctx.tag('n7:' + br)
    elif fam == 'N9':
        ctx.tag('n9:T_ref ' + ('at break' if br == 'at break' else 'in ' + br))
    # the data from_model generates span exactly [T_low, T_high]
    _common_clauses(fam, obj, np.array(win), T_ref, href, sref, sig, case, ctx)
    if kind in ('constCp', 'zeroCp'):
        cp0 = float(np.squeeze(model.get_CpoR(T=T_ref)))
        pieces = rp.single({0: cp0})
        _reproduction(fam, obj, pieces, win, breaks, T_ref, href, sref, sig, case, ctx, n_lattice)
        return
    pts = _lattice(win, breaks, n_lattice)
    cp, h, s = _walk(obj, pts)
    mcp, mh, ms = _model_lattice(name, model, pts)
    ctx.evals(6 * len(pts))
    ctx.trans(len(pts) - 1)
    edges = [win[0]] + sorted(breaks) + [win[1]]
    e_star = _best_form_error(fam, name, model, edges)
    bound = TRACK_FACTOR[n_T] * e_star + TRACK_FLOOR
    T = np.array(pts)
    dcp = np.abs(cp - mcp)
    # where in its segment the largest Cp error sits (part of the signature)
    tw = float(T[int(np.argmax(dcp))])
    seg = min(sum(1 for e in edges[1:-1] if e < tw), len(edges) - 2)
    f = (tw - edges[seg]) / (edges[seg + 1] - edges[seg])
    sig_cp = dict(sig, worst_at='low end of a segment' if f <= 0.15 else 'elsewhere in the segment')
    ctx.close('StatMech source: Cp/R within factor x best error of the polynomial form', cp, mcp, sig_cp,
              case, rtol=0.0, atol=bound)
    # H and S: no further from the source than the Cp error and the anchor allow
    #   |dH/RT| <= sup|dCp| * |T - T_ref| / T ,   |dS/R| <= sup|dCp| * |ln(T/T_ref)|
    sup = max(bound, float(np.max(dcp)))
    ctx.close('StatMech source: H/RT error no larger than the Cp error and the anchor allow', h, mh, sig,
              case, rtol=1.0, atol=0.0, scale=sup * np.abs(T - T_ref) / T + 1e-8 * (1.0 + np.abs(mh)))
    ctx.close('StatMech source: S/R error no larger than the Cp error and the anchor allow', s, ms, sig,
              case, rtol=1.0, atol=0.0, scale=sup * np.abs(np.log(T / T_ref)) + 1e-8 * (1.0 + np.abs(ms)))


# ------------------------------------------------------------------------------- enumeration
def default_model_case(fam):
    d = dict(part='model', fam=fam, species='H2O', win=list(DEFAULT_WIN), n_T=50, tmid='none')
    if fam == 'SH':
        d['tmid'] = 'n/a'
        d['units'] = 'J/mol/K'
    if fam == 'N9':
        d['n_interval'] = 2
        d['fit_T_mid'] = True
    return d


def _model_alphabet(fam, tier):
    al = dict(species=SPECIES, win=[list(w) for w in WINDOWS], n_T=NT)
    if fam == 'N7':
        al['tmid'] = ['none', 'scalar', 'list']
    elif fam == 'SH':
        al['units'] = UNITS
    else:
        al['n_T'] = NT if tier == 'thorough' else NT_Q
        al['n_interval'] = [1, 2, 3]
        al['tmid'] = ['none', 'given', 'scalar']
        al['fit_T_mid'] = [True, False]
    return al


def _valid_model(case):
    if case['fam'] == 'N9' and case['tmid'] == 'scalar' and case['n_interval'] != 2:
        return False                # a scalar names exactly one break
    return True


def _deviations(default, alphabet, level):
    coords = sorted(alphabet)
    out = [dict(default)]
    for n in range(1, level + 1):
        for cs in itertools.combinations(coords, n):
            choices = [[v for v in alphabet[c_] if v != default[c_]] for c_ in cs]
            for vals in itertools.product(*choices):
                d = dict(default)
                d.update(dict(zip(cs, vals)))
                out.append(d)
    return out


def _model_cases(fam, tier):
    al = _model_alphabet(fam, tier)
    default = default_model_case(fam)
    if tier == 'thorough':
        coords = sorted(al)
        cases = []
        for vals in itertools.product(*[al[c_] for c_ in coords]):
            d = dict(default)
            d.update(dict(zip(coords, vals)))
            cases.append(d)
        if fam == 'N9':
            # Nelder-Mead with 200 points per interval is ~4x the cost and adds no branch:
            # keep n_T = 200 for the fixed-break fits only
            cases = [d for d in cases if not (d['n_T'] == 200 and d['fit_T_mid'])]
    elif fam == 'N9':
        # NASA-9 from_model runs a Nelder-Mead search (0.2-0.5 s): all single deviations, and the
        # pairs in which at least one coordinate is a T_mid-handling one
        singles = _deviations(default, al, 1)
        pairs = [d for d in _deviations(default, al, 2)
                 if any(d[k] != default[k] for k in ('n_interval', 'tmid', 'fit_T_mid'))]
        seen, cases = set(), []
        for d in singles + pairs:
            k = repr(sorted(d.items()))
            if k not in seen:
                seen.add(k)
                cases.append(d)
    else:
        cases = _deviations(default, al, 2)
    return [d for d in cases if _valid_model(d)]


def _data_cases(fam, tier):
    wins = WINDOWS if tier == 'thorough' else WINDOWS_Q
    nts = NT if tier == 'thorough' else NT_Q
    singles = sorted(POLYS[fam]) if tier == 'thorough' else SINGLES_Q[fam]
    srcs = list(singles) + ['|'.join(p) for p in PIECEWISE.get(fam, [])]
    cases = []
    if fam == 'SH':
        for u in UNITS:
            # quick: every unit on two sources and two windows; a unit subset on everything
            for src, win, n_T, tref in itertools.product(srcs, wins, nts, TREF_MODES[fam]):
                if tier == 'quick' and u not in UNITS_Q and not (
                        src in ('h2o', 'E', 'zero') and win in ([298.15, 1000.0], [100.0, 3000.0]) and n_T == 50):
                    continue
                cases.append(dict(part='data', fam=fam, src=src, win=list(win), n_T=n_T, tmid='n/a',
                                  tref=tref, units=u))
        return cases
    for src, win, n_T, form, tref in itertools.product(srcs, wins, nts, TMID_FORMS[fam], TREF_MODES[fam]):
        npieces = src.count('|') + 1
        if fam == 'N9':
            nb = len(_n9_expected_breaks(dict(tmid=form, win=win)))
            if npieces > 1 and npieces != nb + 1:
                continue            # piecewise data are paired with the matching number of breaks
            if tref[0] == 'b' and int(tref[1]) > nb:
                continue
        cases.append(dict(part='data', fam=fam, src=src, win=list(win), n_T=n_T, tmid=form, tref=tref))
    return cases


# ----------------------------------------------------- part C: input forms and call histories
# (added after seeded changes C03-w3s1 / C03-w3s2, see notes/C03.md)
#
# A case of part C ('forms': from_data) or part D ('mforms': from_model) is a whole HISTORY on the real
# code, carried by the case itself:
#
#   build the caller's table (T, Cp/R) in a given row order and container / dtype, keep deep copies
#   fit 1 (configuration A)          -> table unchanged?  every clause of a from_data fit on fit 1
#   fit 2 from the very same objects (same call / other reference / other option)
#                                    -> table unchanged?  every clause on fit 2, and again on fit 1
#   overwrite the coefficient arrays of fit 1 and fit 2 (results are fresh containers)
#   edit Cp/R in place (+1)          -> fit 3 (configuration A) obeys every clause for the NEW content
#
# The oracles are the ones of parts A / B (reference handed in, min / max of the table, closed-form
# integrals of the generating polynomial, the source model) - never "what the previous fit returned".
FORM_LATTICES = [[300.0, 1000.0, 36], [100.0, 3000.0, 30], [500.0, 2000.0, 16]]   # integer-valued rows
N_LATTICE_FORMS = 25
ORDERS = ['asc', 'desc', 'rot', 'evenodd', 'midout', 'dup', 'dupcat']
CONTAINERS = ['f8', 'i8', 'list', 'ilist']
SECOND_CALLS = ['same', 'ref', 'opt']
TREF_TYPES = ['float', 'int', 'elem']
FORM_POLYS = {'int4': {0: 4.0}}                 # constant Cp/R = 4: representable in an integer array
FORM_SRC = {'N7': ['h2o_lo', 'zero', 'int4', 'h2o_lo|h2o_hi'],
            'N9': ['mix', 'zero', 'int4', 'mix|mix2', 'mix|e0|mix2'],
            'SH': ['h2o', 'zero', 'int4']}
FORM_TMID = {'N7': ['none', 'scalar', 'int', 'list', 'tuple', 'array', 'iarray'],
             'N9': ['list2', 'none', 'scalar', 'int', 'list0', 'list1', 'tuple2', 'array1', 'iarray2'],
             'SH': ['n/a']}
FORM_TREF = {'N7': ['q1', 'T_low', 'mid', 'q3', 'T_high'],
             'N9': ['q1', 'T_low', 'b1', 'half', 'T_high'],
             'SH': ['q1', 'T_low', 'half', 'T_high']}
N9_FORM_BREAKS = {'none': 0, 'list0': 0, 'scalar': 1, 'int': 1, 'list1': 1, 'array1': 1, 'list2': 2,
                  'tuple2': 2, 'iarray2': 2}
_RUN_SIG = {}                                   # signature of the running history (step label kept current)


def _poly(fam, name):
    return FORM_POLYS[name] if name in FORM_POLYS else POLYS[fam][name]


def _row_order(order, n):
    """Row permutation (with repeats for 'dup*') of an ascending table of n rows."""
    idx = list(range(n))
    h = n // 2
    if order == 'asc':
        return idx
    if order == 'desc':
        return idx[::-1]
    if order == 'rot':                     # second half first: extrema in the middle of the table
        return idx[h:] + idx[:h]
    if order == 'evenodd':                 # two interleaved scans
        return idx[::2] + idx[1::2]
    if order == 'midout':                  # from the middle outwards, alternating sides
        return [(h + (-1) ** k * ((k + 1) // 2)) % n for k in range(n)]
    if order == 'dup':                     # every row listed twice (ties), ascending
        return [i for i in idx for _ in (0, 1)]
    if order == 'dupcat':                  # the whole table appended to itself
        return idx + idx
    raise ValueError(order)


def _container(values, kind, integer):
    """The caller's container: float64 array, int64 array, list of floats, list of ints.  Integer
    forms are used only where every value is integer-valued (integer=True), else the float form."""
    vals = [float(v) for v in values]
    as_int = integer and all(v == int(v) for v in vals)
    if kind == 'f8':
        return np.array(vals, dtype=np.float64)
    if kind == 'i8':
        return np.array([int(v) for v in vals], dtype=np.int64) if as_int else np.array(vals, dtype=np.float64)
    if kind == 'list':
        return list(vals)
    if kind == 'ilist':
        return [int(v) for v in vals] if as_int else list(vals)
    raise ValueError(kind)


def _snapshot(x):
    """(type name, dtype, element type names, values) - everything 'left as it was' means."""
    if isinstance(x, np.ndarray):
        return ['ndarray', str(x.dtype), list(x.shape), x.tolist()]
    if isinstance(x, (list, tuple)):
        return [type(x).__name__, [type(v).__name__ for v in x], [v for v in x]]
    return [type(x).__name__, repr(x)]


def _form_tmid_values(fam, form, win):
    """Break temperature(s) named by a T_mid form (floats; the int forms are rounded first)."""
    third, two = _frac(win, 1.0 / 3.0), _frac(win, 2.0 / 3.0)
    if fam == 'N7':
        if form == 'none':
            return None
        if form == 'scalar':
            return third
        if form == 'int':
            return float(int(round(third)))
        vals = [_frac(win, f) for f in LIST_FRACTIONS]
        return [float(int(round(v))) for v in vals] if form == 'iarray' else vals
    if fam == 'N9':
        n = N9_FORM_BREAKS[form]
        vals = [third, two][:n]
        if form in ('int', 'iarray2'):
            vals = [float(int(round(v))) for v in vals]
        return vals
    return None


def _form_tmid_arg(fam, form, win):
    v = _form_tmid_values(fam, form, win)
    if fam == 'SH' or form == 'none':
        return None
    if form == 'scalar':
        return v if fam == 'N7' else v[0]
    if form == 'int':
        return int(v) if fam == 'N7' else int(v[0])
    if form in ('list', 'list0', 'list1', 'list2'):
        return list(v)
    if form in ('tuple', 'tuple2'):
        return tuple(v)
    if form in ('array', 'array1'):
        return np.array(v, dtype=np.float64)
    if form in ('iarray', 'iarray2'):
        return np.array([int(x) for x in v], dtype=np.int64)
    raise ValueError(form)


def _form_pieces(case, shift=0.0):
    """Generating pieces of a forms case; shift is added to the constant term of every piece."""
    fam, win, n_T = case['fam'], case['win'], case['n_T']
    names = case['src'].split('|')
    polys = []
    for n in names:
        p = dict(_poly(fam, n))
        p[0] = p.get(0, 0.0) + shift
        polys.append(p)
    if len(polys) == 1:
        return rp.single(polys[0])
    v = _form_tmid_values(fam, case['tmid'], win)
    if fam == 'N7':
        if v is None:                       # the break is a data point the screen can reach
            T = np.linspace(win[0], win[1], n_T)
            gb = [float(T[min(max(n_T // 3, 5), n_T - 6)])]
        elif isinstance(v, list):
            gb = [v[LIST_TRUE]]
        else:
            gb = [v]
    else:
        gb = list(v)
    return rp.piecewise(polys, gb)


def _form_fit(case, tm_arg, units, T, CpoR, T_ref, href, sref):
    """One from_data call; tm_arg is the caller's T_mid object (handed over as it is, not rebuilt)."""
    fam = case['fam']
    kw = dict(name='c03', T=T, CpoR=CpoR, T_ref=T_ref, HoRT_ref=href, SoR_ref=sref)
    if fam == 'SH':
        kw['units'] = units
    else:
        kw['T_mid'] = tm_arg
    return _class(fam).from_data(**kw)


def _typed_tref(value, ttype, T_container):
    """T_ref as a Python float, a Python int (rounded) or an element of the caller's T container."""
    if ttype == 'float':
        return float(value)
    if ttype == 'int':
        return int(round(value))
    k = int(np.argmin(np.abs(np.asarray(T_container, dtype=float) - value)))
    return T_container[k]


_SIG_ORDER = {'asc': 'ascending', 'desc': 'not ascending', 'rot': 'not ascending', 'evenodd': 'not ascending',
              'midout': 'not ascending', 'dup': 'repeated rows', 'dupcat': 'repeated rows'}
_SIG_CONT = {'f8': 'float array', 'i8': 'integer array', 'list': 'list', 'ilist': 'list',
             'float': 'float bounds', 'int': 'integer bounds'}


def _sig_forms(case):
    """Signature of a history case: categorical and coarse (row order: ascending / not ascending /
    repeated rows; container: float array / integer array / list; step of the history)."""
    if case['part'] == 'forms':
        src = case['src']
        kind = 'zeroCp' if src == 'zero' else 'piecewise' if '|' in src else 'single'
        return {'fam': case['fam'], 'entry': 'from_data', 'source': kind, 'tmid': case['tmid'],
                'order': _SIG_ORDER[case['order']], 'container': _SIG_CONT[case['cont']], 'step': 'fit 1'}
    return {'fam': case['fam'], 'entry': 'from_model', 'source': _species_kind(case['species']),
            'tmid': case['tmid'], 'container': _SIG_CONT[case['argtype']], 'step': 'fit 1'}


def _step(sig, label):
    _RUN_SIG['step'] = label                # an exception raised from now on carries this step
    return dict(sig, step=label)


def _scribble(fam, obj):
    """Overwrite what a fit returned (the next fit must not care)."""
    if fam == 'N7':
        obj.a_low[:] = 1e9
        obj.a_high[:] = -1e9
    elif fam == 'N9':
        for n in obj.nasas:
            n.a[:] = 1e9
        del obj.nasas[:]
    else:
        obj.a[:] = 1e9


def _second_config(case):
    """(tmid form, units, reference tag) of the second fit."""
    fam, second = case['fam'], case['second']
    tmid, units = case['tmid'], case.get('units')
    if second == 'opt':
        if fam == 'SH':
            units = UNITS[(UNITS.index(units) + 5) % len(UNITS)]
        else:
            forms = FORM_TMID[fam]
            if fam == 'N9' and '|' in case['src']:      # piecewise data keep their number of breaks
                forms = [f for f in forms if N9_FORM_BREAKS[f] == N9_FORM_BREAKS[tmid]]
            tmid = forms[(forms.index(tmid) + 1) % len(forms)]
    return tmid, units


def _eval_forms_case(case, ctx):
    fam, win, n_T = case['fam'], case['win'], case['n_T']
    sig = _sig_forms(case)
    _RUN_SIG.clear()
    _RUN_SIG.update(sig)
    kind = sig['source']
    ctx.tag('entry:from_data')
    ctx.tag('src:' + kind)
    for k_ in ('order', 'cont', 'second', 'tref_type'):
        ctx.tag('form:%s=%s' % (k_, case[k_]))
    ctx.tag('form:%s T_mid=%s' % (fam.lower(), case['tmid']))
    if fam == 'SH':
        ctx.tag('sh:units=%s' % case['units'])
    key = dict(case)
    if ctx.state(('forms', key)) and case != default_forms_case(fam):
        ctx.nontrivial(('forms', key))
    # ---- the caller's table
    pieces = _form_pieces(case)
    T_asc = np.linspace(win[0], win[1], n_T)
    rows = _row_order(case['order'], n_T)
    T_vals = [float(T_asc[i]) for i in rows]
    Cp_vals = [rp.cp_pw(pieces, t) for t in T_vals]
    T = _container(T_vals, case['cont'], True)
    CpoR = _container(Cp_vals, case['cont'], True)
    if isinstance(T, np.ndarray) and T.dtype == np.int64:
        ctx.tag('form:integer T array')
    if isinstance(CpoR, np.ndarray) and CpoR.dtype == np.int64:
        ctx.tag('form:integer CpoR array')
    tm = _form_tmid_arg(fam, case['tmid'], win)       # the caller's T_mid object, reused by fits 1 and 3
    tmid2, units2 = _second_config(case)
    tm2 = tm if tmid2 == case['tmid'] else _form_tmid_arg(fam, tmid2, win)
    snap = [_snapshot(T), _snapshot(CpoR), _snapshot(tm), _snapshot(tm2)]
    href, sref = _ref_values(case)

    def untouched(sg):
        now = [_snapshot(T), _snapshot(CpoR), _snapshot(tm), _snapshot(tm2)]
        ctx.true("caller's data: the T, CpoR and T_mid containers handed to from_data are left as they were",
                 now == snap, sg, case,
                 observed=[now[0][-1][:4], now[1][-1][:4], now[2][-1], now[3][-1]],
                 expected=[snap[0][-1][:4], snap[1][-1][:4], snap[2][-1], snap[3][-1]])

    # ---- where T_ref goes (as in part A: NASA-7 chooses its break from the Cp data alone)
    if fam == 'N9':
        planned = _form_tmid_values(fam, case['tmid'], win)
    elif fam == 'N7' and case['tref'] == 'mid':
        pre = _form_fit(case, tm, None, T, CpoR, win[0], href, sref)
        ctx.trace()
        planned = _breaks_of(fam, pre)
        untouched(_step(sig, 'preliminary fit'))
    else:
        planned = []
    t_val = _tref_value(case, planned)
    if t_val is None:
        t_val = _frac(win, 0.25)            # no such break for this T_mid form: the default position
    T_ref = _typed_tref(t_val, case['tref_type'], T)
    # ---- fit 1
    # (a step that records a violation ends the history: the later steps would repeat the same defect
    #  under other step labels; the label then names the FIRST step that goes wrong)
    n0 = _nviol(ctx)
    sg = _step(sig, 'fit 1')
    obj1 = _form_fit(case, tm, case.get('units'), T, CpoR, T_ref, href, sref)
    ctx.trace()
    untouched(sg)
    _judge_data_fit(fam, obj1, pieces, T_vals, win, float(T_ref), href, sref, sg, case, ctx, N_LATTICE_FORMS)
    if _nviol(ctx) != n0:
        return
    # ---- fit 2 from the very same objects
    sg2 = _step(sig, 'fit 2')
    if case['second'] == 'ref':
        T_ref2 = _typed_tref(_frac(win, 0.75), case['tref_type'], T)
        href2, sref2 = _ref_values(dict(case, tmid=case['tmid'] + '#2'))
    else:
        T_ref2, href2, sref2 = T_ref, href, sref
    obj2 = _form_fit(case, tm2, units2, T, CpoR, T_ref2, href2, sref2)
    ctx.trace()
    untouched(sg2)
    _judge_data_fit(fam, obj2, pieces, T_vals, win, float(T_ref2), href2, sref2, sg2, case, ctx, N_LATTICE_FORMS)
    if _nviol(ctx) != n0:
        return
    _judge_data_fit(fam, obj1, pieces, T_vals, win, float(T_ref), href, sref,
                    _step(sig, 'fit 1 again'), case, ctx, N_LATTICE_FORMS)
    if _nviol(ctx) != n0:
        return
    # ---- results are fresh containers; the table edited in place is fitted for its new content
    _scribble(fam, obj1)
    _scribble(fam, obj2)
    sg3 = _step(sig, 'fit 3')
    if isinstance(CpoR, np.ndarray):
        CpoR += 1
    else:
        for i in range(len(CpoR)):
            CpoR[i] = CpoR[i] + 1
    snap[1] = _snapshot(CpoR)
    pieces3 = _form_pieces(case, shift=1.0)
    obj3 = _form_fit(case, tm, case.get('units'), T, CpoR, T_ref, href, sref)
    ctx.trace()
    untouched(sg3)
    _judge_data_fit(fam, obj3, pieces3, T_vals, win, float(T_ref), href, sref, sg3, case, ctx, N_LATTICE_FORMS)


def _nviol(ctx):
    return sum(ctx.viol_counts.values())


# -------------------------------------------------------- part D: from_model argument forms / histories
MFORM_SPECIES = ['H2O', 'N2', 'constCp4', 'elec_only']
MFORM_WINDOWS = [[300, 1000], [100, 3000], [500, 2000]]
MFORM_ARGTYPES = ['float', 'int']               # type of T_low / T_high (and of integer-valued T_mid)
MFORM_SECOND = ['same', 'species', 'window']
MFORM_TMID = {'N7': ['none', 'scalar', 'int', 'list', 'tuple', 'array', 'iarray'],
              'N9': ['none', 'scalar', 'int', 'list', 'tuple', 'array', 'iarray'],
              'SH': ['n/a']}


def _mform_tmid_arg(case, win):
    fam, form = case['fam'], case['tmid']
    if fam == 'SH' or form == 'none':
        return None
    if fam == 'N7':
        return _form_tmid_arg('N7', form, win)
    if form == 'scalar':
        return _frac(win, 0.45)
    if form == 'int':
        return int(round(_frac(win, 0.45)))
    n_int = case['n_interval']
    vals = [float(v) for v in np.linspace(win[0], win[1], n_int + 1)[1:-1] * 0.97 + 0.03 * win[0]]
    if form == 'list':
        return vals
    if form == 'tuple':
        return tuple(vals)
    if form == 'array':
        return np.array(vals, dtype=np.float64)
    return np.array([int(round(v)) for v in vals], dtype=np.int64)


def _mform_fit(case, model, win, tm):
    fam = case['fam']
    cls = _class(fam)
    lo, hi = (int(win[0]), int(win[1])) if case['argtype'] == 'int' else (float(win[0]), float(win[1]))
    if fam == 'N7':
        return cls.from_model(model=model, name='c03', T_low=lo, T_high=hi, T_mid=tm, n_T=case['n_T'])
    if fam == 'SH':
        return cls.from_model(model=model, name='c03', T_low=lo, T_high=hi, n_T=case['n_T'],
                              units=case['units'])
    return cls.from_model(name='c03', model=model, T_low=lo, T_high=hi, T_mid=tm,
                          n_interval=case['n_interval'], n_T=case['n_T'], fit_T_mid=case['fit_T_mid'])


def _model_state(model):
    import copy
    return copy.deepcopy(model.to_dict())


def _eval_mforms_case(case, ctx):
    fam, win, name = case['fam'], case['win'], case['species']
    sig = _sig_forms(case)
    _RUN_SIG.clear()
    _RUN_SIG.update(sig)
    ctx.tag('entry:from_model')
    ctx.tag('src:' + sig['source'])
    for k_ in ('argtype', 'second'):
        ctx.tag('mform:%s=%s' % (k_, case[k_]))
    ctx.tag('mform:%s T_mid=%s' % (fam.lower(), case['tmid']))
    if fam == 'SH':
        ctx.tag('sh:units=%s' % case['units'])
    if fam == 'N9':
        ctx.tag('n9:fit_T_mid=%s' % case['fit_T_mid'])
    key = dict(case)
    if ctx.state(('mforms', key)) and case != default_mforms_case(fam):
        ctx.nontrivial(('mforms', key))
    model = build_species(name)
    state0 = _model_state(model)
    tm = _mform_tmid_arg(case, win)
    tm_snap = _snapshot(tm)

    def untouched(sg, mdl, st):
        ctx.true("caller's data: the model and the T_mid argument handed to from_model are left as they were",
                 _model_state(mdl) == st and _snapshot(tm) == tm_snap, sg, case,
                 observed=_snapshot(tm), expected=tm_snap)

    sg = _step(sig, 'fit 1')
    obj1 = _mform_fit(case, model, win, tm)
    ctx.trace()
    untouched(sg, model, state0)
    _judge_model_fit(fam, win, name, case['n_T'], obj1, model, sg, case, ctx, N_LATTICE_FORMS)
    # ---- a second species / window / the same call again, in the same process
    second = case['second']
    name2, win2, model2 = name, win, model
    if second == 'species':
        name2 = MFORM_SPECIES[(MFORM_SPECIES.index(name) + 1) % len(MFORM_SPECIES)]
        model2 = build_species(name2)
    elif second == 'window':
        win2 = MFORM_WINDOWS[(MFORM_WINDOWS.index(win) + 1) % len(MFORM_WINDOWS)]
    state2 = _model_state(model2)
    tm2 = tm if second != 'window' else _mform_tmid_arg(case, win2)
    _RUN_SIG['source'] = _species_kind(name2)
    sg2 = dict(_step(sig, 'fit 2'), source=_species_kind(name2))
    obj2 = _mform_fit(case, model2, win2, tm2)
    ctx.trace()
    untouched(sg2, model2, state2)
    _judge_model_fit(fam, win2, name2, case['n_T'], obj2, model2, sg2, case, ctx, N_LATTICE_FORMS)
    _RUN_SIG['source'] = sig['source']
    _judge_model_fit(fam, win, name, case['n_T'], obj1, model, _step(sig, 'fit 1 again'),
                     case, ctx, N_LATTICE_FORMS)
    # ---- results are fresh containers: a third fit of the first call does not see the scribble
    _scribble(fam, obj1)
    _scribble(fam, obj2)
    sg3 = _step(sig, 'fit 3')
    obj3 = _mform_fit(case, model, win, tm)
    ctx.trace()
    untouched(sg3, model, state0)
    _judge_model_fit(fam, win, name, case['n_T'], obj3, model, sg3, case, ctx, N_LATTICE_FORMS)


def default_forms_case(fam):
    lat = FORM_LATTICES[0]
    d = dict(part='forms', fam=fam, src=FORM_SRC[fam][0], win=[lat[0], lat[1]], n_T=lat[2], order='asc',
             cont='f8', tmid=FORM_TMID[fam][0], tref=FORM_TREF[fam][0], tref_type='float', second='same')
    if fam == 'SH':
        d['units'] = 'J/mol/K'
    return d


def default_mforms_case(fam):
    d = dict(part='mforms', fam=fam, species='H2O', win=list(MFORM_WINDOWS[0]), n_T=50, argtype='float',
             tmid=MFORM_TMID[fam][0], second='same')
    if fam == 'SH':
        d['units'] = 'J/mol/K'
    if fam == 'N9':
        d['n_interval'] = 2
        d['fit_T_mid'] = False
    return d


def _forms_alphabet(fam):
    al = dict(src=FORM_SRC[fam], lat=[0, 1, 2], order=ORDERS, cont=CONTAINERS, tmid=FORM_TMID[fam],
              tref=FORM_TREF[fam], tref_type=TREF_TYPES, second=SECOND_CALLS)
    if fam == 'SH':
        al['units'] = UNITS
    return al


def _valid_forms(case):
    fam = case['fam']
    if fam == 'N9':
        nb = N9_FORM_BREAKS[case['tmid']]
        if '|' in case['src'] and case['src'].count('|') != nb:
            return False                    # piecewise data are paired with the matching number of breaks
        if case['tref'] == 'b1' and nb == 0:
            return False
    return True


def _forms_cases(fam, tier):
    """quick: every case within 2 deviations of the default + the complete product of the four new
    coordinates (source x row order x container x second call); thorough: 3 deviations + the complete
    product of those four with the T_mid form."""
    al = _forms_alphabet(fam)
    default = default_forms_case(fam)
    default['lat'] = 0
    level = 3 if tier == 'thorough' else 2
    cases = _deviations(default, al, level)
    prod = ['src', 'order', 'cont', 'second'] + (['tmid'] if tier == 'thorough' else [])
    for vals in itertools.product(*[al[c_] for c_ in prod]):
        d = dict(default)
        d.update(dict(zip(prod, vals)))
        cases.append(d)
    seen, out = set(), []
    for d in cases:
        d = dict(d)
        lat = FORM_LATTICES[d.pop('lat')]
        d['win'], d['n_T'] = [lat[0], lat[1]], lat[2]
        k = repr(sorted(d.items()))
        if k in seen or not _valid_forms(d):
            continue
        seen.add(k)
        out.append(d)
    return out


def _mforms_alphabet(fam):
    al = dict(species=MFORM_SPECIES, win=[list(w) for w in MFORM_WINDOWS], n_T=[50, 15], argtype=MFORM_ARGTYPES,
              tmid=MFORM_TMID[fam], second=MFORM_SECOND)
    if fam == 'SH':
        al['units'] = UNITS
    if fam == 'N9':
        al['n_interval'] = [2, 1, 3]
        al['fit_T_mid'] = [False, True]
    return al


def _valid_mforms(case):
    if case['fam'] == 'N9':
        if case['tmid'] in ('scalar', 'int') and case['n_interval'] != 2:
            return False                    # a scalar names exactly one break
    return True


def _mforms_cases(fam, tier):
    al = _mforms_alphabet(fam)
    default = default_mforms_case(fam)
    cases = _deviations(default, al, 3 if tier == 'thorough' else 2)
    return [d for d in cases if _valid_mforms(d)]


# ------------------------------------------- part E: T_mid candidate LISTS with candidates near the ends
# (fourth round, see notes/C03.md)  NASA-7 screens a caller-supplied list of break candidates.  The lists of
# parts A - D hold only candidates in the middle of the window; here every list also holds candidates that hug
# an end of the window (1 ... 5 data temperatures on the short side, between two rows and exactly on a row), in
# every position of the list, alone, at both ends, and lists made of such candidates only.
TML_INNER = [0.35, 0.5, 0.65]                   # candidates that leave >= 5 rows on both sides (n_T >= 15)
TML_TRUE = 1                                    # piecewise data: the generating break is the 2nd inner candidate
TML_SHORT = [1, 2, 3, 4, 5]                     # rows left on the short side (5 = the smallest legal side)
TML_SPECIES = ['H2O', 'N2', 'ads6']
TML_SRC = ['h2o_lo|h2o_hi', 'alt|ads', 'h2o_lo']
TML_WINDOWS = [[100.0, 3000.0], [298.15, 1000.0]]
TML_NT = [50, 15]
CL_CAND = 'T_mid list: the reported T_mid is one of the candidates handed in'
CL_SPLIT = ('T_mid list: each coefficient set is the least-squares fit of the data on its side of the reported T_mid '
            '(rms residual at the data temperatures = the optimum of an independent fit)')


def _tml_huggers(win, n_T):
    """{name: temperature}: 'lo3' leaves 3 rows at or below it (between two rows), 'lo4=' lies exactly on the 4th
    row; 'hi3' leaves 3 rows above it, 'hi4=' lies on the 5th row from the top (4 rows above)."""
    T = np.linspace(win[0], win[1], n_T)
    out = {}
    for k in TML_SHORT:
        out['lo%d' % k] = float(0.5 * (T[k - 1] + T[k]))
        out['hi%d' % k] = float(0.5 * (T[n_T - k - 1] + T[n_T - k]))
    out['lo4='] = float(T[3])
    out['hi4='] = float(T[n_T - 5])
    return out


def _tml_lists(tier):
    """[(list name, [candidate names])]: one end-hugging candidate in every position of the inner list; both ends;
    end-hugging candidates only; one inner candidate behind / in front of two of them."""
    inner = ['in0', 'in1', 'in2']
    hug = ['%s%d' % (s, k) for k in TML_SHORT for s in ('lo', 'hi')] + ['lo4=', 'hi4=']
    out = []
    for h in hug:
        for pos in range(len(inner) + 1):
            out.append(('%s@%d' % (h, pos), inner[:pos] + [h] + inner[pos:]))
    out += [('both-ends', ['lo2'] + inner + ['hi2']), ('both-first', ['hi2', 'lo2'] + inner),
            ('both-last', inner + ['lo2', 'hi2']), ('only-huggers', ['lo2', 'hi2']), ('only-lo4', ['lo4']),
            ('only-hi1', ['hi1']), ('one-inner-last', ['lo1', 'hi3', 'in1']), ('one-inner-first', ['in1', 'hi3', 'lo1']),
            ('huggers-around', ['lo3', 'in0', 'hi3', 'in2', 'lo1'])]
    if tier == 'thorough':
        for a, b in itertools.product(hug[:8], repeat=2):
            if a != b:
                out.append(('%s,%s,inner' % (a, b), [a, b] + inner))
    return out


def _tml_values(case):
    win = case['win']
    table = _tml_huggers(win, case['n_T'])
    for i, f in enumerate(TML_INNER):
        table['in%d' % i] = _frac(win, f)
    return [table[n] for n in case['cands']]


def _tml_arg(case):
    vals = _tml_values(case)
    if case['cont'] == 'tuple':
        return tuple(vals)
    if case['cont'] == 'array':
        return np.array(vals, dtype=np.float64)
    return list(vals)


def _side_optimum(T, y):
    """rms residual of an independent least-squares fit of a 4th-order polynomial (numpy lstsq, columns scaled to the
    largest temperature); zero when the side holds fewer than 5 distinct rows (the data can be interpolated)."""
    if len(T) == 0:
        return 0.0
    x = np.asarray(T, dtype=float) / float(np.max(T))
    A = np.stack([x ** k for k in range(5)], axis=1)
    coef = np.linalg.lstsq(A, y, rcond=None)[0]
    return float(np.sqrt(np.mean((A @ coef - y) ** 2)))


def _tml_split_clauses(obj, T, CpoR, cands, sig, case, ctx):
    """The reported break is one of the candidates, and a_low / a_high belong to THAT break."""
    tm = float(obj.T_mid)
    ctx.true(CL_CAND, any(tm == float(c_) for c_ in cands), sig, case, observed=tm, expected=[float(c_) for c_ in cands])
    T = np.asarray(T, dtype=float)
    CpoR = np.asarray(CpoR, dtype=float)
    below = float(np.nextafter(tm, 0.0))
    ctx.evals(len(T))
    tried = []
    # a row exactly ON the reported break may have been fitted with either side (the statement does not say which):
    # both assignments are tried, the row being read from the polynomial of the side it is assigned to
    for row_on_break in (['low', 'high'] if np.any(T == tm) else ['low']):
        lo = (T < tm) | ((T == tm) & (row_on_break == 'low'))
        fit = np.array([float(np.squeeze(obj.get_CpoR(T=below if (t == tm and row_on_break == 'low') else float(t))))
                        for t in T])
        obs, best = [], []
        for side in (lo, ~lo):
            obs.append(float(np.sqrt(np.mean((fit[side] - CpoR[side]) ** 2))) if np.any(side) else 0.0)
            best.append(_side_optimum(T[side], CpoR[side]))
        tried.append((max(abs(a - b) for a, b in zip(obs, best)), obs, best))
    if len(tried) > 1:
        ctx.tag('tmlist:a data row lies exactly on the reported break')
    _, obs, best = min(tried, key=lambda t: t[0])
    ctx.close(CL_SPLIT, obs, best, sig, case, rtol=1e-6, atol=1e-8 * (1.0 + float(np.max(np.abs(CpoR)))))
    n_lo, n_hi = int(np.sum(np.unique(T) <= tm)), int(np.sum(np.unique(T) > tm))
    return n_lo, n_hi


def _sig_tmlist(case):
    return {'fam': 'N7', 'entry': case['entry'], 'tmid': 'list with end-hugging candidates',
            'source': _species_kind(case['src']) if case['entry'] == 'from_model'
            else ('piecewise' if '|' in case['src'] else 'single')}


def _eval_tmlist_case(case, ctx):
    win, n_T, entry = case['win'], case['n_T'], case['entry']
    sig = _sig_tmlist(case)
    cands = _tml_values(case)
    tm_arg = _tml_arg(case)
    snap = _snapshot(tm_arg)
    T = np.linspace(win[0], win[1], n_T)
    legal = [c_ for c_ in cands if np.sum(T <= c_) >= 5 and np.sum(T > c_) >= 5]
    ctx.tag('entry:' + entry)
    ctx.tag('tmlist:cont=' + case['cont'])
    ctx.tag('tmlist:some candidate leaves >= 5 rows on both sides' if legal else 'tmlist:end-hugging candidates only')
    for pos, c_ in enumerate(cands):
        if c_ not in legal:
            ctx.tag('tmlist:hugger at %s' % ('the front' if pos == 0 else 'the back' if pos == len(cands) - 1 else 'an inner position'))
            ctx.tag('tmlist:hugger near %s' % ('T_low' if c_ < 0.5 * (win[0] + win[1]) else 'T_high'))
    if ctx.state(('tmlist', dict(case))):
        ctx.nontrivial(('tmlist', dict(case)))
    if entry == 'from_model':
        name = case['src']
        model = build_species(name)
        obj = _class('N7').from_model(model=model, name='c03', T_low=win[0], T_high=win[1], T_mid=tm_arg, n_T=n_T)
        ctx.trace()
        CpoR = np.array([float(np.squeeze(model.get_CpoR(T=float(t)))) for t in T])
        n_lo, n_hi = _tml_split_clauses(obj, T, CpoR, cands, sig, case, ctx)
        if min(n_lo, n_hi) >= 5:
            ctx.tag('src:statmech')
            _judge_model_fit('N7', win, name, n_T, obj, model, sig, case, ctx, N_LATTICE_FORMS)
        else:                               # fewer than 5 rows on one side of the chosen break: the data do not
            #                                 determine that segment, no tracking demanded (anchor etc. still are)
            ctx.tag('tmlist:chosen break leaves < 5 rows on one side (tracking / reproduction skipped)')
            T_ref = (win[0] + win[1]) / 2.0
            _common_clauses('N7', obj, np.array(win), T_ref, float(np.squeeze(model.get_HoRT(T=T_ref))),
                            float(np.squeeze(model.get_SoR(T=T_ref))), sig, case, ctx)
    else:
        polys = [_poly('N7', n) for n in case['src'].split('|')]
        pieces = rp.single(polys[0]) if len(polys) == 1 else rp.piecewise(polys, [_frac(win, TML_INNER[TML_TRUE])])
        CpoR = np.array([rp.cp_pw(pieces, float(t)) for t in T])
        href, sref = _ref_values(dict(case, fam='N7', tmid='|'.join(case['cands'])))
        T_ref = _frac(win, case['tref'])
        obj = _class('N7').from_data(name='c03', T=T, CpoR=CpoR, T_ref=T_ref, HoRT_ref=href, SoR_ref=sref, T_mid=tm_arg)
        ctx.trace()
        n_lo, n_hi = _tml_split_clauses(obj, T, CpoR, cands, sig, case, ctx)
        ctx.tag('src:' + sig['source'])
        if min(n_lo, n_hi) >= 5:
            _judge_data_fit('N7', obj, pieces, T, win, T_ref, href, sref, sig, case, ctx, N_LATTICE_FORMS)
        else:                               # fewer than 5 rows on one side of the chosen break: nothing to reproduce
            ctx.tag('tmlist:chosen break leaves < 5 rows on one side (tracking / reproduction skipped)')
            _common_clauses('N7', obj, T, T_ref, href, sref, dict(sig, branch=_branch('N7', _breaks_of('N7', obj), T_ref)),
                            case, ctx)
    ctx.true("caller's data: the T_mid list handed to the fit is left as it was", _snapshot(tm_arg) == snap, sig, case,
             observed=_snapshot(tm_arg)[-1], expected=snap[-1])
    if float(obj.T_mid) not in legal:
        ctx.tag('tmlist:an end-hugging candidate was chosen')


def _tmlist_cases(fam, tier):
    if fam != 'N7':
        return []
    cases = []
    lists = _tml_lists(tier)
    for (lname, cands), win, n_T in itertools.product(lists, TML_WINDOWS, TML_NT):
        for name in TML_SPECIES:
            cases.append(dict(part='tmlist', entry='from_model', src=name, win=list(win), n_T=n_T, cands=list(cands),
                              cont='list'))
        for k, src in enumerate(TML_SRC):
            cases.append(dict(part='tmlist', entry='from_data', src=src, win=list(win), n_T=n_T, cands=list(cands),
                              cont='list', tref=[0.25, 0.8, 0.5][k]))
    # the same lists handed over as a tuple / a float array (one species, one table)
    for (lname, cands), cont in itertools.product(lists, ['tuple', 'array']):
        if tier == 'thorough' or lname.endswith('@0') or '@' not in lname:
            cases.append(dict(part='tmlist', entry='from_model', src='H2O', win=list(TML_WINDOWS[0]), n_T=50,
                              cands=list(cands), cont=cont))
            cases.append(dict(part='tmlist', entry='from_data', src=TML_SRC[0], win=list(TML_WINDOWS[0]), n_T=50,
                              cands=list(cands), cont=cont, tref=0.25))
    return cases


def _all_cases(part, fam, tier):
    return {'data': _data_cases, 'model': _model_cases, 'forms': _forms_cases,
            'mforms': _mforms_cases, 'tmlist': _tmlist_cases}[part](fam, tier)


# shard counts proportional to the measured cost of each part (cases are dealt round-robin)
N_SHARDS = {'quick': {('data', 'N7'): 12, ('data', 'N9'): 4, ('data', 'SH'): 3,
                      ('model', 'N7'): 2, ('model', 'SH'): 4, ('model', 'N9'): 9,
                      ('forms', 'N7'): 4, ('forms', 'N9'): 4, ('forms', 'SH'): 4,
                      ('mforms', 'N7'): 2, ('mforms', 'SH'): 2, ('mforms', 'N9'): 6, ('tmlist', 'N7'): 4},
            'thorough': {('data', 'N7'): 20, ('data', 'N9'): 8, ('data', 'SH'): 16,
                         ('model', 'N7'): 3, ('model', 'SH'): 14, ('model', 'N9'): 35,
                         ('forms', 'N7'): 16, ('forms', 'N9'): 16, ('forms', 'SH'): 16,
                         ('mforms', 'N7'): 6, ('mforms', 'SH'): 6, ('mforms', 'N9'): 24, ('tmlist', 'N7'): 8}}


def shards(tier):
    out = []
    for (part, fam), n in sorted(N_SHARDS[tier].items()):
        for k in range(n):
            out.append(dict(part=part, fam=fam, k=k, n=n, tier=tier))
    return out


def bounds(tier):
    q = tier == 'quick'
    return dict(
        windows=WINDOWS_Q if q else WINDOWS, n_T=NT_Q if q else NT,
        from_data=dict(
            sources={f: (SINGLES_Q[f] if q else sorted(POLYS[f])) + ['|'.join(p) for p in PIECEWISE.get(f, [])]
                     for f in ('N7', 'N9', 'SH')},
            T_mid_forms=TMID_FORMS, T_ref_positions=TREF_MODES,
            shomate_units=('all 16 on 3 sources x 2 windows, %s on everything' % UNITS_Q) if q else UNITS,
            product='complete', cases={f: len(_data_cases(f, tier)) for f in ('N7', 'N9', 'SH')}),
        from_model=dict(
            species=SPECIES, nasa9=dict(n_interval=[1, 2, 3], T_mid=['none', 'given', 'scalar'],
                                        fit_T_mid=[True, False]),
            deviation_level=('2 around (H2O, 298.15-1000 K, n_T=50, T_mid None); NASA-9: level 1 plus the '
                             'pairs that involve n_interval / T_mid / fit_T_mid') if q else 'full product',
            cases={f: len(_model_cases(f, tier)) for f in ('N7', 'N9', 'SH')}),
        histories_from_data=dict(
            steps=['fit 1', 'fit 2 from the same objects (same call / other reference / other option)',
                   'fit 1 looked at again', 'results overwritten', 'CpoR += 1 in place', 'fit 3'],
            tables=FORM_LATTICES, row_orders=ORDERS, containers=CONTAINERS, second_call=SECOND_CALLS,
            sources=FORM_SRC, T_mid_forms=FORM_TMID, T_ref_positions=FORM_TREF, T_ref_types=TREF_TYPES,
            product=('source x row order x container x second call complete; everything else within 2 '
                     'deviations of the default') if q else
                    ('source x row order x container x second call x T_mid form complete; everything else '
                     'within 3 deviations'),
            lattice_points=N_LATTICE_FORMS,
            cases={f: len(_forms_cases(f, tier)) for f in ('N7', 'N9', 'SH')}),
        histories_from_model=dict(
            steps=['fit 1', 'fit 2 (same call / next species / next window)', 'fit 1 looked at again',
                   'results overwritten', 'fit 3 (first call again)'],
            species=MFORM_SPECIES, windows=MFORM_WINDOWS, bound_types=MFORM_ARGTYPES, T_mid_forms=MFORM_TMID,
            second_call=MFORM_SECOND, deviation_level=2 if q else 3,
            cases={f: len(_mforms_cases(f, tier)) for f in ('N7', 'N9', 'SH')}),
        tmid_candidate_lists=dict(
            inner_fractions=TML_INNER, rows_on_the_short_side=TML_SHORT, on_a_row=['lo4=', 'hi4='],
            lists=[n for n, _ in _tml_lists(tier)], species=TML_SPECIES, from_data_sources=TML_SRC, windows=TML_WINDOWS,
            n_T=TML_NT, containers=['list', 'tuple', 'array'], cases=len(_tmlist_cases('N7', tier))),
        lattice_points=N_LATTICE)


def run_shard(shard, ctx):
    cases = _all_cases(shard['part'], shard['fam'], shard['tier'])
    for case in cases[shard['k']::shard['n']]:
        if case['part'] in ('forms', 'mforms'):
            run_sig = _RUN_SIG              # kept current by the history (which step is running)
        elif case['part'] == 'tmlist':
            run_sig = _sig_tmlist(case)
        else:
            run_sig = _sig_data(case) if case['part'] == 'data' else _sig_model(case)
        ctx.run_case(check_case, case, run_sig)
        ctx.sample(case, limit=1)


def check_case(case, ctx):
    import warnings
    with warnings.catch_warnings():
        warnings.simplefilter('ignore')
        {'data': _eval_data_case, 'model': _eval_model_case, 'forms': _eval_forms_case,
         'mforms': _eval_mforms_case, 'tmlist': _eval_tmlist_case}[case['part']](case, ctx)


LEVEL_TEXT = ('Bounded exhaustive exploration of the real fitting code: the complete product family x generating '
              'polynomial(s) x window x n_T x T_mid form x reference position for from_data, and a deviation-bounded '
              '(quick: 2, thorough: full) product over StatMech / constant-Cp / zero-Cp species for from_model; every '
              'fitted object is walked over a 101-point lattice plus both neighbours of each break. Anchor, '
              'continuity and bounds are decided on every case, reproduction against closed-form integrals of the '
              'generating polynomials, tracking against the source model. Call histories on caller-owned data '
              '(row order x container / dtype x source x second call complete, the rest deviation-bounded): '
              'the table and the model are left as they were, a second fit from the very same objects and a fit '
              'after an in-place edit are judged by the same oracles, results are fresh containers. NASA-7 T_mid candidate '
              'lists with candidates that hug either end of the window in every position: the reported break is one of the '
              'candidates, each coefficient set is the least-squares fit of the data on its side of the reported break '
              '(independent lstsq), plus all clauses above.')
LEVEL_NOTE = ('Finite alphabets (13 windows, n_T 15/50/200, listed sources); StatMech tracking is judged against the '
              'residual of an independent least-squares fit of the same form (factor 50/12/7 by n_T); Shomate reproduction tolerance 1e-6 because '
              'its Cp fit is iterative; reproduction is not demanded of under-determined NASA-9 segments (< 7 points). '
              'Histories: 3 integer-valued tables, 7 row orders, 4 containers, 3 kinds of second call, 25-point lattice.')
TECHNIQUE = 'deviation-bounded product enumeration + lattice walk on the implementation, closed-form reference oracle'
