"""C19 - phase diagrams and energy spans select the true extrema.

Shape B (deviation-bounded product enumeration on the real classes).

Phase diagrams: 1-8 formation reactions (oxide / hydroxide / reconstruction phases of a model
surface M against ideal-gas O2, H2O, H2 built from real StatMech modes, so that the stable phase
changes along every scan), normalisation factors from {1, 2, 0.5, 4}, scans over T, P and
per-species pressures (`O2_kwargs`, `H2O_kwargs`) with 1, 2, 5, 30 grid values, 1-D and 2-D, with
and without energy units.  Oracle: the reaction's own `get_delta_GoRT` at a *freshly built* set
of conditions, divided by the factor (x R T); the arg-min is recomputed here per grid point.

Energy span: every G-profile of 1-4 steps with state energies on {-2..2} eV and an optional
transition state per step (thorough: 5-8 steps by two deviations from base profiles), through
`Reactions.get_E_span` and `Network.get_E_span`.  Oracle: max - min (+ G_last - G_first when the
maximum precedes the minimum) on the profile the harness wrote down.
"""
import itertools
import math

import numpy as np

ID = 'C19'
RULE = ('phase diagrams: product of (number of reactions 1-8, rotation of the reaction list, offset of the '
        'normalisation-factor cycle, scan variable(s), grid size(s), energy units, base conditions) up to the '
        'stated deviation level; a case is non-trivial when the expected stable phase changes along the grid. '
        'Energy spans: all profiles of the stated lattice; non-trivial when the maximum precedes the minimum, '
        'or a tie exists, or the extremum is a transition state')
ASSUMPTIONS = ['species are real StatMech objects from a fixed table (energies on a lattice chosen so that lines cross)',
               'ties (equal normalised energies / equal extremal state energies) accept any of the tied answers',
               'the index type of the reported stable phase (int / integral float) is not part of the property',
               'T is always supplied when energy units are requested']
EXPLANATION = ('exhaustive product enumeration on the real PhaseDiagram / Reactions / Network classes; oracle from '
               'the reactions own values at freshly built conditions and from the profile written by the harness')

NORMS = [1.0, 2.0, 0.5, 4.0]
UNITS = [None, 'kJ/mol', 'eV']
RXN_ORDER = ['MO1', 'MOH1', 'MO2', 'Mstar', 'MO05', 'MOH2', 'MO3', 'MOOH']
E_M, E_O2, E_H2O, E_H2 = -50.0, -9.86, -14.2209, -6.7598
BASE_WN = [300.0, 250.0, 200.0]

T_GRID = {1: [800.0], 2: [400.0, 1400.0], 5: [300.0, 600.0, 900.0, 1200.0, 1500.0],
          30: [250.0 + 50.0 * i for i in range(30)]}
P_GRID = {1: [1e-6], 2: [1e-20, 1e2], 5: [1e-25, 1e-15, 1e-8, 1e-2, 1e2],
          30: [10.0 ** (-30.0 + 33.0 * i / 29.0) for i in range(30)]}
SCANS = ['T', 'P', 'O2_kwargs', 'H2O_kwargs']
PAIRS = [('T', 'P'), ('P', 'T'), ('T', 'O2_kwargs'), ('O2_kwargs', 'H2O_kwargs'), ('O2_kwargs', 'T')]
SIZES2 = {'quick': [(1, 1), (1, 5), (2, 5), (5, 2), (5, 5), (2, 30), (30, 1)],
          'thorough': [(1, 1), (1, 5), (2, 5), (5, 2), (5, 5), (2, 30), (30, 1), (30, 5), (5, 30), (30, 30)]}
LAT = [-2.0, -1.0, 0.0, 1.0, 2.0]
N_PD_SHARDS = 12
N_SPAN_SHARDS = 12

PLANNED_TAGS = ['pd:1D', 'pd:2D', 'pd:argmin-changes-along-grid', 'pd:argmin-constant', 'pd:n_rxn==n_x',
                'pd:n_rxn!=n_x', 'pd:units', 'pd:dimensionless', 'pd:scan-T', 'pd:scan-P', 'pd:scan-O2_kwargs',
                'pd:scan-H2O_kwargs', 'pd:single-reaction', 'pd:single-point', 'pd:norm-list', 'pd:1D=row-of-2D',
                'pd:1D=column-of-2D', 'span:max-before-min', 'span:max-after-min', 'span:tie', 'span:ts-is-max',
                'span:intermediate-is-max', 'span:no-ts', 'span:spectator', 'span:single-step', 'span:Reactions',
                'span:Network', 'span:unchained', 'pd:norm-edit-reassign', 'pd:norm-edit-inplace']


def bounds(tier):
    return dict(reactions='1-8 (first n of 8 rotations of a list of 8 formation reactions)', norm_factors=NORMS,
                scans=SCANS, grid_sizes=[1, 2, 5, 30], pairs_2D=PAIRS, sizes_2D=SIZES2[tier], units=UNITS,
                deviation_1D=('n x scan x size x units full; rotation/offset/base/list one deviation' if tier == 'quick'
                              else 'n x scan x size x units x rotation(4) x offset(4) full; base/list one deviation'),
                span_steps='1-4 exhaustive' + ('' if tier == 'quick' else ' + 5-8 by two deviations from 2 base profiles'),
                span_lattice_eV=LAT, span_ts='absent or 1 eV above the higher neighbour')


# =================================================================== phase diagrams
def _species():
    from pmutt.statmech import StatMech, trans, rot, vib, elec

    def gas(name, E, wn, rt, geom, sig, mw, el):
        return StatMech(name=name, elements=el,
                        trans_model=trans.FreeTrans(n_degrees=3, molecular_weight=mw),
                        vib_model=vib.HarmonicVib(vib_wavenumbers=list(wn)),
                        rot_model=rot.RigidRotor(symmetrynumber=sig, geometry=geom, rot_temperatures=list(rt)),
                        elec_model=elec.GroundStateElec(potentialenergy=E, spin=0))

    def solid(name, E, wn, el):
        return StatMech(name=name, elements=el, vib_model=vib.HarmonicVib(vib_wavenumbers=list(wn)),
                        elec_model=elec.GroundStateElec(potentialenergy=E, spin=0))

    sp = {'O2': gas('O2', E_O2, [2205.0], [2.08], 'linear', 2, 31.998, {'O': 2}),
          'H2O': gas('H2O', E_H2O, [3825.43, 3710.26, 1582.43], [40.1, 20.9, 13.4], 'nonlinear', 2, 18.015,
                     {'H': 2, 'O': 1}),
          'H2': gas('H2', E_H2, [4306.18], [87.6], 'linear', 2, 2.016, {'H': 2}),
          'M': solid('M', E_M, BASE_WN, {'Pt': 1}),
          'Mstar': solid('Mstar', E_M + 0.05, [200.0, 150.0, 100.0], {'Pt': 1})}
    for tag, n in (('MO05', 0.5), ('MO1', 1.0), ('MO2', 2.0), ('MO3', 3.0)):
        E = E_M + n * E_O2 / 2 + n * (-1.2) + 0.15 * n * n
        sp[tag] = solid(tag, E, BASE_WN + [500.0, 450.0, 400.0] * int(math.ceil(n)), {'Pt': 1, 'O': n})
    for tag, m in (('MOH1', 1), ('MOH2', 2)):
        E = E_M + m * (E_H2O - E_H2 / 2) + m * (-0.3) + 0.1 * m * m
        sp[tag] = solid(tag, E, BASE_WN + [3600.0, 900.0, 500.0] * m, {'Pt': 1, 'O': m, 'H': m})
    sp['MOOH'] = solid('MOOH', E_M + E_O2 / 2 + E_H2O - E_H2 / 2 - 1.6,
                       BASE_WN + [3600.0, 900.0, 600.0, 500.0, 450.0, 400.0], {'Pt': 1, 'O': 2, 'H': 1})
    return sp


def _reaction(tag, sp):
    from pmutt.reaction import Reaction
    M = sp['M']
    if tag.startswith('MO') and tag[2:].isdigit():
        n = {'MO05': 0.5, 'MO1': 1.0, 'MO2': 2.0, 'MO3': 3.0}[tag]
        return Reaction(reactants=[M, sp['O2']], reactants_stoich=[1, n / 2], products=[sp[tag]], products_stoich=[1])
    if tag.startswith('MOH'):
        m = int(tag[3:])
        return Reaction(reactants=[M, sp['H2O']], reactants_stoich=[1, m], products=[sp[tag], sp['H2']],
                        products_stoich=[1, m / 2])
    if tag == 'Mstar':
        return Reaction(reactants=[M], reactants_stoich=[1], products=[sp['Mstar']], products_stoich=[1])
    if tag == 'MOOH':
        return Reaction(reactants=[M, sp['O2'], sp['H2O']], reactants_stoich=[1, 0.5, 1], products=[sp[tag], sp['H2']],
                        products_stoich=[1, 0.5])
    raise ValueError(tag)


def _diagram(case):
    from pmutt.reaction.phasediagram import PhaseDiagram
    sp = _species()
    order = RXN_ORDER[case['rot']:] + RXN_ORDER[:case['rot']]
    tags = order[:case['n']]
    rxns = [_reaction(t, sp) for t in tags]
    norms = [NORMS[(i + case['off']) % 4] for i in range(case['n'])]
    nf = list(norms) if case.get('normlist') else np.array(norms)
    return PhaseDiagram(reactions=rxns, norm_factors=nf), rxns, norms


def _grid(name, n):
    if name == 'T':
        return list(T_GRID[n])
    if name == 'P':
        return list(P_GRID[n])
    return [{'P': p} for p in P_GRID[n]]


def _base(names, variant):
    """Fixed conditions for everything that is not scanned (a fresh dict every call)."""
    kw = {}
    if 'T' not in names:
        kw['T'] = 800.0 if variant == 'a' else 1100.0
    if 'P' not in names:
        if variant == 'a':
            kw['P'] = 1.0
        elif 'T' in names:
            kw['P'] = 1e-3
    if variant == 'b':
        if 'O2_kwargs' not in names and 'T' in names:
            kw['O2_kwargs'] = {'P': 1e-12}
        if 'H2O_kwargs' not in names and 'P' in names:
            kw['H2O_kwargs'] = {'P': 1e-4}
    return kw


def _cond(base, **point):
    kw = {k: (dict(v) if isinstance(v, dict) else v) for k, v in base.items()}
    for k, v in point.items():
        kw[k] = dict(v) if isinstance(v, dict) else v
    return kw


def _expected(rxns, norms, cond, units):
    """The reaction's own value at freshly built conditions / factor (x R T)."""
    from pmutt import constants as c
    out = []
    for r, nf in zip(rxns, norms):
        v = r.get_delta_GoRT(**_cond(cond)) / nf
        if units is not None:
            v *= c.R('%s/K' % units) * cond['T']
        out.append(v)
    return np.array(out)


def _argmin_ok(reported, col, tol):
    """reported index is integral, in range and has the minimal value of the column (ties accepted)."""
    try:
        k = int(reported)
    except (TypeError, ValueError):
        return False
    if k != reported or not 0 <= k < len(col):
        return False
    return col[k] <= np.min(col) + tol


def _pd_sig(case):
    if case['kind'] == 'pd1':
        return dict(part='phase-diagram', dim=1, scan=case['scan'], units='energy' if case['units'] else 'none')
    return dict(part='phase-diagram', dim=2, scan='%s,%s' % tuple(case['pair']),
                units='energy' if case['units'] else 'none')


def _check_1d(pd, rxns, norms, name, grid, base, units, ctx, sig, case, tag=True):
    """All 1-D clauses; returns (table, stable) or None."""
    n, nx = len(rxns), len(grid)
    G, st = pd.get_GoRT_1D(x_name=name, x_values=[dict(g) if isinstance(g, dict) else g for g in grid],
                           G_units=units, **_cond(base))
    ctx.trace()
    ctx.evals(n * nx)
    G, st = np.asarray(G), np.asarray(st)
    exp = np.array([_expected(rxns, norms, _cond(base, **{name: g}), units) for g in grid]).T.reshape(n, nx)
    ctx.evals(n * nx)
    ok = ctx.true('1-D table has shape (n_reactions, n_x)', G.shape == (n, nx), sig, case, list(G.shape), [n, nx])
    if not ok:
        return None
    ok &= ctx.close('tabulated energy = reaction value / normalisation factor (x RT with units)', G, exp, sig, case,
                    rtol=1e-10, scale=np.abs(exp) + 1.0)
    okp = ctx.true('stable-phase array has one entry per grid point', st.shape == (nx,), sig, case, list(st.shape),
                   [nx])
    tol = 1e-9 * (np.max(np.abs(exp)) + 1.0)
    if okp:
        good = [bool(_argmin_ok(st[j], exp[:, j], tol)) for j in range(nx)]
        okp &= ctx.true('reported stable phase has the lowest normalised energy at each grid point', all(good), sig,
                        case, [int(v) if float(v).is_integer() else float(v) for v in st.tolist()],
                        [int(np.argmin(exp[:, j])) for j in range(nx)])
    if tag:
        am = [int(np.argmin(exp[:, j])) for j in range(nx)]
        ctx.tag('pd:argmin-changes-along-grid' if len(set(am)) > 1 else 'pd:argmin-constant')
        ctx.tag('pd:n_rxn==n_x' if n == nx else 'pd:n_rxn!=n_x')
    return (G, st) if (ok and okp) else None


def _run_pd1(case, ctx):
    sig = _pd_sig(case)
    pd, rxns, norms = _diagram(case)
    name, units = case['scan'], case['units']
    grid = _grid(name, case['nx'])
    base = _base([name], case['base'])
    ctx.tag('pd:1D')
    ctx.tag('pd:scan-' + name)
    ctx.tag('pd:units' if units else 'pd:dimensionless')
    if case['n'] == 1:
        ctx.tag('pd:single-reaction')
    if case['nx'] == 1:
        ctx.tag('pd:single-point')
    if case.get('normlist'):
        ctx.tag('pd:norm-list')
    ctx.trans(case['n'] * case['nx'])
    _check_1d(pd, rxns, norms, name, grid, base, units, ctx, sig, case)
    hist = case.get('hist')
    if hist:
        # history: scan, change the public norm_factors attribute, scan again on the same object -
        # the second table must use the factors the object carries NOW
        ctx.tag('pd:norm-edit-' + hist)
        new = [NORMS[(i + case['off'] + 1) % 4] for i in range(case['n'])]
        if hist == 'reassign':
            pd.norm_factors = list(new) if case.get('normlist') else np.array(new)
        else:
            for i, v in enumerate(new):
                pd.norm_factors[i] = v
        ctx.trans(case['n'] * case['nx'])
        _check_1d(pd, rxns, new, name, grid, base, units, ctx, dict(sig, history='scan, edit norm_factors (%s), scan' % hist),
                  case, tag=False)


def _run_pd2(case, ctx):
    sig = _pd_sig(case)
    pd, rxns, norms = _diagram(case)
    (a, b), (na, nb), units = case['pair'], case['sizes'], case['units']
    ga, gb = _grid(a, na), _grid(b, nb)
    base = _base([a, b], case['base'])
    n = len(rxns)
    ctx.tag('pd:2D')
    ctx.tag('pd:scan-' + a)
    ctx.tag('pd:scan-' + b)
    ctx.tag('pd:units' if units else 'pd:dimensionless')
    ctx.trans(n * na * nb)
    G, st = pd.get_GoRT_2D(x1_name=a, x1_values=[dict(g) if isinstance(g, dict) else g for g in ga],
                           x2_name=b, x2_values=[dict(g) if isinstance(g, dict) else g for g in gb],
                           G_units=units, **_cond(base))
    ctx.trace()
    ctx.evals(n * na * nb)
    G, st = np.asarray(G), np.asarray(st)
    if not ctx.true('2-D table has shape (n_reactions, n_x1, n_x2)', G.shape == (n, na, nb), sig, case, list(G.shape),
                    [n, na, nb]):
        return
    exp = np.zeros((n, na, nb))
    for j, xa in enumerate(ga):
        for k, xb in enumerate(gb):
            exp[:, j, k] = _expected(rxns, norms, _cond(base, **{a: xa, b: xb}), units)
    ctx.evals(n * na * nb)
    ok = ctx.close('tabulated energy = reaction value / normalisation factor (x RT with units)', G, exp, sig, case,
                   rtol=1e-10, scale=np.abs(exp) + 1.0)
    okp = ctx.true('stable-phase array has one entry per grid point', st.shape == (na, nb), sig, case, list(st.shape),
                   [na, nb])
    tol = 1e-9 * (np.max(np.abs(exp)) + 1.0)
    am = np.argmin(exp, axis=0)
    if okp:
        good = all(_argmin_ok(st[j, k], exp[:, j, k], tol) for j in range(na) for k in range(nb))
        okp &= ctx.true('reported stable phase has the lowest normalised energy at each grid point', good, sig, case,
                        st.tolist(), am.tolist())
    ctx.tag('pd:argmin-changes-along-grid' if len(set(am.ravel().tolist())) > 1 else 'pd:argmin-constant')
    if not (ok and okp):
        return
    # one- and two-parameter scans agree: rows (x1 fixed) and columns (x2 fixed)
    rows = range(na) if na <= 5 else (0, na // 2, na - 1)
    cols = range(nb) if nb <= 5 else (0, nb // 2, nb - 1)
    for j in rows:
        s1 = dict(sig, dim='1-vs-2')
        r = _check_1d(pd, rxns, norms, b, gb, _cond(base, **{a: ga[j]}), units, ctx, s1, case, tag=False)
        ctx.tag('pd:1D=row-of-2D')
        if r is None:
            continue
        ctx.close('1-D scan equals the corresponding row/column of the 2-D scan (energies)', r[0], G[:, j, :], s1,
                  case, rtol=1e-12, scale=np.abs(G[:, j, :]) + 1.0)
        uniq = [np.sum(exp[:, j, k] <= np.min(exp[:, j, k]) + tol) == 1 for k in range(nb)]
        same = all((float(r[1][k]) == float(st[j, k])) or not uniq[k] for k in range(nb))
        ctx.true('1-D scan equals the corresponding row/column of the 2-D scan (stable phases)', same, s1, case,
                 r[1].tolist(), st[j, :].tolist())
    for k in cols:
        s1 = dict(sig, dim='1-vs-2')
        r = _check_1d(pd, rxns, norms, a, ga, _cond(base, **{b: gb[k]}), units, ctx, s1, case, tag=False)
        ctx.tag('pd:1D=column-of-2D')
        if r is None:
            continue
        ctx.close('1-D scan equals the corresponding row/column of the 2-D scan (energies)', r[0], G[:, :, k], s1,
                  case, rtol=1e-12, scale=np.abs(G[:, :, k]) + 1.0)
        uniq = [np.sum(exp[:, j, k] <= np.min(exp[:, j, k]) + tol) == 1 for j in range(na)]
        same = all((float(r[1][j]) == float(st[j, k])) or not uniq[j] for j in range(na))
        ctx.true('1-D scan equals the corresponding row/column of the 2-D scan (stable phases)', same, s1, case,
                 r[1].tolist(), st[:, k].tolist())


def _pd1_cases(tier):
    seen = set()

    def emit(**kw):
        case = dict(kind='pd1', n=kw['n'], rot=kw['rot'], off=kw['off'], scan=kw['scan'], nx=kw['nx'],
                    units=kw['units'], base=kw['base'], normlist=kw['normlist'])
        if kw.get('hist'):
            case['hist'] = kw['hist']
        key = tuple(sorted((k, str(v)) for k, v in case.items()))
        if key not in seen:
            seen.add(key)
            return case
        return None

    rots = [0] if tier == 'quick' else [0, 2, 4, 6]
    offs = [0] if tier == 'quick' else [0, 1, 2, 3]
    for n in range(1, 9):
        for scan in SCANS:
            for nx in (1, 2, 5, 30):
                for units in UNITS:
                    for rot in rots:
                        for off in offs:
                            c = emit(n=n, rot=rot, off=off, scan=scan, nx=nx, units=units, base='a', normlist=False)
                            if c:
                                yield c
                    # one deviation each from the default of the remaining dimensions
                    if nx in (2, 5):
                        devs = [dict(base='b'), dict(normlist=True), dict(hist='reassign'), dict(hist='inplace'),
                                dict(hist='inplace', normlist=True)]
                        if tier == 'quick':
                            devs += [dict(rot=r) for r in (2, 4, 6)] + [dict(off=o) for o in (1, 2, 3)]
                        for dv in devs:
                            kw = dict(n=n, rot=0, off=0, scan=scan, nx=nx, units=units, base='a', normlist=False)
                            kw.update(dv)
                            c = emit(**kw)
                            if c:
                                yield c


def _pd2_cases(tier):
    for n in ((1, 3, 8) if tier == 'quick' else range(1, 9)):
        for pair in PAIRS:
            for sizes in SIZES2[tier]:
                if sizes == (30, 30) and n not in (3, 8):
                    continue
                for units in (UNITS if sizes[0] * sizes[1] <= 25 else [None, 'eV']):
                    for rot, off, base in ((0, 0, 'a'), (3, 1, 'b')):
                        if (rot, off, base) != (0, 0, 'a') and sizes[0] * sizes[1] > 25:
                            continue
                        yield dict(kind='pd2', n=n, rot=rot, off=off, pair=list(pair), sizes=list(sizes), units=units,
                                   base=base, normlist=False)


# =================================================================== energy spans
def _ts_codes(k):
    return itertools.product((0, 1), repeat=k)


def _span_cases(tier):
    for k in (1, 2, 3, 4):
        firsts = LAT if k <= 3 else [0.0]
        for first in firsts:
            for rest in itertools.product(LAT, repeat=k):
                for ts in _ts_codes(k):
                    yield dict(kind='span', g=[first] + list(rest), ts=list(ts), spect=False)
    # spectator species with stoichiometry 2 in every state (adds a constant): 1-2 steps
    for k in (1, 2):
        for g in itertools.product(LAT, repeat=k + 1):
            for ts in _ts_codes(k):
                yield dict(kind='span', g=list(g), ts=list(ts), spect=True)
    # sequences whose steps do NOT share states (each step written with its own species): the reactant
    # state of every step is a state of the sequence in its own right
    for rp in itertools.product(LAT, repeat=4):
        for ts in _ts_codes(2):
            yield dict(kind='span', g=list(rp), ts=list(ts), spect=False, chain=False)
    if tier == 'thorough':
        for rp in itertools.product(LAT, repeat=6):
            for ts in ((0, 0, 0), (1, 1, 1), (0, 1, 0)):
                yield dict(kind='span', g=list(rp), ts=list(ts), spect=False, chain=False)
    if tier == 'thorough':
        seen = set()
        for k in (5, 6, 7, 8):
            bases = [([0.0] * (k + 1), [0] * k), ([float(i % 2) for i in range(k + 1)], [1] * k)]
            npos = 2 * k + 1
            for g0, t0 in bases:
                for p, q in itertools.combinations(range(npos), 2):
                    opts = []
                    for pos in (p, q):
                        opts.append(LAT if pos <= k else [0, 1])
                    for vp, vq in itertools.product(*opts):
                        g, t = list(g0), list(t0)
                        for pos, v in ((p, vp), (q, vq)):
                            if pos <= k:
                                g[pos] = v
                            else:
                                t[pos - k - 1] = int(v)
                        key = (tuple(g), tuple(t))
                        if key in seen:
                            continue
                        seen.add(key)
                        yield dict(kind='span', g=g, ts=t, spect=False)


def _profile(case):
    """The profile as the harness defines it: ordered (name, energy, is_ts) of the physical states."""
    g, ts = case['g'], case['ts']
    if case.get('chain') is False:
        out = []
        for i in range(len(ts)):
            r, p = g[2 * i], g[2 * i + 1]
            out.append(('R%d' % i, r, False))
            if ts[i]:
                out.append(('TS%d' % i, max(r, p) + 1.0, True))
            out.append(('P%d' % i, p, False))
        return out
    out = [('S0', g[0], False)]
    for i in range(len(ts)):
        if ts[i]:
            out.append(('TS%d' % i, max(g[i], g[i + 1]) + 1.0, True))
        out.append(('S%d' % (i + 1), g[i + 1], False))
    return out


def _span_candidates(E):
    """max - min (+ last - first when the maximum precedes the minimum); every tied choice."""
    mx, mn = max(E), min(E)
    imax = [i for i, v in enumerate(E) if v == mx]
    imin = [i for i, v in enumerate(E) if v == mn]
    cands = set()
    for a in imax:
        for b in imin:
            cands.add(mx - mn + ((E[-1] - E[0]) if a < b else 0.0))
    branch = 'tie' if len(cands) > 1 else ('before' if imax[0] < imin[0] else 'after')
    return sorted(cands), branch, imax


def _span_sig(case, api=None, units=None):
    prof = _profile(case)
    _, branch, _ = _span_candidates([p[1] for p in prof])
    s = dict(part='e-span', branch=branch)
    if case.get('chain') is False:
        s['steps'] = 'unchained'
    if api:
        s['api'] = api
        s['units'] = units or 'none'
    return s


X_G = 0.37          # spectator Gibbs energy, eV


def _run_span(case, ctx):
    from pmutt import constants as c
    from pmutt.statmech import StatMech, ConstantMode
    from pmutt.reaction import Reaction, Reactions
    from pmutt.reaction.network import Network
    prof = _profile(case)
    E = [p[1] for p in prof]
    cands, branch, imax = _span_candidates(E)
    sp = {name: StatMech(name=name, trans_model=ConstantMode(G=e)) for name, e, _ in prof}
    spect = case['spect']
    X = StatMech(name='X', trans_model=ConstantMode(G=X_G)) if spect else None

    def state(name):
        return ([sp[name], X], [1, 2]) if spect else ([sp[name]], [1])

    k = len(case['ts'])
    rxns = []
    unchained = case.get('chain') is False
    if unchained:
        ctx.tag('span:unchained')
    for i in range(k):
        r, rs = state('R%d' % i if unchained else 'S%d' % i)
        p, ps = state('P%d' % i if unchained else 'S%d' % (i + 1))
        t, tst = (state('TS%d' % i) if case['ts'][i] else (None, None))
        rxns.append(Reaction(reactants=r, reactants_stoich=rs, products=p, products_stoich=ps, transition_state=t,
                             transition_state_stoich=tst))
    ctx.trans(k)
    ctx.tag({'before': 'span:max-before-min', 'after': 'span:max-after-min', 'tie': 'span:tie'}[branch])
    ctx.tag('span:ts-is-max' if prof[imax[0]][2] else 'span:intermediate-is-max')
    if not any(case['ts']):
        ctx.tag('span:no-ts')
    if spect:
        ctx.tag('span:spectator')
    if k == 1:
        ctx.tag('span:single-step')
    T = 300.0 if (int(sum(case['g'])) % 2 == 0) else 650.0

    def nearest(obs, factor):
        cs = [v * factor for v in cands]
        try:
            return min(cs, key=lambda v: abs(v - float(obs)))
        except (TypeError, ValueError):
            return cs[0]

    clause = 'energy span = highest - lowest state G (+ overall reaction G when the highest precedes the lowest)'
    # Reactions.get_E_span
    ctx.tag('span:Reactions')
    for units in ('eV', 'kJ/mol'):
        obs = Reactions(reactions=rxns).get_E_span(units=units, T=T)
        ctx.trace()
        ctx.evals()
        f = c.R('%s/K' % units) / c.R('eV/K')
        ctx.close(clause, obs, nearest(obs, f), _span_sig(case, 'Reactions', units), case, rtol=1e-9,
                  scale=(abs(max(E)) + abs(min(E)) + 2 * X_G + 1.0) * f)
    if unchained:
        return          # Network.get_E_span follows a path of shared states; not defined for unchained steps
    # Network.get_E_span along the path written down by the harness
    ctx.tag('span:Network')
    net = Network(reactions=rxns)
    path = [frozenset([(name, 1), ('X', 2)]) if spect else frozenset([(name, 1)]) for name, _, _ in prof]
    for units in ('eV', None):
        obs = net.get_E_span(path=path, units=units, T=T)
        ctx.trace()
        ctx.evals()
        f = 1.0 if units else 1.0 / (c.R('eV/K') * T)
        ctx.close(clause, obs, nearest(obs, f), _span_sig(case, 'Network', units), case, rtol=1e-9,
                  scale=(abs(max(E)) + abs(min(E)) + 2 * X_G + 1.0) * f)


# =================================================================== runner interface
def shards(tier):
    out = [dict(kind='pd1', part=i, nparts=N_PD_SHARDS) for i in range(N_PD_SHARDS)]
    out += [dict(kind='pd2', part=i, nparts=N_PD_SHARDS) for i in range(N_PD_SHARDS)]
    out += [dict(kind='span', part=i, nparts=N_SPAN_SHARDS) for i in range(N_SPAN_SHARDS)]
    return out


def check_case(case, ctx):
    if case['kind'] == 'pd1':
        _run_pd1(case, ctx)
    elif case['kind'] == 'pd2':
        _run_pd2(case, ctx)
    elif case['kind'] == 'span':
        _run_span(case, ctx)
    else:
        raise ValueError(case['kind'])


def run_shard(shard, ctx):
    kind = shard['kind']
    gen = {'pd1': _pd1_cases, 'pd2': _pd2_cases, 'span': _span_cases}[kind](ctx.tier)
    fn = {'pd1': _run_pd1, 'pd2': _run_pd2, 'span': _run_span}[kind]
    for i, case in enumerate(gen):
        if i % shard['nparts'] != shard['part']:
            continue
        if kind == 'span':
            sig = _span_sig(case)
            key = ('span', tuple(case['g']), tuple(case['ts']), case['spect'], case.get('chain', True))
            ctx.state(key)
            if sig['branch'] != 'after' or any(case['ts']):
                ctx.nontrivial(key)
        else:
            sig = _pd_sig(case)
            key = tuple(sorted((k, str(v)) for k, v in case.items()))
            ctx.state(key)
            if case['n'] > 1:
                ctx.nontrivial(key)
        ctx.run_case(fn, case, sig)
        if i % 1499 == shard['part']:
            ctx.sample(case, limit=1)


LEVEL_TEXT = ('Exhaustive product enumeration on the real PhaseDiagram, Reactions and Network classes: 1-8 formation '
              'reactions with normalisation factors {1,2,0.5,4}, scans over T, P and per-species pressures with 1, 2, 5 '
              'and 30 grid values, 1-D and 2-D, with and without units, checked against the reactions own values at '
              'freshly built conditions and a recomputed arg-min per grid point, with every 2-D row/column compared to '
              'the 1-D scan; and every G-profile of 1-4 steps on a five-value lattice with optional transition states '
              'through both energy-span implementations.')
LEVEL_NOTE = ('Species from a fixed table whose lines cross along each scan; rotations/offsets of the reaction list by '
              'one deviation in the quick tier, full in the thorough tier; 5-8 step profiles only in the thorough tier '
              '(two deviations from two base profiles). Ties accept any tied answer.')
TECHNIQUE = 'deviation-bounded exhaustive product enumeration on the implementation, independent arg-min / span oracle'
