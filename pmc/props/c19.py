"""C19 - phase diagrams and energy spans select the true extrema.

Shape B (deviation-bounded product enumeration on the real classes).

Phase diagrams: 1-8 formation reactions (oxide / hydroxide / reconstruction phases of a model
surface M against ideal-gas O2, H2O, H2 built from real StatMech modes, so that the stable phase
changes along every scan), normalisation factors from {1, 2, 0.5, 4}, scans over T, P and
per-species pressures (`O2_kwargs`, `H2O_kwargs`) with 1, 2, 5, 30 grid values, 1-D and 2-D, with
and without energy units.  Oracle: the reaction's own `get_delta_GoRT` at a *freshly built* set
of conditions, divided by the factor (x R T); the arg-min is recomputed here per grid point.

Energy span: every G-profile of 1-4 steps with state energies on {-2..2} eV and an optional
transition state per step (thorough: 5-8 steps by two deviations from base profiles), through
`Reactions.get_E_span` and `Network.get_E_span`.  Oracle: max - min (+ G_last - G_first when the
maximum precedes the minimum) on the profile the harness wrote down.
"""
import copy
import itertools
import math
import numbers

import numpy as np

ID = 'C19'
RULE = ('phase diagrams: product of (number of reactions 1-8, rotation of the reaction list, offset of the '
        'normalisation-factor cycle, scan variable(s), grid size(s), energy units, base conditions) up to the '
        'stated deviation level; a case is non-trivial when the expected stable phase changes along the grid. '
        'Energy spans: all profiles of the stated lattice; non-trivial when the maximum precedes the minimum, '
        'or a tie exists, or the extremum is a transition state. Containers and number types of grids / factors / '
        'fixed conditions, repeated scans, second diagrams: one deviation from the default case. Energy spans with '
        'ideal-gas species: product of (profile, gas pattern, condition set); non-trivial when a pressure other than '
        'the default is requested. Species naming schemes x every per-species scan variable, and states with two '
        'pressure-dependent species in either order x per-species condition sets: full products over reduced profile / '
        'size sets. Fourth round: (scan variable x pair of reactions x index order x units) with the grid placed on '
        'both sides of the located crossing; (pair of scan variables x number of reactions x call history) with every '
        'result kept; all profiles with transition-state energies of their own on the stated lattices')
ASSUMPTIONS = ['species are real StatMech objects from a fixed table (energies on a lattice chosen so that lines cross)',
               'ties (equal normalised energies / equal extremal state energies) accept any of the tied answers',
               'the index type of the reported stable phase (int / integral float) is not part of the property',
               'T is always supplied when energy units are requested',
               'a whole-number grid value / condition / factor (Python int, int64) denotes the same real number as the float',
               'the pressure dependence of an ideal-gas species is kB T ln(P / 1 bar) on top of its own 1 bar Gibbs energy',
               'next to a phase boundary the lower phase is decided on the reactions own double-precision values: two phases '
               'tie only when their tabulated values are equal (oracle side: when they differ by less than 1e-13 relative)',
               'a transition state is a state of the sequence with the Gibbs energy its species have, wherever it lies '
               'relative to its end states']
EXPLANATION = ('exhaustive product enumeration on the real PhaseDiagram / Reactions / Network classes; oracle from '
               'the reactions own values at freshly built conditions and from the profile written by the harness')

NORMS = [1.0, 2.0, 0.5, 4.0]
UNITS = [None, 'kJ/mol', 'eV']
RXN_ORDER = ['MO1', 'MOH1', 'MO2', 'Mstar', 'MO05', 'MOH2', 'MO3', 'MOOH']
E_M, E_O2, E_H2O, E_H2 = -50.0, -9.86, -14.2209, -6.7598
BASE_WN = [300.0, 250.0, 200.0]

T_GRID = {1: [800.0], 2: [400.0, 1400.0], 5: [300.0, 600.0, 900.0, 1200.0, 1500.0],
          30: [250.0 + 50.0 * i for i in range(30)]}
P_GRID = {1: [1e-6], 2: [1e-20, 1e2], 5: [1e-25, 1e-15, 1e-8, 1e-2, 1e2],
          30: [10.0 ** (-30.0 + 33.0 * i / 29.0) for i in range(30)]}
SCANS = ['T', 'P', 'O2_kwargs', 'H2O_kwargs']
PAIRS = [('T', 'P'), ('P', 'T'), ('T', 'O2_kwargs'), ('O2_kwargs', 'H2O_kwargs'), ('O2_kwargs', 'T')]
SIZES2 = {'quick': [(1, 1), (1, 5), (2, 5), (5, 2), (5, 5), (2, 30), (30, 1)],
          'thorough': [(1, 1), (1, 5), (2, 5), (5, 2), (5, 5), (2, 30), (30, 1), (30, 5), (5, 30), (30, 30)]}
LAT = [-2.0, -1.0, 0.0, 1.0, 2.0]
LAT3 = [-1.0, 0.0, 1.0]
N_PD_SHARDS = 16
N_SPAN_SHARDS = 8
N_SPANC_SHARDS = 16
N_PDX_SHARDS = 5
N_KEEP_SHARDS = 2
N_SPANT_SHARDS = 2

# ---- containers / number types of the grids, factors and fixed conditions (strengthening after seeded changes)
NORMS_INT = [1, 2, 3, 4]
P_INT = {1: [2], 2: [1, 100], 5: [1, 2, 5, 10, 100], 30: list(range(1, 31))}
RANGES = {'T': {1: (800, 801, 1), 2: (400, 1401, 1000), 5: (300, 1501, 300), 30: (250, 1750, 50)},
          'P': {1: (2, 3, 1), 2: (1, 101, 99), 5: (1, 102, 25), 30: (1, 31, 1)}}
FORMS_NUM = ['array', 'intlist', 'intarray', 'range', 'inttuple', 'desc', 'shuffled']
FORMS_DICT = ['tuple', 'intdict', 'desc', 'shuffled']
NFORMS = ['intlist', 'intarray', 'tuple', 'none', 'omitted']
TWINS = ['new', 'deepcopy', 'dict']

# ---- species naming schemes and every per-species scan variable (third round of seeded changes): the per-species
# conditions are addressed by NAME ('<name>_kwargs'), so the shape of the names is part of the alphabet
GASES = ['O2', 'H2O', 'H2']
SCHEMES = ['us', 'pre', 'paren', 'affix']
SPECIES_SCANS = ['O2_kwargs', 'H2O_kwargs', 'H2_kwargs']
PAIRS_NAMES = [('O2_kwargs', 'H2O_kwargs'), ('T', 'O2_kwargs'), ('H2O_kwargs', 'T'), ('H2_kwargs', 'H2O_kwargs'),
               ('P', 'H2_kwargs')]


def _name(tag, scheme):
    """The name a species of the table carries.  None: the tag itself ('O2', 'MO1').  'us': underscore suffix
    ('O2_g', 'MO1_s').  'pre': underscore prefix shared by all gases ('gas_O2', 'surf_MO1').  'paren': parentheses
    ('O2(g)', 'MO1(S)').  'affix': gas names that are a suffix / a prefix of one another ('O', 'H2O', 'H2')."""
    gas = tag in GASES
    if not scheme:
        return tag
    if scheme == 'us':
        return tag + ('_g' if gas else '_s')
    if scheme == 'pre':
        return ('gas_' if gas else 'surf_') + tag
    if scheme == 'paren':
        return tag + ('(g)' if gas else '(S)')
    if scheme == 'affix':
        return {'O2': 'O', 'H2O': 'H2O', 'H2': 'H2'}.get(tag, tag)
    raise ValueError(scheme)


def _key(name, scheme):
    """The keyword a scan variable / fixed condition has under the naming scheme ('O2_kwargs' -> 'O2_g_kwargs')."""
    if name.endswith('_kwargs'):
        return _name(name[:-len('_kwargs')], scheme) + '_kwargs'
    return name

PLANNED_TAGS = ['pd:1D', 'pd:2D', 'pd:argmin-changes-along-grid', 'pd:argmin-constant', 'pd:n_rxn==n_x',
                'pd:n_rxn!=n_x', 'pd:units', 'pd:dimensionless', 'pd:scan-T', 'pd:scan-P', 'pd:scan-O2_kwargs',
                'pd:scan-H2O_kwargs', 'pd:single-reaction', 'pd:single-point', 'pd:norm-list', 'pd:1D=row-of-2D',
                'pd:1D=column-of-2D', 'span:max-before-min', 'span:max-after-min', 'span:tie', 'span:ts-is-max',
                'span:intermediate-is-max', 'span:no-ts', 'span:spectator', 'span:single-step', 'span:Reactions',
                'span:Network', 'span:unchained', 'pd:norm-edit-reassign', 'pd:norm-edit-inplace',
                # strengthening after seeded changes: containers / number types, caller's data, repeated calls,
                # second objects, gas species and pressures in the energy span
                'pd:grid-array', 'pd:grid-intlist', 'pd:grid-intarray', 'pd:grid-range', 'pd:grid-inttuple',
                'pd:grid-desc', 'pd:grid-shuffled', 'pd:grid-tuple', 'pd:grid-intdict', 'pd:2D-grid-forms',
                'pd:norm-intlist', 'pd:norm-intarray', 'pd:norm-tuple', 'pd:norm-none', 'pd:norm-omitted',
                'pd:fixed-conditions-int', 'pd:fixed-empty-species-kwargs', 'pd:again-same', 'pd:again-edited',
                'pd:again-2D', 'pd:twin-new', 'pd:twin-deepcopy', 'pd:twin-dict',
                # third round: every per-species scan variable, species naming schemes, all other species fixed
                'pd:scan-H2_kwargs', 'pd:names-us', 'pd:names-pre', 'pd:names-paren', 'pd:names-affix',
                'pd:names-2D', 'pd:fixed-all-other-species',
                'spanc:max-before-min', 'spanc:max-after-min', 'spanc:tie',
                'spanc:before+overall-term-depends-on-conditions', 'spanc:extrema-move-with-conditions',
                'spanc:cond-P-omitted', 'spanc:cond-P', 'spanc:cond-species-P', 'spanc:cond-P-+-species-P',
                'spanc:mid-gas', 'spanc:end-gas', 'spanc:int-T', 'spanc:float-T', 'spanc:int-P', 'spanc:edit-append',
                'spanc:second-call', 'spanc:Reactions', 'spanc:Network',
                # third round: two pressure-dependent species in one state, surface species with conditions of their
                # own, the gases under other names, the smallest span over the (single) route
                'spanc:two-gases-in-one-state', 'spanc:earlier-species-own-P,later-overall',
                'spanc:later-species-own-P,earlier-overall', 'spanc:both-species-own-P',
                'spanc:cond-P-+-surface-species-P', 'spanc:Network.min', 'spanc:names-us', 'spanc:names-pre',
                'spanc:names-paren', 'spanc:names-prefix', 'spanc:names-suffix',
                # fourth round: grid points next to a phase boundary (both index orders), results the caller keeps
                # across later calls, transition states with energies of their own
                'pdx:1D', 'pdx:2D', 'pdx:scan-T', 'pdx:scan-P', 'pdx:scan-O2_kwargs', 'pdx:scan-H2O_kwargs',
                'pdx:scan-H2_kwargs', 'pdx:order-0', 'pdx:order-1', 'pdx:order-2', 'pdx:order-3', 'pdx:units',
                'pdx:dimensionless', 'pdx:gap<1e-6,lower-phase-has-higher-index',
                'pdx:gap<1e-6,lower-phase-has-lower-index', 'pdx:gap<1e-9', 'pdx:crossing-on-the-envelope-of-eight',
                'keep:units-then-conditions-2D', 'keep:units-then-conditions-1D', 'keep:mixed-dimensions',
                'keep:two-diagrams', 'keep:1D', 'keep:2D', 'keep:looked-at-after-a-later-call',
                'span:ts-below-both-ends', 'span:ts-between-its-ends', 'span:ts-level-with-an-end',
                'span:ts-above-both-ends', 'span:ts-is-the-lowest-state',
                'span:ts-is-the-lowest-state,before-the-highest', 'span:ts-is-the-lowest-state,after-the-highest',
                'spanc:ts-is-the-lowest-state', 'spank:two-sequences-same-names',
                # fifth round: the identity of a species object vs its name
                'pd:ident-anon', 'pd:ident-anon-all', 'pd:ident-same', 'pd:ident-alias', 'pd:ident-2D',
                'pd:two-species-objects-one-name', 'pd:two-species-objects-without-a-name',
                'pd:one-species-object-under-two-keys']


def bounds(tier):
    return dict(reactions='1-8 (first n of 8 rotations of a list of 8 formation reactions)', norm_factors=NORMS,
                scans=SCANS, grid_sizes=[1, 2, 5, 30], pairs_2D=PAIRS, sizes_2D=SIZES2[tier], units=UNITS,
                deviation_1D=('n x scan x size x units full; rotation/offset/base/list one deviation' if tier == 'quick'
                              else 'n x scan x size x units x rotation(4) x offset(4) full; base/list one deviation'),
                span_steps='1-4 exhaustive' + ('' if tier == 'quick' else ' + 5-8 by two deviations from 2 base profiles'),
                span_lattice_eV=LAT, span_ts='absent or 1 eV above the higher neighbour',
                grid_containers=dict(numeric=['list'] + FORMS_NUM, per_species=['list'] + FORMS_DICT,
                                     where='1-D: one deviation, sizes 2 and 5 (number-type forms also sizes 1 and 30); '
                                           '2-D: either grid (thorough) / first grid of (5,2), second of (2,5) (quick), '
                                           'both grids for integer and unsorted forms'),
                norm_factor_containers=['ndarray', 'list'] + NFORMS, fixed_conditions=['a', 'b', 'i (ints)', 'e (empty species dicts)'],
                histories=['scan, edit norm_factors, scan', 'scan, overwrite result (+ edit grid in place), scan',
                           'diagram A, diagram B made by new/deepcopy/from_dict and edited, A again',
                           'span, append step, span', 'span twice with the same keyword objects'],
                species_names=dict(schemes=['table names'] + SCHEMES, example={s_: [_name(g, s_) for g in GASES] for s_ in SCHEMES},
                                   per_species_scans=SPECIES_SCANS, pairs_2D=PAIRS_NAMES,
                                   where='1-D: n 1-8 x 3 per-species scans x sizes 2, 5 (1, 30 for n in 1, 3, 8) x fixed '
                                         "conditions 'a' / 's' (every other gas at a pressure of its own) + one deviation "
                                         'at size 5; T and P scans with fixed per-species conditions; 2-D: 5 pairs x '
                                         '(2,5) / (5,2)'),
                span_two_gases=dict(patterns=TWO_GAS_PATTERNS, conditions=(TWO_GAS_CONDS if tier == 'quick' else 'all (3 steps: %r)' % TWO_GAS_CONDS),
                                    gas_names=GAS_NAMES, named_patterns=NAMED_PATTERNS, named_conditions=NAMED_CONDS,
                                    routes=['Reactions.get_E_span', 'Network.get_E_span', 'Network.get_min_E_span']),
                species_identity=dict(variants=IDENT_TEXT, pairs_2D=ID_PAIRS, scans_1D=X_SCANS,
                                      n=([1, 3, 8] if tier == 'quick' else '1-8'),
                                      sizes_2D=('(2,5) / (5,2)' if tier == 'quick' else '(1,1), (2,5), (5,2), (5,5)'),
                                      naming_schemes=("table names (+ 'us' for the nameless surface species)"
                                                      if tier == 'quick' else ['table names'] + SCHEMES),
                                      deviations_1D=['second diagram (deepcopy / new)', 'same object again',
                                                     'rotation 3 / offset 1', "fixed conditions 's'"]),
                near_phase_boundary=dict(scans=X_SCANS, pairs='all 28 pairs of the 8 reactions', search_range=X_RANGE,
                                         relative_distances=NEAR[tier], orders=['pair', 'pair reversed', 'full list of 8',
                                                                               'full list reversed'],
                                         calls=['get_GoRT_1D', 'get_GoRT_2D boundary variable first / second'],
                                         units=(UNITS if tier == 'thorough' else
                                                'None, eV for the pairs; None for the full lists')),
                kept_results=dict(sequences=KEEP_SEQS, pairs=PAIRS + [pr for pr in PAIRS_NAMES if pr not in PAIRS],
                                  n=([1, 3, 8] if tier == 'quick' else '1-8'),
                                  sizes=('(2,5) / (5,2) alternating' if tier == 'quick' else '(2,5), (5,2), (5,5), (1,1)'),
                                  spans='1-2 steps, 11 calls over two sequences with the same species names, 3 routes'),
                span_free_ts=dict(one_step='states on {-2..2} x TS on {-2.5, -2, ..., 2.5} (+ spectator)',
                                  two_steps=('states on {-1,0,1}, TS absent or on {-1.5,-1,...,1.5}' if tier == 'quick'
                                             else 'states on {-2..2}, TS absent or on {-2.5,-2,...,2.5}'),
                                  three_steps=('first state 0, TS absent / -1.5 / 0.5' if tier == 'quick'
                                               else 'states on {-1,0,1}, TS absent or on {-1.5,-0.5,0.5,1.5}'),
                                  unchained='two steps, states on {-1,0,1}',
                                  with_gases=dict(patterns=TSG_PATTERNS, conditions=TSG_CONDS)),
                span_conditions=dict(gas_patterns=GAS_PATTERNS + MID_PATTERNS, conditions=SPAN_CONDS, T=[300, 650.0],
                                     profiles=('1-2 steps on {-1,0,1} all TS codes, 3 steps first state 0 with 3 TS codes'
                                               if tier == 'quick' else
                                               '1-2 steps on {-2..2}, 3 steps on {-1,0,1}, all TS codes, both T')))


# =================================================================== phase diagrams
IDENTS = ['anon', 'anon-all', 'same', 'alias']
IDENT_TEXT = {'anon': 'surface species without a name (looked up through dictionary keys)',
              'anon-all': 'no species has a name (looked up through dictionary keys)',
              'same': 'different species objects carry the same name',
              'alias': 'one species object under two dictionary keys'}
ALIAS = {'M': 'clean', 'O2': 'oxygen', 'H2O': 'water'}


def _species(scheme=None, ident=None):
    """The species table, keyed by tag.  `ident` (fifth round) separates the IDENTITY of a species object from its
    `name`: 'anon' every surface species has name None (the default) and is reachable only through its dictionary key;
    'anon-all' the gases as well; 'same' every surface species is explicitly called 'slab' and a second, different O2
    object (key 'O2b', 0.3 eV lower) carries the same name as the first; 'alias' names are unique but M, O2 and H2O are
    also listed under a second key."""
    from pmutt.statmech import StatMech, trans, rot, vib, elec

    def _nm(tag, scheme):
        if ident == 'anon-all' or (ident == 'anon' and tag not in GASES):
            return None
        if ident == 'same' and tag not in GASES:
            return _name('slab', scheme)
        return _name(tag, scheme)

    def gas(name, E, wn, rt, geom, sig, mw, el):
        return StatMech(name=_nm(name, scheme), elements=el,
                        trans_model=trans.FreeTrans(n_degrees=3, molecular_weight=mw),
                        vib_model=vib.HarmonicVib(vib_wavenumbers=list(wn)),
                        rot_model=rot.RigidRotor(symmetrynumber=sig, geometry=geom, rot_temperatures=list(rt)),
                        elec_model=elec.GroundStateElec(potentialenergy=E, spin=0))

    def solid(name, E, wn, el):
        return StatMech(name=_nm(name, scheme), elements=el, vib_model=vib.HarmonicVib(vib_wavenumbers=list(wn)),
                        elec_model=elec.GroundStateElec(potentialenergy=E, spin=0))

    sp = {'O2': gas('O2', E_O2, [2205.0], [2.08], 'linear', 2, 31.998, {'O': 2}),
          'H2O': gas('H2O', E_H2O, [3825.43, 3710.26, 1582.43], [40.1, 20.9, 13.4], 'nonlinear', 2, 18.015,
                     {'H': 2, 'O': 1}),
          'H2': gas('H2', E_H2, [4306.18], [87.6], 'linear', 2, 2.016, {'H': 2}),
          'M': solid('M', E_M, BASE_WN, {'Pt': 1}),
          'Mstar': solid('Mstar', E_M + 0.05, [200.0, 150.0, 100.0], {'Pt': 1})}
    for tag, n in (('MO05', 0.5), ('MO1', 1.0), ('MO2', 2.0), ('MO3', 3.0)):
        E = E_M + n * E_O2 / 2 + n * (-1.2) + 0.15 * n * n
        sp[tag] = solid(tag, E, BASE_WN + [500.0, 450.0, 400.0] * int(math.ceil(n)), {'Pt': 1, 'O': n})
    for tag, m in (('MOH1', 1), ('MOH2', 2)):
        E = E_M + m * (E_H2O - E_H2 / 2) + m * (-0.3) + 0.1 * m * m
        sp[tag] = solid(tag, E, BASE_WN + [3600.0, 900.0, 500.0] * m, {'Pt': 1, 'O': m, 'H': m})
    sp['MOOH'] = solid('MOOH', E_M + E_O2 / 2 + E_H2O - E_H2 / 2 - 1.6,
                       BASE_WN + [3600.0, 900.0, 600.0, 500.0, 450.0, 400.0], {'Pt': 1, 'O': 2, 'H': 1})
    if ident == 'same':
        sp['O2b'] = gas('O2', E_O2 - 0.3, [2205.0], [2.08], 'linear', 2, 31.998, {'O': 2})
    elif ident == 'alias':
        for tag, other in ALIAS.items():
            sp[other] = sp[tag]
    return sp


def _reaction_parts(tag):
    """(reactants, products) of a formation reaction as lists of (tag, coefficient)."""
    if tag.startswith('MO') and tag[2:].isdigit():
        n = {'MO05': 0.5, 'MO1': 1.0, 'MO2': 2.0, 'MO3': 3.0}[tag]
        return [('M', 1), ('O2', n / 2)], [(tag, 1)]
    if tag.startswith('MOH'):
        m = int(tag[3:])
        return [('M', 1), ('H2O', m)], [(tag, 1), ('H2', m / 2)]
    if tag == 'Mstar':
        return [('M', 1)], [('Mstar', 1)]
    if tag == 'MOOH':
        return [('M', 1), ('O2', 0.5), ('H2O', 1)], [(tag, 1), ('H2', 0.5)]
    raise ValueError(tag)


def _reaction_ident(tag, sp, ident, i):
    """Formation reaction i of a diagram whose species table separates identity from name.  'anon', 'anon-all',
    'alias': written as a string and resolved through the dictionary keys by Reaction.from_string (alias keys for M
    in the odd, for O2 / H2O in the even reactions); 'same': through the constructor, the second O2 object in the
    reactions of MO2, MO05 and MOOH."""
    from pmutt.reaction import Reaction
    react, prod = _reaction_parts(tag)
    if ident == 'same':
        def obj(t):
            return sp['O2b'] if (t == 'O2' and tag in ('MO2', 'MO05', 'MOOH')) else sp[t]
        return Reaction(reactants=[obj(t) for t, _ in react], reactants_stoich=[c_ for _, c_ in react],
                        products=[obj(t) for t, _ in prod], products_stoich=[c_ for _, c_ in prod])

    def key(t):
        if ident == 'alias' and t in ALIAS and (i % 2 == 1) == (t == 'M'):
            return ALIAS[t]
        return t

    def side(parts):
        return ' + '.join((key(t) if (c_ == 1 and i % 2 == 0) else '%r%s' % (c_, key(t))) for t, c_ in parts)
    return Reaction.from_string('%s = %s' % (side(react), side(prod)), sp)


def _ident_tags(rxns, ident, ctx):
    """Tags that make the collision itself mandatory: the diagram really holds different species objects under one
    name / one object under two keys."""
    objs = {}
    for r in rxns:
        for s_ in list(r.reactants) + list(r.products):
            objs[id(s_)] = s_
    names = [o.name for o in objs.values()]
    if len(set(names)) < len(names):
        ctx.tag('pd:two-species-objects-one-name')
        if names.count(None) >= 2:
            ctx.tag('pd:two-species-objects-without-a-name')
    if ident == 'alias':
        ctx.tag('pd:one-species-object-under-two-keys')
    ctx.tag('pd:ident-' + ident)


def _reaction(tag, sp):
    from pmutt.reaction import Reaction
    M = sp['M']
    if tag.startswith('MO') and tag[2:].isdigit():
        n = {'MO05': 0.5, 'MO1': 1.0, 'MO2': 2.0, 'MO3': 3.0}[tag]
        return Reaction(reactants=[M, sp['O2']], reactants_stoich=[1, n / 2], products=[sp[tag]], products_stoich=[1])
    if tag.startswith('MOH'):
        m = int(tag[3:])
        return Reaction(reactants=[M, sp['H2O']], reactants_stoich=[1, m], products=[sp[tag], sp['H2']],
                        products_stoich=[1, m / 2])
    if tag == 'Mstar':
        return Reaction(reactants=[M], reactants_stoich=[1], products=[sp['Mstar']], products_stoich=[1])
    if tag == 'MOOH':
        return Reaction(reactants=[M, sp['O2'], sp['H2O']], reactants_stoich=[1, 0.5, 1], products=[sp[tag], sp['H2']],
                        products_stoich=[1, 0.5])
    raise ValueError(tag)


def _diagram(case):
    from pmutt.reaction.phasediagram import PhaseDiagram
    ident = case.get('ident')
    sp = _species(case.get('names'), ident) if ident else _species(case.get('names'))
    order = RXN_ORDER[case['rot']:] + RXN_ORDER[:case['rot']]
    tags = order[:case['n']]
    rxns = [(_reaction_ident(t, sp, ident, i) if ident else _reaction(t, sp)) for i, t in enumerate(tags)]
    nform = case.get('nform')
    if nform in ('intlist', 'intarray', 'tuple'):
        norms = [NORMS_INT[(i + case['off']) % 4] for i in range(case['n'])]        # Python ints
    elif nform in ('none', 'omitted'):
        norms = [1.0] * case['n']                                                     # documented default: ones
    else:
        norms = [NORMS[(i + case['off']) % 4] for i in range(case['n'])]
    if nform == 'omitted':
        return PhaseDiagram(reactions=rxns), rxns, norms
    if nform == 'none':
        nf = None
    elif nform == 'intlist':
        nf = list(norms)
    elif nform == 'intarray':
        nf = np.array(norms, dtype=np.int64)
    elif nform == 'tuple':
        nf = tuple(norms)
    else:
        nf = list(norms) if case.get('normlist') else np.array(norms)
    return PhaseDiagram(reactions=rxns, norm_factors=nf), rxns, [float(v) for v in norms]


def _shuffle(vals):
    """Deterministic unsorted order with a repeated value (odd positions, then the even ones backwards; the last
    entry repeats the first when there are at least three)."""
    out = list(vals[1::2]) + list(vals[0::2][::-1])
    if len(out) >= 3:
        out[-1] = out[0]
    return out


def _grid(name, n, form=None):
    """The grid container exactly as the caller hands it over.  form None: list of floats / of {'P': float}.
    Numeric scans: float ndarray, list / int64 ndarray / range / tuple of whole numbers, descending, unsorted with a
    repeat.  Per-species scans: tuple of dicts, dicts holding Python ints, descending, unsorted with a repeat."""
    key = 'T' if name == 'T' else 'P'
    numeric = name in ('T', 'P')
    if form in ('intlist', 'intarray', 'inttuple', 'intdict'):
        vals = [int(v) for v in T_GRID[n]] if key == 'T' else list(P_INT[n])
    elif form == 'range':
        vals = list(range(*RANGES[key][n]))
    else:
        vals = list(T_GRID[n] if key == 'T' else P_GRID[n])
    if form == 'desc':
        vals = vals[::-1]
    elif form == 'shuffled':
        vals = _shuffle(vals)
    if not numeric:
        if form not in (None, 'tuple', 'intdict', 'desc', 'shuffled'):
            raise ValueError(form)
        out = [{'P': p} for p in vals]
        return tuple(out) if form == 'tuple' else out
    if form == 'array':
        return np.array(vals, dtype=float)
    if form == 'intarray':
        return np.array(vals, dtype=np.int64)
    if form == 'range':
        return range(*RANGES[key][n])
    if form == 'inttuple':
        return tuple(vals)
    if form in (None, 'intlist', 'desc', 'shuffled'):
        return vals
    raise ValueError(form)


def _num(v):
    """Oracle-side number: whole-number types are taken as the real number they denote."""
    if isinstance(v, numbers.Integral) and not isinstance(v, bool):
        return float(int(v))
    if isinstance(v, np.floating):
        return float(v)
    return v


def _oelem(x):
    """Oracle-side copy of one grid value / one fixed condition (fresh objects, whole numbers as floats)."""
    if isinstance(x, dict):
        return {k: _oelem(v) for k, v in x.items()}
    return _num(x)


def _snap(x):
    """Harness-side deep copy of a caller-owned argument (taken before the call)."""
    if isinstance(x, np.ndarray):
        return x.copy()
    if isinstance(x, range):
        return x
    return copy.deepcopy(x)


def _same(x, snap):
    """The caller's argument still has the type, number type and content of the snapshot."""
    if type(x) is not type(snap):
        return False
    if isinstance(x, np.ndarray):
        return x.dtype == snap.dtype and x.shape == snap.shape and bool(np.array_equal(x, snap))
    if isinstance(x, dict):
        return list(x.keys()) == list(snap.keys()) and all(_same(x[k], snap[k]) for k in x)
    if isinstance(x, (list, tuple)):
        return len(x) == len(snap) and all(_same(a, b) for a, b in zip(x, snap))
    if isinstance(x, float) and isinstance(snap, float) and x != x and snap != snap:
        return True
    return bool(x == snap)


FIXED_S = {'O2_kwargs': 1e-10, 'H2O_kwargs': 1e-3, 'H2_kwargs': 1e-5}


def _base(names, variant, scheme=None):
    """Fixed conditions for everything that is not scanned (a fresh dict every call).
    'a' floats; 'b' other values + per-species pressures; 'i' the values of 'a' as Python ints; 'e' the values of
    'a' plus explicitly empty per-species dicts; 's' general T and P plus a pressure of its own for EVERY gas that
    is not scanned.  `names` are the scan variables by their table names; the keys follow the naming scheme."""
    if scheme:
        return {_key(k, scheme): v for k, v in _base(names, variant).items()}
    kw = {}
    if variant == 's':
        if 'T' not in names:
            kw['T'] = 950.0
        if 'P' not in names:
            kw['P'] = 1e-2
        for k, p in FIXED_S.items():
            if k not in names:
                kw[k] = {'P': p}
        return kw
    if variant == 'i':
        if 'T' not in names:
            kw['T'] = 800
        if 'P' not in names:
            kw['P'] = 1
        return kw
    if 'T' not in names:
        kw['T'] = 800.0 if variant in ('a', 'e') else 1100.0
    if 'P' not in names:
        if variant in ('a', 'e'):
            kw['P'] = 1.0
        elif 'T' in names:
            kw['P'] = 1e-3
    if variant == 'b':
        if 'O2_kwargs' not in names and 'T' in names:
            kw['O2_kwargs'] = {'P': 1e-12}
        if 'H2O_kwargs' not in names and 'P' in names:
            kw['H2O_kwargs'] = {'P': 1e-4}
    if variant == 'e':
        for k in ('O2_kwargs', 'H2O_kwargs'):
            if k not in names:
                kw[k] = {}
    return kw


def _cond(base, **point):
    kw = {k: (dict(v) if isinstance(v, dict) else v) for k, v in base.items()}
    for k, v in point.items():
        kw[k] = dict(v) if isinstance(v, dict) else v
    return kw


def _expected(rxns, norms, cond, units):
    """The reaction's own value at freshly built conditions / factor (x R T).  The conditions are rebuilt here
    (fresh dicts; whole-number inputs as the floats they denote), never the objects the scan has seen."""
    from pmutt import constants as c
    out = []
    cond = _oelem(cond)
    for r, nf in zip(rxns, norms):
        v = r.get_delta_GoRT(**_oelem(cond)) / float(nf)
        if units is not None:
            v *= c.R('%s/K' % units) * cond['T']
        out.append(v)
    return np.array(out)


def _argmin_ok(reported, col, tol):
    """reported index is integral, in range and has the minimal value of the column (ties accepted)."""
    try:
        k = int(reported)
    except (TypeError, ValueError):
        return False
    if k != reported or not 0 <= k < len(col):
        return False
    return col[k] <= np.min(col) + tol


def _pd_sig(case):
    if case['kind'] == 'pd1':
        s = dict(part='phase-diagram', dim=1, scan=case['scan'], units='energy' if case['units'] else 'none')
        if case.get('gform'):
            s['grid'] = case['gform']
    else:
        s = dict(part='phase-diagram', dim=2, scan='%s,%s' % tuple(case['pair']),
                 units='energy' if case['units'] else 'none')
        if case.get('gforms'):
            s['grid'] = '%s,%s' % tuple(f or 'list' for f in case['gforms'])
    if case.get('nform'):
        s['norms'] = case['nform']
    if case.get('base') in ('i', 'e', 's'):
        s['fixed'] = {'i': 'ints', 'e': 'empty species kwargs', 's': 'all other species'}[case['base']]
    if case.get('names'):
        s['names'] = case['names']
    if case.get('ident'):
        s['species'] = IDENT_TEXT[case['ident']]
    return s


UNCHANGED = "the call leaves the caller's grid, fixed conditions and normalisation factors as they were"


def _norm_snapshot(pd):
    nf = pd.norm_factors
    return (type(nf).__name__, str(getattr(nf, 'dtype', '')), [float(v) for v in nf])


def _check_1d(pd, rxns, norms, name, grid, base, units, ctx, sig, case, tag=True, out=None):
    """All 1-D clauses; returns (table, stable) or None.  `grid` is the caller's own container and is handed over
    as it is; the oracle works on a copy taken before the call."""
    elems = [_oelem(g) for g in grid]
    n, nx = len(rxns), len(elems)
    g_snap, kw = _snap(grid), _cond(base)
    kw_snap, nf_snap, rx_snap = _snap(kw), _norm_snapshot(pd), list(pd.reactions)
    G, st = pd.get_GoRT_1D(x_name=name, x_values=grid, G_units=units, **kw)
    ctx.trace()
    ctx.evals(n * nx)
    ctx.true(UNCHANGED, _same(grid, g_snap) and _same(kw, kw_snap) and _norm_snapshot(pd) == nf_snap
             and len(pd.reactions) == len(rx_snap) and all(a is b for a, b in zip(pd.reactions, rx_snap)), sig, case,
             dict(grid=repr(grid)[:200], fixed=repr(kw)[:200], norm_factors=repr(pd.norm_factors)[:120]),
             dict(grid=repr(g_snap)[:200], fixed=repr(kw_snap)[:200], norm_factors=repr(nf_snap)[:120]))
    G, st = np.asarray(G), np.asarray(st)
    exp = np.array([_expected(rxns, norms, _cond(base, **{name: g}), units) for g in elems]).T.reshape(n, nx)
    ctx.evals(n * nx)
    if out is not None:
        out['exp'] = exp            # the oracle table, for callers that add clauses of their own
    ok = ctx.true('1-D table has shape (n_reactions, n_x)', G.shape == (n, nx), sig, case, list(G.shape), [n, nx])
    if not ok:
        return None
    ok &= ctx.close('tabulated energy = reaction value / normalisation factor (x RT with units)', G, exp, sig, case,
                    rtol=1e-10, scale=np.abs(exp) + 1.0)
    okp = ctx.true('stable-phase array has one entry per grid point', st.shape == (nx,), sig, case, list(st.shape),
                   [nx])
    tol = 1e-9 * (np.max(np.abs(exp)) + 1.0)
    if okp:
        good = [bool(_argmin_ok(st[j], exp[:, j], tol)) for j in range(nx)]
        okp &= ctx.true('reported stable phase has the lowest normalised energy at each grid point', all(good), sig,
                        case, [int(v) if float(v).is_integer() else float(v) for v in st.tolist()],
                        [int(np.argmin(exp[:, j])) for j in range(nx)])
    if tag:
        am = [int(np.argmin(exp[:, j])) for j in range(nx)]
        ctx.tag('pd:argmin-changes-along-grid' if len(set(am)) > 1 else 'pd:argmin-constant')
        ctx.tag('pd:n_rxn==n_x' if n == nx else 'pd:n_rxn!=n_x')
    return (G, st) if (ok and okp) else None


def _edit_grid(grid):
    """Edit the caller's grid container in place (the next scan must follow its NEW content)."""
    if isinstance(grid, np.ndarray):
        grid[:] = grid[::-1].copy()
    else:
        grid.reverse()
        if isinstance(grid[0], dict):
            grid[0]['P'] = grid[0]['P'] * 10.0          # the dict object itself is edited as well
        elif len(grid) >= 2:
            grid[-1] = grid[0]                           # repeated value


def _twin(pd, case, route):
    """A second diagram with different parameters in the same process, edited after it was made."""
    from pmutt.reaction.phasediagram import PhaseDiagram
    n = case['n']
    new = [NORMS[(i + case['off'] + 1) % 4] for i in range(n)]
    if route == 'new':
        other = PhaseDiagram(reactions=list(pd.reactions)[::-1], norm_factors=np.array(new))
    elif route == 'deepcopy':
        other = copy.deepcopy(pd)
        other.reactions.reverse()
        other.norm_factors = np.array(new)                      # reassigned
    elif route == 'dict':
        other = PhaseDiagram.from_dict(pd.to_dict())
        other.reactions.reverse()
        nf = other.norm_factors                                 # edited in place (whatever container from_dict made)
        for i, v in enumerate(new):
            nf[i] = v
    else:
        raise ValueError(route)
    return other, list(other.reactions), new


def _run_pd1(case, ctx):
    sig = _pd_sig(case)
    pd, rxns, norms = _diagram(case)
    scheme, units = case.get('names'), case['units']
    name = _key(case['scan'], scheme)                       # the keyword as the caller writes it
    grid = _grid(case['scan'], case['nx'], case.get('gform'))
    base = _base([case['scan']], case['base'], scheme)
    ctx.tag('pd:1D')
    ctx.tag('pd:scan-' + case['scan'])
    if case.get('ident'):
        _ident_tags(rxns, case['ident'], ctx)
    if scheme:
        ctx.tag('pd:names-' + scheme)
    if case['base'] == 's':
        ctx.tag('pd:fixed-all-other-species')
    ctx.tag('pd:units' if units else 'pd:dimensionless')
    if case['n'] == 1:
        ctx.tag('pd:single-reaction')
    if case['nx'] == 1:
        ctx.tag('pd:single-point')
    if case.get('normlist'):
        ctx.tag('pd:norm-list')
    if case.get('gform'):
        ctx.tag('pd:grid-' + case['gform'])
    if case.get('nform'):
        ctx.tag('pd:norm-' + case['nform'])
    if case['base'] == 'i':
        ctx.tag('pd:fixed-conditions-int')
    if case['base'] == 'e':
        ctx.tag('pd:fixed-empty-species-kwargs')
    ctx.trans(case['n'] * case['nx'])
    r = _check_1d(pd, rxns, norms, name, grid, base, units, ctx, sig, case)
    hist = case.get('hist')
    if hist:
        # history: scan, change the public norm_factors attribute, scan again on the same object -
        # the second table must use the factors the object carries NOW
        ctx.tag('pd:norm-edit-' + hist)
        new = [NORMS[(i + case['off'] + 1) % 4] for i in range(case['n'])]
        if hist == 'reassign':
            pd.norm_factors = list(new) if case.get('normlist') else np.array(new)
        else:
            for i, v in enumerate(new):
                pd.norm_factors[i] = v
        ctx.trans(case['n'] * case['nx'])
        _check_1d(pd, rxns, new, name, grid, base, units, ctx, dict(sig, history='scan, edit norm_factors (%s), scan' % hist),
                  case, tag=False)
    again = case.get('again')
    if again:
        # history: scan, the caller overwrites the returned arrays (and, for 'edited', edits the grid container in
        # place), same object scanned again with the very same container
        ctx.tag('pd:again-' + again)
        if r is not None:
            for arr in r:
                if isinstance(arr, np.ndarray) and arr.flags.writeable:
                    arr[...] = 7
        if again == 'edited':
            _edit_grid(grid)
        ctx.trans(case['n'] * case['nx'])
        _check_1d(pd, rxns, norms, name, grid, base, units, ctx,
                  dict(sig, history='scan, overwrite the result%s, scan' % (', edit the grid in place' if again == 'edited' else '')),
                  case, tag=False)
    twin = case.get('twin')
    if twin:
        # two diagrams with different parameters in one process: A, B (made from A by `twin`, then edited), A again
        ctx.tag('pd:twin-' + twin)
        other, orx, onorms = _twin(pd, case, twin)
        ctx.trans(2 * case['n'] * case['nx'])
        _check_1d(other, orx, onorms, name, grid, base, units, ctx, dict(sig, history='second diagram (%s), edited' % twin),
                  case, tag=False)
        _check_1d(pd, rxns, norms, name, grid, base, units, ctx,
                  dict(sig, history='first diagram after a second one (%s) was made, edited and scanned' % twin), case,
                  tag=False)


def _run_pd2(case, ctx):
    sig = _pd_sig(case)
    pd, rxns, norms = _diagram(case)
    (ta, tb), (na, nb), units, scheme = case['pair'], case['sizes'], case['units'], case.get('names')
    a, b = _key(ta, scheme), _key(tb, scheme)               # the keywords as the caller writes them
    fa, fb = case.get('gforms') or (None, None)
    ga, gb = _grid(ta, na, fa), _grid(tb, nb, fb)
    ea, eb = [_oelem(g) for g in ga], [_oelem(g) for g in gb]
    base = _base([ta, tb], case['base'], scheme)
    n = len(rxns)
    ctx.tag('pd:2D')
    if case.get('ident'):
        _ident_tags(rxns, case['ident'], ctx)
        ctx.tag('pd:ident-2D')
    ctx.tag('pd:scan-' + ta)
    ctx.tag('pd:scan-' + tb)
    if scheme:
        ctx.tag('pd:names-' + scheme)
        ctx.tag('pd:names-2D')
    if case['base'] == 's':
        ctx.tag('pd:fixed-all-other-species')
    ctx.tag('pd:units' if units else 'pd:dimensionless')
    if fa or fb:
        ctx.tag('pd:2D-grid-forms')
        for f in (fa, fb):
            if f:
                ctx.tag('pd:grid-' + f)
    if case.get('nform'):
        ctx.tag('pd:norm-' + case['nform'])
    if case['base'] == 'i':
        ctx.tag('pd:fixed-conditions-int')
    if case['base'] == 'e':
        ctx.tag('pd:fixed-empty-species-kwargs')
    ctx.trans(n * na * nb)
    reps = 2 if case.get('again') else 1
    for rep in range(reps):
        if rep:
            # the caller has overwritten the first result; same object, same containers, scanned again
            ctx.tag('pd:again-2D')
            sig = dict(sig, history='scan, overwrite the result, scan')
            for arr in (G, st):
                if isinstance(arr, np.ndarray) and arr.flags.writeable:
                    arr[...] = 7
            ctx.trans(n * na * nb)
        sa, sb, kw = _snap(ga), _snap(gb), _cond(base)
        kw_snap, nf_snap = _snap(kw), _norm_snapshot(pd)
        G, st = pd.get_GoRT_2D(x1_name=a, x1_values=ga, x2_name=b, x2_values=gb, G_units=units, **kw)
        ctx.trace()
        ctx.evals(n * na * nb)
        ctx.true(UNCHANGED, _same(ga, sa) and _same(gb, sb) and _same(kw, kw_snap) and _norm_snapshot(pd) == nf_snap,
                 sig, case, dict(grid=repr((ga, gb))[:200], fixed=repr(kw)[:200], norm_factors=repr(pd.norm_factors)[:120]),
                 dict(grid=repr((sa, sb))[:200], fixed=repr(kw_snap)[:200], norm_factors=repr(nf_snap)[:120]))
        G, st = np.asarray(G), np.asarray(st)
        if not ctx.true('2-D table has shape (n_reactions, n_x1, n_x2)', G.shape == (n, na, nb), sig, case,
                        list(G.shape), [n, na, nb]):
            return
        exp = np.zeros((n, na, nb))
        for j, xa in enumerate(ea):
            for k, xb in enumerate(eb):
                exp[:, j, k] = _expected(rxns, norms, _cond(base, **{a: xa, b: xb}), units)
        ctx.evals(n * na * nb)
        ok = ctx.close('tabulated energy = reaction value / normalisation factor (x RT with units)', G, exp, sig, case,
                       rtol=1e-10, scale=np.abs(exp) + 1.0)
        okp = ctx.true('stable-phase array has one entry per grid point', st.shape == (na, nb), sig, case,
                       list(st.shape), [na, nb])
        tol = 1e-9 * (np.max(np.abs(exp)) + 1.0)
        am = np.argmin(exp, axis=0)
        if okp:
            good = all(_argmin_ok(st[j, k], exp[:, j, k], tol) for j in range(na) for k in range(nb))
            okp &= ctx.true('reported stable phase has the lowest normalised energy at each grid point', good, sig, case,
                            st.tolist(), am.tolist())
        if not rep:
            ctx.tag('pd:argmin-changes-along-grid' if len(set(am.ravel().tolist())) > 1 else 'pd:argmin-constant')
        if not (ok and okp):
            return
    # one- and two-parameter scans agree: rows (x1 fixed) and columns (x2 fixed); the 1-D scans get the very same
    # containers and the fixed value as the element of the other container
    rows = range(na) if na <= 5 else (0, na // 2, na - 1)
    cols = range(nb) if nb <= 5 else (0, nb // 2, nb - 1)
    for j in rows:
        s1 = dict(sig, dim='1-vs-2')
        r = _check_1d(pd, rxns, norms, b, gb, _cond(base, **{a: ga[j]}), units, ctx, s1, case, tag=False)
        ctx.tag('pd:1D=row-of-2D')
        if r is None:
            continue
        ctx.close('1-D scan equals the corresponding row/column of the 2-D scan (energies)', r[0], G[:, j, :], s1,
                  case, rtol=1e-12, scale=np.abs(G[:, j, :]) + 1.0)
        uniq = [np.sum(exp[:, j, k] <= np.min(exp[:, j, k]) + tol) == 1 for k in range(nb)]
        same = all((float(r[1][k]) == float(st[j, k])) or not uniq[k] for k in range(nb))
        ctx.true('1-D scan equals the corresponding row/column of the 2-D scan (stable phases)', same, s1, case,
                 r[1].tolist(), st[j, :].tolist())
    for k in cols:
        s1 = dict(sig, dim='1-vs-2')
        r = _check_1d(pd, rxns, norms, a, ga, _cond(base, **{b: gb[k]}), units, ctx, s1, case, tag=False)
        ctx.tag('pd:1D=column-of-2D')
        if r is None:
            continue
        ctx.close('1-D scan equals the corresponding row/column of the 2-D scan (energies)', r[0], G[:, :, k], s1,
                  case, rtol=1e-12, scale=np.abs(G[:, :, k]) + 1.0)
        uniq = [np.sum(exp[:, j, k] <= np.min(exp[:, j, k]) + tol) == 1 for j in range(na)]
        same = all((float(r[1][j]) == float(st[j, k])) or not uniq[j] for j in range(na))
        ctx.true('1-D scan equals the corresponding row/column of the 2-D scan (stable phases)', same, s1, case,
                 r[1].tolist(), st[:, k].tolist())


def _forms(scan):
    return FORMS_NUM if scan in ('T', 'P') else FORMS_DICT


def _pd1_cases(tier):
    seen = set()

    def emit(**kw):
        case = dict(kind='pd1', n=kw['n'], rot=kw['rot'], off=kw['off'], scan=kw['scan'], nx=kw['nx'],
                    units=kw['units'], base=kw['base'], normlist=kw['normlist'])
        for opt in ('hist', 'gform', 'nform', 'again', 'twin', 'names'):
            if kw.get(opt):
                case[opt] = kw[opt]
        key = tuple(sorted((k, str(v)) for k, v in case.items()))
        if key not in seen:
            seen.add(key)
            return case
        return None

    def names_family():
        # every per-species scan variable (the product-side gas H2 as well) under every naming scheme, and the
        # scheme-free H2 scan; fixed conditions 'a' and 's' (every other gas at a pressure of its own, addressed
        # by its name); T and P scans with the per-species conditions fixed under the scheme's names
        full = tier == 'thorough'
        for scheme in [None] + SCHEMES:
            for n in range(1, 9):
                for scan in SPECIES_SCANS:
                    for nx in (1, 2, 5, 30):
                        if nx in (1, 30) and not (full or n in (1, 3, 8)):
                            continue
                        for units in (UNITS if (full or (scheme is None and scan == 'H2_kwargs')) else (None, 'eV')):
                            devs = [dict()]
                            if nx in (2, 5):
                                devs.append(dict(base='s'))
                            if nx == 5 and units != 'kJ/mol':
                                devs += [dict(base='b'), dict(base='e'), dict(gform='tuple'), dict(gform='shuffled'),
                                         dict(again='edited'), dict(base='s', hist='inplace')]
                                if scheme is None or full:
                                    devs += [dict(gform='intdict'), dict(gform='desc'), dict(again='same'),
                                             dict(twin='new')]
                            for dv in devs:
                                kw = dict(n=n, rot=0, off=0, scan=scan, nx=nx, units=units, base='a', normlist=False,
                                          names=scheme)
                                kw.update(dv)
                                yield emit(**kw)
                for scan in ('T', 'P'):
                    for nx in ((2, 5) if full else (5,)):
                        for units in (UNITS if full else (None, 'eV')):
                            for base in ('s', 'b', 'e'):
                                yield emit(n=n, rot=0, off=0, scan=scan, nx=nx, units=units, base=base, normlist=False,
                                           names=scheme)

    rots = [0] if tier == 'quick' else [0, 2, 4, 6]
    offs = [0] if tier == 'quick' else [0, 1, 2, 3]
    for n in range(1, 9):
        for scan in SCANS:
            for nx in (1, 2, 5, 30):
                for units in UNITS:
                    for rot in rots:
                        for off in offs:
                            c = emit(n=n, rot=rot, off=off, scan=scan, nx=nx, units=units, base='a', normlist=False)
                            if c:
                                yield c
                    # one deviation each from the default of the remaining dimensions
                    devs = []
                    if nx in (2, 5):
                        devs = [dict(base='b'), dict(normlist=True), dict(hist='reassign'), dict(hist='inplace'),
                                dict(hist='inplace', normlist=True)]
                        if tier == 'quick':
                            devs += [dict(rot=r) for r in (2, 4, 6)] + [dict(off=o) for o in (1, 2, 3)]
                    # containers / number types of the grid, the factors and the fixed conditions; the same object
                    # scanned again; a second diagram in the same process (quick: without kJ/mol, which differs from
                    # eV by a constant only)
                    if tier == 'thorough' or units != 'kJ/mol':
                        if nx in (2, 5):
                            devs += [dict(gform=f) for f in _forms(scan)]
                            devs += [dict(nform=f) for f in NFORMS]
                            devs += [dict(base='i'), dict(base='e'), dict(again='same'), dict(again='edited')]
                            devs += [dict(twin=t) for t in TWINS]
                            if scan in ('T', 'P'):
                                devs += [dict(again='edited', gform='array'), dict(gform='intarray', nform='intarray'),
                                         dict(gform='intarray', base='i')]
                        elif n in (1, 3, 8) or tier == 'thorough':
                            # the smallest and the largest grid in every container that changes the number type
                            devs += [dict(gform=f) for f in (('array', 'intlist', 'intarray', 'range', 'inttuple')
                                                             if scan in ('T', 'P') else ('tuple', 'intdict'))]
                    for dv in devs:
                        kw = dict(n=n, rot=0, off=0, scan=scan, nx=nx, units=units, base='a', normlist=False)
                        kw.update(dv)
                        c = emit(**kw)
                        if c:
                            yield c
    for c in names_family():
        if c:
            yield c


def _pd2_cases(tier):
    for n in ((1, 3, 8) if tier == 'quick' else range(1, 9)):
        for pair in PAIRS:
            for sizes in SIZES2[tier]:
                if sizes == (30, 30) and n not in (3, 8):
                    continue
                for units in (UNITS if sizes[0] * sizes[1] <= 25 else [None, 'eV']):
                    for rot, off, base in ((0, 0, 'a'), (3, 1, 'b')):
                        if (rot, off, base) != (0, 0, 'a') and sizes[0] * sizes[1] > 25:
                            continue
                        yield dict(kind='pd2', n=n, rot=rot, off=off, pair=list(pair), sizes=list(sizes), units=units,
                                   base=base, normlist=False)
                    # one deviation each: container / number type of either grid (both for the integer array),
                    # factors, fixed conditions, the same scan repeated
                    if tuple(sizes) not in ((2, 5), (5, 2)) or (tier == 'quick' and units == 'kJ/mol'):
                        continue
                    fa, fb = _forms(pair[0]), _forms(pair[1])
                    if tier == 'quick':
                        # quick: the first grid deviates in the (5, 2) scan, the second in the (2, 5) scan
                        devs = ([dict(gforms=[f, None]) for f in fa] if tuple(sizes) == (5, 2)
                                else [dict(gforms=[None, f]) for f in fb])
                    else:
                        devs = [dict(gforms=[f, None]) for f in fa] + [dict(gforms=[None, f]) for f in fb]
                    devs.append(dict(gforms=['intarray' if x in ('T', 'P') else 'intdict' for x in pair]))
                    devs.append(dict(gforms=['shuffled', 'shuffled']))
                    devs += [dict(nform='intarray'), dict(nform='omitted'), dict(base='i'), dict(base='e'),
                             dict(again=True)]
                    for dv in devs:
                        case = dict(kind='pd2', n=n, rot=0, off=0, pair=list(pair), sizes=list(sizes), units=units,
                                    base='a', normlist=False)
                        case.update(dv)
                        yield case
    # every per-species scan variable under every naming scheme (and the scheme-free pairs with H2), all other gases
    # at a pressure of their own
    full = tier == 'thorough'
    for scheme in [None] + SCHEMES:
        for n in ((1, 3, 8) if not full else range(1, 9)):
            for pair in PAIRS_NAMES:
                if scheme is None and 'H2_kwargs' not in pair and not full:
                    continue
                for sizes in (((2, 5), (5, 2)) if not full else ((1, 1), (2, 5), (5, 2), (5, 5), (2, 30))):
                    for units in ((None, 'eV') if not full else UNITS):
                        for base in ('a', 's'):
                            if not full and (base == 's') != (sizes == (5, 2)):
                                continue            # quick: 'a' with the (2, 5) scan, 's' with the (5, 2) scan
                            case = dict(kind='pd2', n=n, rot=0, off=0, pair=list(pair), sizes=list(sizes), units=units,
                                        base=base, normlist=False)
                            if scheme:
                                case['names'] = scheme
                            yield case


# =================================================================== identity of a species vs its name (fifth round)
# A species is the OBJECT a reaction holds; its `name` is only the address of its '<name>_kwargs' conditions and may be
# None (the default), shared with another object, or differ from the dictionary key it was found under.  Same
# clauses, same oracle (the reactions' own values at freshly built conditions), 1-D, 2-D and 1-vs-2-D.
ID_PAIRS = PAIRS + [pr for pr in PAIRS_NAMES if pr not in PAIRS]
N_PDID_SHARDS = 4


def _pdid_cases(tier):
    full = tier == 'thorough'
    ns = range(1, 9) if full else (1, 3, 8)
    units_ = UNITS if full else (None, 'eV')
    for ident in IDENTS:
        for scheme in ([None] + SCHEMES if (full and ident != 'anon-all') else [None] + (['us'] if ident == 'anon' else [])):
            for n in ns:
                # two-parameter scans (each row and column against the one-parameter scan)
                for pair in (ID_PAIRS if ident != 'anon-all' else [('T', 'P'), ('P', 'T')]):
                    species_scan = any(x.endswith('_kwargs') for x in pair)
                    for sizes in (((2, 5), (5, 2)) if not full else ((1, 1), (2, 5), (5, 2), (5, 5))):
                        for units in units_:
                            for base in (('a', 's') if ident != 'anon-all' else ('a',)):
                                # quick: (2, 5) dimensionless with 'a', (5, 2) in eV with 's' ('a' when no species
                                # has a name to address)
                                if not full and (sizes == (5, 2)) != (units == 'eV'):
                                    continue
                                if not full and ident != 'anon-all' and (base == 's') != (sizes == (5, 2)):
                                    continue
                                if scheme and not (species_scan or base == 's'):
                                    continue        # the naming scheme only matters where a name is an address
                                if scheme and not full and sizes != (5, 2):
                                    continue
                                case = dict(kind='pd2', n=n, rot=0, off=0, pair=list(pair), sizes=list(sizes),
                                            units=units, base=base, normlist=False, ident=ident)
                                if scheme:
                                    case['names'] = scheme
                                yield case
                if scheme and not full:
                    continue
                # one-parameter scans; at size 5 one deviation each: second diagram, same object again, rotation
                for scan in (X_SCANS if ident != 'anon-all' else ['T', 'P']):
                    for nx in ((2, 5) if not full else (1, 2, 5, 30)):
                        for units in units_:
                            devs = [dict()]
                            if nx == 5 and units != 'kJ/mol':
                                devs += [dict(twin='deepcopy'), dict(again='same'), dict(rot=3, off=1)]
                                if full:
                                    devs.append(dict(twin='new'))
                                if ident != 'anon-all':
                                    devs.append(dict(base='s'))
                            for dv in devs:
                                case = dict(kind='pd1', n=n, rot=0, off=0, scan=scan, nx=nx, units=units, base='a',
                                            normlist=False, ident=ident)
                                if scheme:
                                    case['names'] = scheme
                                case.update(dv)
                                yield case


# =================================================================== grid points next to a phase boundary (fourth round)
# For every pair of formation reactions and every scan variable the crossing x* of the two normalised lines is
# located on the reactions' own values (bracketed secant search; nothing is assumed about the shape of the lines), and
# the scan is run on the grid x* (1 -+ d), d = 1e-3 ... 1e-9, in both index orders of the pair and inside the full
# list of eight reactions.  There two phases differ by far less than any "close enough" tolerance, yet one of them
# is strictly lower: it is the stable one.  Ties are accepted only between EQUAL tabulated values.
NEAR = {'quick': [1e-3, 1e-6, 1e-9], 'thorough': [1e-3, 1e-4, 1e-5, 1e-6, 1e-7, 1e-8, 1e-9]}
X_SCANS = ['T', 'P', 'O2_kwargs', 'H2O_kwargs', 'H2_kwargs']
X_RANGE = {'T': (250.0, 1700.0), 'P': (1e-30, 1e3)}
NORM_OF = {t: NORMS[i % 4] for i, t in enumerate(RXN_ORDER)}
STRICT_TAB = ('reported stable phase has the lowest tabulated energy of its grid point (phases tie only when their '
              'tabulated energies are equal)')
STRICT_ORA = 'next to a phase boundary the reported stable phase is the strictly lower one'


def _pdx_cases(tier):
    full = tier == 'thorough'
    for scan in X_SCANS:
        for p, q in itertools.combinations(RXN_ORDER, 2):
            for order in (0, 1, 2, 3):
                for units in (UNITS if full else (None, 'eV')):
                    if not full and order >= 2 and units:
                        continue        # quick: the full list in both orders without units
                    case = dict(kind='pdx', scan=scan, pair=[p, q], order=order, units=units)
                    if full:
                        case['dense'] = True        # every decade of distance (carried by the case)
                    yield case


def _pdx_sig(case, dim=None):
    s = dict(part='phase-diagram', family='next to a phase boundary', scan=case['scan'],
             units='energy' if case['units'] else 'none',
             order={0: 'pair', 1: 'pair reversed', 2: 'full list', 3: 'full list reversed'}[case['order']])
    if dim:
        s['dim'] = dim
    return s


def _crossing(f, lo, hi, log):
    """Root of f between lo and hi (bracketed secant / Illinois on x or ln x); None when f does not change sign."""
    to_u = math.log if log else float
    to_x = math.exp if log else float
    a, b = to_u(lo), to_u(hi)
    fa, fb = f(lo), f(hi)
    if fa == 0.0 or fb == 0.0 or (fa > 0) == (fb > 0):
        return None
    last = None
    for _ in range(60):
        u = b - fb * (b - a) / (fb - fa)
        if not (min(a, b) < u < max(a, b)):
            u = 0.5 * (a + b)
        fu = f(to_x(u))
        if fu == 0.0 or (last is not None and abs(u - last) <= 1e-12 * max(1.0, abs(u))):
            return to_x(u)
        last = u
        if (fu > 0) == (fb > 0):
            b, fb, fa = u, fu, fa * 0.5
        else:
            a, fa, fb = u, fu, fb * 0.5
    return to_x(u)


def _strict_cols(ctx, st, G, exp, order_tags, sig, case, count=True):
    """The two strict clauses on a list of columns: st[j] reported, G[:, j] tabulated, exp[:, j] oracle."""
    nx = exp.shape[1]
    tab_ok, ora_ok, want = [], [], []
    for j in range(nx):
        try:
            k = int(st[j])
            valid = k == st[j] and 0 <= k < exp.shape[0]
        except (TypeError, ValueError):
            valid = False
        col, ecol = G[:, j], exp[:, j]
        tab_ok.append(bool(valid and col[k] == np.min(col)))
        srt = np.sort(ecol)
        decided = len(srt) == 1 or (srt[1] - srt[0]) > 1e-13 * (np.max(np.abs(ecol)) + 1.0)
        am = int(np.argmin(ecol))
        want.append(am)
        ora_ok.append(bool(valid and (k == am or not decided)))
        if count and decided and len(srt) > 1:
            rel = (srt[1] - srt[0]) / (abs(srt[0]) + 1e-300)
            second = int(np.argsort(ecol)[1])
            if rel < 1e-6:
                ctx.tag('pdx:gap<1e-6,lower-phase-has-' + ('higher' if am > second else 'lower') + '-index')
            if rel < 1e-9:
                ctx.tag('pdx:gap<1e-9')
            ctx.nontrivial(('pdx', case['scan'], tuple(case['pair']), case['order'], j))
    shown = [int(v) if float(v).is_integer() else float(v) for v in np.asarray(st, dtype=float).tolist()]
    ctx.true(STRICT_TAB, all(tab_ok), sig, case, shown, [int(np.argmin(G[:, j])) for j in range(nx)])
    ctx.true(STRICT_ORA, all(ora_ok), sig, case, shown, want)


def _run_pdx(case, ctx):
    from pmutt.reaction.phasediagram import PhaseDiagram
    scan, units, order = case['scan'], case['units'], case['order']
    sp = _species(None)
    p, q = case['pair']
    rp, rq = _reaction(p, sp), _reaction(q, sp)
    base = _base([scan], 'a')
    numeric = scan in ('T', 'P')

    def elem(x):
        return float(x) if numeric else {'P': float(x)}

    def diff(x):
        ctx.evals(2)
        kw = _cond(base, **{scan: elem(x)})
        return rp.get_delta_GoRT(**_cond(kw)) / NORM_OF[p] - rq.get_delta_GoRT(**_cond(kw)) / NORM_OF[q]

    lo, hi = X_RANGE['T' if scan == 'T' else 'P']
    xs = _crossing(diff, lo, hi, log=scan != 'T')
    ctx.tag('pdx:scan-' + scan)
    if xs is None:
        ctx.tag('pdx:no-crossing-in-range')
        return
    tags = [p, q] if order == 0 else [q, p] if order == 1 else list(RXN_ORDER) if order == 2 else RXN_ORDER[::-1]
    if order >= 2:
        # inside the full list only the crossings on the lower envelope decide a stable phase
        kw = _cond(base, **{scan: elem(xs)})
        vals = {t: _reaction(t, sp).get_delta_GoRT(**_cond(kw)) / NORM_OF[t] for t in RXN_ORDER}
        ctx.evals(8)
        low = min(vals.values())
        if min(vals[p], vals[q]) > low + 1e-6 * (abs(low) + 1.0):
            ctx.tag('pdx:crossing-above-the-envelope')
            return
        ctx.tag('pdx:crossing-on-the-envelope-of-eight')
    ctx.tag('pdx:order-%d' % order)
    ctx.tag('pdx:units' if units else 'pdx:dimensionless')
    rxns = [rp if t == p else rq if t == q else _reaction(t, sp) for t in tags]
    norms = [NORM_OF[t] for t in tags]
    pd = PhaseDiagram(reactions=rxns, norm_factors=np.array(norms))
    near = NEAR['thorough' if case.get('dense') else 'quick']
    vals = sorted(set([xs * (1.0 - d) for d in near] + [xs] + [xs * (1.0 + d) for d in near]))
    grid = [elem(x) for x in vals]
    n, nx = len(rxns), len(grid)
    ctx.trans(3 * n * nx)
    # one-parameter scan: all the general clauses, then the strict ones
    s1 = _pdx_sig(case, 1)
    out = {}
    r = _check_1d(pd, rxns, norms, scan, grid, base, units, ctx, s1, case, tag=False, out=out)
    exp = out['exp']
    ctx.tag('pdx:1D')
    if r is not None:
        _strict_cols(ctx, r[1], r[0], exp, tags, s1, case)
    # two-parameter scans with the boundary variable first / second and a single value of the other variable
    other = 'P' if scan != 'P' else 'T'
    b2 = {k: v for k, v in base.items() if k != other}
    oval = [base[other]]
    for first in (True, False):
        s2 = _pdx_sig(case, '2, boundary variable ' + ('first' if first else 'second'))
        kw = _cond(b2)
        if first:
            G, st = pd.get_GoRT_2D(x1_name=scan, x1_values=grid, x2_name=other, x2_values=oval, G_units=units, **kw)
        else:
            G, st = pd.get_GoRT_2D(x1_name=other, x1_values=oval, x2_name=scan, x2_values=grid, G_units=units, **kw)
        ctx.trace()
        ctx.evals(n * nx)
        ctx.tag('pdx:2D')
        G, st = np.asarray(G), np.asarray(st)
        shape = (n, nx, 1) if first else (n, 1, nx)
        if not ctx.true('2-D table has shape (n_reactions, n_x1, n_x2)', G.shape == shape and st.shape == shape[1:],
                        s2, case, [list(G.shape), list(st.shape)], [list(shape), list(shape[1:])]):
            continue
        G2, st2 = G.reshape(n, nx), st.reshape(nx)
        ctx.close('tabulated energy = reaction value / normalisation factor (x RT with units)', G2, exp, s2, case,
                  rtol=1e-10, scale=np.abs(exp) + 1.0)
        _strict_cols(ctx, st2, G2, exp, tags, s2, case, count=False)
        if r is not None:
            ctx.true('next to a phase boundary the 1-D and the 2-D scan report the same stable phases',
                     [float(v) for v in r[1]] == [float(v) for v in st2], s2, case,
                     [float(v) for v in r[1]], [float(v) for v in st2])


# =================================================================== results the caller keeps (fourth round)
# The caller keeps what a call returned (table and stable phases), calls again - other units, other fixed conditions,
# the other scan dimension, a second diagram - and looks at the kept result afterwards: it must still be the answer
# for ITS call, and no two results may live in the same memory.
KEEP_SEQS = {
    'units-then-conditions-2D': [['2', None, 'a', 0], ['2', 'kJ/mol', 'a', 0], ['2', None, 'b', 0]],
    'units-then-conditions-1D': [['1a', 'eV', 'a', 0], ['1a', None, 'a', 0], ['1a', 'eV', 'b', 0], ['1b', None, 'a', 0],
                                 ['1b', None, 's', 0]],
    'mixed-dimensions': [['2', None, 'a', 0], ['1b', 'eV', 'a', 0], ['2', 'eV', 's', 0], ['1a', None, 's', 0],
                         ['2', 'eV', 'a', 0]],
    'two-diagrams': [['2', 'eV', 'a', 0], ['2', 'eV', 'a', 1], ['1a', None, 'b', 0], ['1a', None, 'b', 1],
                     ['2', None, 'b', 0]]}
KEPT_TAB = 'a table handed out by an earlier call still holds the energies of its own call after later calls'
KEPT_ST = 'stable phases handed out by an earlier call are still those of its own call after later calls'
KEPT_SEP = 'results of different calls do not share memory'


def _keep_cases(tier):
    full = tier == 'thorough'
    pairs = PAIRS + [pr for pr in PAIRS_NAMES if pr not in PAIRS]
    for n in ((1, 3, 8) if not full else range(1, 9)):
        for i, pair in enumerate(pairs):
            for j, seq in enumerate(sorted(KEEP_SEQS)):
                for sizes in ((2, 5), (5, 2), (5, 5), (1, 1)):
                    if not full and sizes != ((2, 5), (5, 2))[(i + j) % 2]:
                        continue
                    yield dict(kind='keep', n=n, rot=0, off=0, pair=list(pair), sizes=list(sizes), seq=seq)


def _keep_sig(case, call=None):
    s = dict(part='phase-diagram', family='kept results', scan='%s,%s' % tuple(case['pair']), history=case['seq'])
    if call is not None:
        s['call'] = call
    return s


def _run_keep(case, ctx):
    pdA, rxA, nA = _diagram(case)
    pdB, rxB, nB = _twin(pdA, case, 'new')
    ta, tb = case['pair']
    na, nb = case['sizes']
    ga, gb = _grid(ta, na), _grid(tb, nb)
    n = case['n']
    kept = []
    ctx.tag('keep:' + case['seq'])
    for ci, (dim, units, bvar, who) in enumerate(KEEP_SEQS[case['seq']]):
        pd, rxns, norms = ((pdA, rxA, nA), (pdB, rxB, nB))[who]
        base = _base([ta, tb], bvar)
        sig = _keep_sig(case, 'dim %s, %s, conditions %s, diagram %d' % (dim[0], 'units' if units else 'no units', bvar, who))
        if dim == '2':
            kw = _cond(base)
            G, st = pd.get_GoRT_2D(x1_name=ta, x1_values=ga, x2_name=tb, x2_values=gb, G_units=units, **kw)
            ctx.trace()
            exp = np.zeros((n, na, nb))
            for j, xa in enumerate(ga):
                for k, xb in enumerate(gb):
                    exp[:, j, k] = _expected(rxns, norms, _cond(base, **{ta: xa, tb: xb}), units)
            ctx.evals(2 * n * na * nb)
            ctx.trans(n * na * nb)
        else:
            name, grid, fixed = (ta, ga, {tb: gb[0]}) if dim == '1a' else (tb, gb, {ta: ga[-1]})
            kw = _cond(base, **fixed)
            G, st = pd.get_GoRT_1D(x_name=name, x_values=grid, G_units=units, **kw)
            ctx.trace()
            exp = np.array([_expected(rxns, norms, _cond(base, **dict(fixed, **{name: g})), units) for g in grid]).T
            exp = exp.reshape(n, len(grid))
            ctx.evals(2 * n * len(grid))
            ctx.trans(n * len(grid))
        ctx.tag('keep:1D' if dim != '2' else 'keep:2D')
        kept.append((G, st, exp, sig))
        # every result handed out so far is looked at again after this call (the newest one included)
        for G_, st_, exp_, sig_ in kept:
            s_ = sig_ if sig_ is sig else dict(sig_, after=sig['call'])
            if G_ is not G:
                ctx.tag('keep:looked-at-after-a-later-call')
            G_a, st_a = np.asarray(G_), np.asarray(st_)
            if not ctx.true('table and stable phases have the shape of their own call',
                            G_a.shape == exp_.shape and st_a.shape == exp_.shape[1:], s_, case,
                            [list(G_a.shape), list(st_a.shape)], [list(exp_.shape), list(exp_.shape[1:])]):
                continue
            ctx.close(KEPT_TAB, G_a, exp_, s_, case, rtol=1e-10, scale=np.abs(exp_) + 1.0)
            tol = 1e-9 * (np.max(np.abs(exp_)) + 1.0)
            e2, s2 = exp_.reshape(n, -1), st_a.reshape(-1)
            ctx.true(KEPT_ST, all(_argmin_ok(s2[j], e2[:, j], tol) for j in range(e2.shape[1])), s_, case,
                     s2.tolist(), np.argmin(e2, axis=0).tolist())
    arrays = [np.asarray(x) for G_, st_, _, _ in kept for x in (G_, st_)]
    shared = [(i, j) for i in range(len(arrays)) for j in range(i + 1, len(arrays))
              if np.shares_memory(arrays[i], arrays[j])]
    ctx.true(KEPT_SEP, not shared, _keep_sig(case), case, shared, [])


# =================================================================== energy spans
def _ts_codes(k):
    return itertools.product((0, 1), repeat=k)


def _span_cases(tier):
    for k in (1, 2, 3, 4):
        firsts = LAT if k <= 3 else [0.0]
        for first in firsts:
            for rest in itertools.product(LAT, repeat=k):
                for ts in _ts_codes(k):
                    yield dict(kind='span', g=[first] + list(rest), ts=list(ts), spect=False)
    # spectator species with stoichiometry 2 in every state (adds a constant): 1-2 steps
    for k in (1, 2):
        for g in itertools.product(LAT, repeat=k + 1):
            for ts in _ts_codes(k):
                yield dict(kind='span', g=list(g), ts=list(ts), spect=True)
    # sequences whose steps do NOT share states (each step written with its own species): the reactant
    # state of every step is a state of the sequence in its own right
    for rp in itertools.product(LAT, repeat=4):
        for ts in _ts_codes(2):
            yield dict(kind='span', g=list(rp), ts=list(ts), spect=False, chain=False)
    if tier == 'thorough':
        for rp in itertools.product(LAT, repeat=6):
            for ts in ((0, 0, 0), (1, 1, 1), (0, 1, 0)):
                yield dict(kind='span', g=list(rp), ts=list(ts), spect=False, chain=False)
    if tier == 'thorough':
        seen = set()
        for k in (5, 6, 7, 8):
            bases = [([0.0] * (k + 1), [0] * k), ([float(i % 2) for i in range(k + 1)], [1] * k)]
            npos = 2 * k + 1
            for g0, t0 in bases:
                for p, q in itertools.combinations(range(npos), 2):
                    opts = []
                    for pos in (p, q):
                        opts.append(LAT if pos <= k else [0, 1])
                    for vp, vq in itertools.product(*opts):
                        g, t = list(g0), list(t0)
                        for pos, v in ((p, vp), (q, vq)):
                            if pos <= k:
                                g[pos] = v
                            else:
                                t[pos - k - 1] = int(v)
                        key = (tuple(g), tuple(t))
                        if key in seen:
                            continue
                        seen.add(key)
                        yield dict(kind='span', g=g, ts=t, spect=False)


LAT_TS = [-1.5, -0.5, 0.5, 1.5]         # never level with a state on {-1, 0, 1}: below, between and above the ends
LAT_TS5 = [-2.5, -1.5, -0.5, 0.5, 1.5, 2.5]


def _spant_cases(tier):
    """Fourth round: transition states with energies of their own anywhere on the lattice - below both end states
    (the lowest state of the whole sequence included), between them, level with one of them and above both."""
    full = tier == 'thorough'

    def case(g, tsg, **kw):
        c_ = dict(kind='span', g=list(g), ts=[0 if v is None else 1 for v in tsg], spect=False, tsg=list(tsg))
        if not full:
            c_['light'] = True
        c_.update(kw)
        return c_

    # one step: every state pair of the five-value lattice x every TS energy on the half lattice and on the lattice
    for g in itertools.product(LAT, repeat=2):
        for e in LAT_TS5 + LAT:
            yield case(g, [e])
            if full or e in LAT_TS5:
                yield case(g, [e], spect=True)
    # two steps
    opts = [None] + (LAT_TS5 + LAT if full else LAT_TS + LAT3)
    for g in itertools.product(LAT if full else LAT3, repeat=3):
        for tsg in itertools.product(opts, repeat=2):
            if any(v is not None for v in tsg):
                yield case(g, tsg)
    # three steps (quick: first state 0, TS absent / below everything / between)
    opts = [None] + (LAT_TS if full else [-1.5, 0.5])
    for g in itertools.product(LAT3, repeat=4):
        if not full and g[0] != 0.0:
            continue
        for tsg in itertools.product(opts, repeat=3):
            if any(v is not None for v in tsg):
                yield case(g, tsg)
    # steps that do not share states
    opts = [None] + (LAT_TS if full else [-1.5, 0.5])
    for rp in itertools.product(LAT3, repeat=4):
        for tsg in itertools.product(opts, repeat=2):
            if any(v is not None for v in tsg):
                yield case(rp, tsg, chain=False)
    if full:
        # 4-6 steps: one or two free transition states in otherwise flat / zig-zag profiles
        for k in (4, 5, 6):
            for g0 in ([0.0] * (k + 1), [float(i % 2) for i in range(k + 1)]):
                for p, q in itertools.combinations(range(k), 2):
                    for vp, vq in itertools.product(LAT_TS, repeat=2):
                        tsg = [None] * k
                        tsg[p], tsg[q] = vp, vq
                        yield case(g0, tsg)


def _profile(case):
    """The profile as the harness defines it: ordered (name, energy, is_ts) of the physical states."""
    g, ts = case['g'], case['ts']
    tsg = case.get('tsg')       # fourth round: transition-state energies of their own (anywhere on the lattice)

    def e_ts(i, r, p):
        return float(tsg[i]) if (tsg and tsg[i] is not None) else max(r, p) + 1.0

    if case.get('chain') is False:
        out = []
        for i in range(len(ts)):
            r, p = g[2 * i], g[2 * i + 1]
            out.append(('R%d' % i, r, False))
            if ts[i]:
                out.append(('TS%d' % i, e_ts(i, r, p), True))
            out.append(('P%d' % i, p, False))
        return out
    out = [('S0', g[0], False)]
    for i in range(len(ts)):
        if ts[i]:
            out.append(('TS%d' % i, e_ts(i, g[i], g[i + 1]), True))
        out.append(('S%d' % (i + 1), g[i + 1], False))
    return out


def _span_candidates(E):
    """max - min (+ last - first when the maximum precedes the minimum); every tied choice."""
    mx, mn = max(E), min(E)
    imax = [i for i, v in enumerate(E) if v == mx]
    imin = [i for i, v in enumerate(E) if v == mn]
    cands = set()
    for a in imax:
        for b in imin:
            cands.add(mx - mn + ((E[-1] - E[0]) if a < b else 0.0))
    branch = 'tie' if len(cands) > 1 else ('before' if imax[0] < imin[0] else 'after')
    return sorted(cands), branch, imax


def _span_sig(case, api=None, units=None):
    prof = _profile(case)
    _, branch, _ = _span_candidates([p[1] for p in prof])
    s = dict(part='e-span', branch=branch)
    if case.get('chain') is False:
        s['steps'] = 'unchained'
    if case.get('tsg'):
        s['ts'] = 'free energy'
    if api:
        s['api'] = api
        s['units'] = units or 'none'
    return s


X_G = 0.37          # spectator Gibbs energy, eV


def _run_span(case, ctx):
    from pmutt import constants as c
    from pmutt.statmech import StatMech, ConstantMode
    from pmutt.reaction import Reaction, Reactions
    from pmutt.reaction.network import Network
    prof = _profile(case)
    E = [p[1] for p in prof]
    cands, branch, imax = _span_candidates(E)
    sp = {name: StatMech(name=name, trans_model=ConstantMode(G=e)) for name, e, _ in prof}
    spect = case['spect']
    X = StatMech(name='X', trans_model=ConstantMode(G=X_G)) if spect else None

    def state(name):
        return ([sp[name], X], [1, 2]) if spect else ([sp[name]], [1])

    k = len(case['ts'])
    rxns = []
    unchained = case.get('chain') is False
    if unchained:
        ctx.tag('span:unchained')
    for i in range(k):
        r, rs = state('R%d' % i if unchained else 'S%d' % i)
        p, ps = state('P%d' % i if unchained else 'S%d' % (i + 1))
        t, tst = (state('TS%d' % i) if case['ts'][i] else (None, None))
        rxns.append(Reaction(reactants=r, reactants_stoich=rs, products=p, products_stoich=ps, transition_state=t,
                             transition_state_stoich=tst))
    ctx.trans(k)
    ctx.tag({'before': 'span:max-before-min', 'after': 'span:max-after-min', 'tie': 'span:tie'}[branch])
    ctx.tag('span:ts-is-max' if prof[imax[0]][2] else 'span:intermediate-is-max')
    if not any(case['ts']):
        ctx.tag('span:no-ts')
    if spect:
        ctx.tag('span:spectator')
    if k == 1:
        ctx.tag('span:single-step')
    if case.get('tsg'):
        # fourth round: where the transition states lie relative to their end states and to the whole sequence
        states = [p_ for p_ in prof if not p_[2]]
        for j, p_ in enumerate(prof):
            if not p_[2]:
                continue
            lo, hi = sorted((prof[j - 1][1], prof[j + 1][1]))
            ctx.tag('span:ts-below-both-ends' if p_[1] < lo else 'span:ts-above-both-ends' if p_[1] > hi else
                    'span:ts-level-with-an-end' if p_[1] in (lo, hi) else 'span:ts-between-its-ends')
            if p_[1] < min(s_[1] for s_ in states):
                ctx.tag('span:ts-is-the-lowest-state')
                ctx.tag('span:ts-is-the-lowest-state,' + ('before' if j < imax[0] else 'after') + '-the-highest')
    T = 300.0 if (int(sum(case['g'])) % 2 == 0) else 650.0
    # light (carried by the case): one unit per route, alternating with the profile
    light = bool(case.get('light'))
    par = int(sum(abs(v) for v in case['g']) + sum(case['ts'])) % 2

    def nearest(obs, factor):
        cs = [v * factor for v in cands]
        try:
            return min(cs, key=lambda v: abs(v - float(obs)))
        except (TypeError, ValueError):
            return cs[0]

    clause = 'energy span = highest - lowest state G (+ overall reaction G when the highest precedes the lowest)'
    # Reactions.get_E_span
    ctx.tag('span:Reactions')
    for units in ((('eV', 'kJ/mol')[par],) if light else ('eV', 'kJ/mol')):
        obs = Reactions(reactions=rxns).get_E_span(units=units, T=T)
        ctx.trace()
        ctx.evals()
        f = c.R('%s/K' % units) / c.R('eV/K')
        ctx.close(clause, obs, nearest(obs, f), _span_sig(case, 'Reactions', units), case, rtol=1e-9,
                  scale=(abs(max(E)) + abs(min(E)) + 2 * X_G + 1.0) * f)
    if unchained:
        return          # Network.get_E_span follows a path of shared states; not defined for unchained steps
    # Network.get_E_span along the path written down by the harness
    ctx.tag('span:Network')
    net = Network(reactions=rxns)
    path = [frozenset([(name, 1), ('X', 2)]) if spect else frozenset([(name, 1)]) for name, _, _ in prof]
    for units in (((None, 'eV')[par],) if light else ('eV', None)):
        obs = net.get_E_span(path=path, units=units, T=T)
        ctx.trace()
        ctx.evals()
        f = 1.0 if units else 1.0 / (c.R('eV/K') * T)
        ctx.close(clause, obs, nearest(obs, f), _span_sig(case, 'Network', units), case, rtol=1e-9,
                  scale=(abs(max(E)) + abs(min(E)) + 2 * X_G + 1.0) * f)


# =================================================================== energy spans under conditions
# Sequences whose states contain pressure-dependent ideal-gas species (adsorption of A in the first / second step,
# desorption of B - or A again - in the last / first step) evaluated at general and species-specific pressures.
GAS_PATTERNS = ['A|-', '2A|-', '-|B', '-|2B', '-|A', 'A|B', '2A|B', 'A|2B', '2A|2B', 'A|A', '2A|A']
MID_PATTERNS = ['mid:A>', 'mid:>B']          # A adsorbs in the second step / B leaves in the first: unchained steps
SPAN_CONDS = [dict(),                                                   # 0 pressure omitted (1 bar)
              dict(P=1.0),                                              # 1 the default given explicitly
              dict(P=1e-6),                                             # 2
              dict(P=50),                                               # 3 Python int
              dict(P=1.0, A_kwargs=dict(P=1e-5)),                       # 4 species-specific over the default
              dict(P=1e-6, B_kwargs=dict(P=10.0)),                      # 5 species-specific over a general pressure
              dict(A_kwargs=dict(P=1e-4), B_kwargs=dict(P=20)),         # 6 only species-specific (one a Python int)
              dict(P=1e-3, A_kwargs=dict(), B_kwargs=dict(P=1e-3)),     # 7 empty species dict; same value by both routes
              dict(P=1e-2, S0_kwargs=dict(P=1e-7), S1_kwargs=dict(P=1e3))]   # 8 conditions of their own for the
#                                                  pressure-independent surface species listed before the gases
# Third round: states that hold TWO pressure-dependent species, in either order ('first|last' as above; ';*B' = B is
# present in every state - transition states included - listed after the state's own gases, ';B*' = listed before
# them), so that the conditions of one species of a state differ from those of the next species of the same state.
TWO_GAS_PATTERNS = ['A+B|-', 'B+A|-', '-|A+B', '-|B+2A', 'A|-;*B', 'A|-;B*', '-|A;*B', '-|2A;B*', 'B|-;*A', '-|B;A*',
                    'A|A;*0.5B', '2B|B;A*']
TWO_GAS_CONDS = [4, 5, 6, 7, 8]
# names the two gases carry (the per-species conditions are addressed by name): underscores, parentheses, one name
# a prefix / a suffix of the other
GAS_NAMES = {'us': dict(A='A_g', B='B_g'), 'pre': dict(A='gas_A', B='gas_B'), 'paren': dict(A='A(g)', B='B(g)'),
             'prefix': dict(A='CO', B='CO2'), 'suffix': dict(A='CO2', B='O2')}
NAMED_PATTERNS = ['A|B', 'B+2A|-', 'A|-;*B']
NAMED_CONDS = [4, 5, 6]
TSG_PATTERNS = ['A|B', 'A|-;*B']
TSG_CONDS = [2, 5]
_GAS_DEF = {'A': dict(E=0.4, wn=[2121.2], rt=[2.78], geom='linear', sig=1, mw=28.01, el={'C': 1, 'O': 1}),
            'B': dict(E=0.3, wn=[667.0, 667.0, 1333.0, 2349.0], rt=[0.561], geom='linear', sig=2, mw=44.01,
                      el={'C': 1, 'O': 2})}
_G1 = {}


def _gas(name, as_name=None):
    from pmutt.statmech import StatMech, trans, rot, vib, elec
    d = _GAS_DEF[name]
    return StatMech(name=as_name or name, elements=d['el'], trans_model=trans.FreeTrans(n_degrees=3, molecular_weight=d['mw']),
                    vib_model=vib.HarmonicVib(vib_wavenumbers=list(d['wn'])),
                    rot_model=rot.RigidRotor(symmetrynumber=d['sig'], geometry=d['geom'],
                                             rot_temperatures=list(d['rt'])),
                    elec_model=elec.GroundStateElec(potentialenergy=d['E'], spin=0))


def _gas_G(name, T, P):
    """Oracle: the species' own Gibbs energy at 1 bar (a separately built object, float arguments) plus the
    ideal-gas pressure term kB T ln(P / 1 bar), eV."""
    from pmutt import constants as c
    key = (name, float(T))
    if key not in _G1:
        _G1[key] = float(_gas(name).get_G(units='eV', T=float(T), P=1.0))
    return _G1[key] + c.kb('eV/K') * float(T) * math.log(float(P))


def _parse_tok(tok):
    """'-' -> []; '2A' -> [('A', 2)]; 'B+2A' -> [('B', 1), ('A', 2)]; '0.5B' -> [('B', 0.5)] (order kept)."""
    if tok == '-':
        return []
    out = []
    for t in tok.split('+'):
        coef = t[:-1]
        out.append((t[-1], 1 if not coef else (int(coef) if coef.isdigit() else float(coef))))
    return out


def _spanc_steps(case):
    """[(reactant state, ts state or None, product state)], a state = (surface name, surface G, [(gas, stoich)])."""
    g, ts, pat = case['g'], case['ts'], case['gas']
    k = len(ts)
    gin, gout = [[] for _ in range(k)], [[] for _ in range(k)]
    mid_pat, every = pat.startswith('mid'), ''
    if pat == 'mid:A>':
        gin[1] = [('A', 1)]
    elif pat == 'mid:>B':
        gout[0] = [('B', 1)]
    else:
        pat, _, every = pat.partition(';')
        first, last = pat.split('|')
        gin[0], gout[k - 1] = _parse_tok(first), _parse_tok(last)
    pre = _parse_tok(every[:-1]) if (not mid_pat and every.endswith('*')) else []
    post = _parse_tok(every[1:]) if (not mid_pat and every.startswith('*')) else []
    steps = []
    for i in range(k):
        r = ('S%d' % i, g[i], pre + gin[i] + post)
        p = ('S%d' % (i + 1), g[i + 1], pre + gout[i] + post)
        tsg = case.get('tsg')
        e_ts = float(tsg[i]) if (tsg and tsg[i] is not None) else max(g[i], g[i + 1]) + 1.0
        t = ('TS%d' % i, e_ts, pre + post) if ts[i] else None
        steps.append((r, t, p))
    return steps


def _peff(name, cond):
    sk = cond.get('%s_kwargs' % name) or {}
    if 'P' in sk:
        return float(sk['P'])
    return float(cond.get('P', 1.0))


def _state_G(state, T, cond):
    return state[1] + sum(nu * _gas_G(name, T, _peff(name, cond)) for name, nu in state[2])


def _cond_kind(cond):
    if any(k.startswith('S') and k.endswith('_kwargs') for k in cond):
        return 'P + surface-species P'
    sp = any(k.endswith('_kwargs') and v for k, v in cond.items())
    gen = 'P' in cond
    return {(False, False): 'P omitted', (True, False): 'P', (False, True): 'species P',
            (True, True): 'P + species P'}[(gen, sp)]


def _spanc_cases(tier):
    """Every case carries its own options: 'light' (one unit per route, no repeated call: the third-round families
    in the quick tier) and 'minroute' (get_min_E_span as a third route: the third-round families, the surface-species
    conditions, and the first temperature of every older pattern in the thorough tier)."""
    for case in _spanc_cases_plain(tier):
        new = case['gas'] in TWO_GAS_PATTERNS or bool(case.get('names')) or bool(case.get('tsg'))
        if tier == 'quick' and new:
            case['light'] = True
        if new or case['cond'] == 8 or case.get('Ti') == 0:
            case['minroute'] = True
        yield case


def _spanc_cases_plain(tier):
    def profiles():
        if tier == 'quick':
            for k in (1, 2):
                for g in itertools.product(LAT3, repeat=k + 1):
                    for ts in _ts_codes(k):
                        yield list(g), list(ts)
            for rest in itertools.product(LAT3, repeat=3):
                for ts in ((0, 0, 0), (1, 1, 1), (0, 1, 0)):
                    yield [0.0] + list(rest), list(ts)
        else:
            for k in (1, 2):
                for g in itertools.product(LAT, repeat=k + 1):
                    for ts in _ts_codes(k):
                        yield list(g), list(ts)
            for g in itertools.product(LAT3, repeat=4):
                for ts in _ts_codes(3):
                    yield list(g), list(ts)

    for g, ts in profiles():
        pats = GAS_PATTERNS + (MID_PATTERNS if len(ts) >= 2 else [])
        for pat in pats:
            for ci in range(len(SPAN_CONDS)):
                for Ti in ((0, 1) if tier == 'thorough' else (None,)):
                    case = dict(kind='spanc', g=g, ts=ts, gas=pat, cond=ci)
                    if Ti is not None:
                        case['Ti'] = Ti
                    if len(ts) >= 2 and ci in (2, 5):
                        case['edit'] = True
                    yield case
    # two pressure-dependent species in one state (quick: 3-step profiles with the middle transition state only)
    for g, ts in profiles():
        if tier == 'quick' and len(ts) == 3 and tuple(ts) != (0, 1, 0):
            continue
        for pat in TWO_GAS_PATTERNS:
            for ci in (TWO_GAS_CONDS if (tier == 'quick' or len(ts) == 3) else range(len(SPAN_CONDS))):
                # (the temperature alternates with the profile and the conditions)
                case = dict(kind='spanc', g=g, ts=ts, gas=pat, cond=ci)
                if len(ts) >= 2 and ci == 5:
                    case['edit'] = True
                yield case
    # the gases under other names (1- and 2-step profiles; quick: 2 steps without / with both transition states)
    for g, ts in profiles():
        if len(ts) > 2 or (tier == 'quick' and len(ts) == 2 and ts[0] != ts[1]):
            continue
        for scheme in sorted(GAS_NAMES):
            for pat in NAMED_PATTERNS:
                for ci in NAMED_CONDS:
                    yield dict(kind='spanc', g=g, ts=ts, gas=pat, cond=ci, names=scheme)
    # fourth round: transition states with energies of their own (below everything / between the end states) in
    # sequences with gas species, through all three routes
    for g, ts in profiles():
        if len(ts) > 2 or not any(ts):
            continue
        for e in ((-1.5, 0.5) if tier == 'quick' else LAT_TS):
            for pat in TSG_PATTERNS:
                for ci in TSG_CONDS:
                    yield dict(kind='spanc', g=g, ts=ts, gas=pat, cond=ci, tsg=[e if t else None for t in ts])


def _spanc_T(case):
    Ti = case.get('Ti')
    if Ti is None:
        Ti = (int(sum(case['g'])) + case['cond']) % 2
    return 300 if Ti == 0 else 650.0            # a Python int and a float


def _spanc_sig(case, api=None, units=None, history=None):
    s = dict(part='e-span', family='gas species and pressures',
             gas=('mid' if case['gas'].startswith('mid') else 'two in one state' if case['gas'] in TWO_GAS_PATTERNS
                  else 'ends'),
             cond=_cond_kind(SPAN_CONDS[case['cond']]))
    if case.get('names'):
        s['names'] = case['names']
    if case.get('tsg'):
        s['ts'] = 'free energy'
    if api:
        s['api'] = api
        s['units'] = units or 'none'
    if history:
        s['history'] = history
    return s


def _run_spanc(case, ctx):
    from pmutt import constants as c
    from pmutt.statmech import StatMech, ConstantMode
    from pmutt.reaction import Reaction, Reactions
    from pmutt.reaction.network import Network
    steps = _spanc_steps(case)
    cond = SPAN_CONDS[case['cond']]
    T = _spanc_T(case)
    k = len(steps)
    mid = case['gas'].startswith('mid')
    gname = dict(GAS_NAMES[case['names']]) if case.get('names') else dict(A='A', B='B')   # names the gases carry
    gases = {'A': _gas('A', gname['A']), 'B': _gas('B', gname['B'])}
    surf = {}
    if case.get('names'):
        ctx.tag('spanc:names-' + case['names'])
    if case['gas'] in TWO_GAS_PATTERNS:
        ctx.tag('spanc:two-gases-in-one-state')
        # the collision itself: a state whose gases are at different effective pressures, by the order in the state
        for st in steps:
            for s_ in st:
                if s_ is not None and len(s_[2]) == 2:
                    p0, p1 = _peff(s_[2][0][0], cond), _peff(s_[2][1][0], cond)
                    own0, own1 = [bool((cond.get('%s_kwargs' % s_[2][i][0]) or {}).get('P') is not None) for i in (0, 1)]
                    if p0 != p1 and own0 and not own1:
                        ctx.tag('spanc:earlier-species-own-P,later-overall')
                    if p0 != p1 and own1 and not own0:
                        ctx.tag('spanc:later-species-own-P,earlier-overall')
                    if p0 != p1 and own0 and own1:
                        ctx.tag('spanc:both-species-own-P')

    def species(state):
        name, e, gl = state
        if name not in surf:
            surf[name] = StatMech(name=name, trans_model=ConstantMode(G=e))
        return [surf[name]] + [gases[n] for n, _ in gl], [1] + [nu for _, nu in gl]

    rxns = []
    for r, t, p in steps:
        rs, rst = species(r)
        ps, pst = species(p)
        tsp, tst = species(t) if t else (None, None)
        rxns.append(Reaction(reactants=rs, reactants_stoich=rst, products=ps, products_stoich=pst,
                             transition_state=tsp, transition_state_stoich=tst))
    ctx.trans(k)

    def oracle(step_list, cnd):
        states = [s for st in step_list for s in st if s is not None]
        E = [_state_G(s, T, cnd) for s in states]
        return E, _span_candidates(E)

    E, (cands, branch, imax) = oracle(steps, cond)
    E0, (_, branch0, imax0) = oracle(steps, {})
    ctx.tag({'before': 'spanc:max-before-min', 'after': 'spanc:max-after-min', 'tie': 'spanc:tie'}[branch])
    if branch == 'before' and abs((E[-1] - E[0]) - (E0[-1] - E0[0])) > 1e-3:
        ctx.tag('spanc:before+overall-term-depends-on-conditions')
    if branch != branch0 or imax[0] != imax0[0]:
        ctx.tag('spanc:extrema-move-with-conditions')
    ctx.tag('spanc:cond-' + _cond_kind(cond).replace(' ', '-'))
    ctx.tag('spanc:mid-gas' if mid else 'spanc:end-gas')
    if case.get('tsg'):
        flat = [(s_, s_ is st[1]) for st in steps for s_ in st if s_ is not None]
        if min(range(len(E)), key=lambda i_: E[i_]) in [i_ for i_, (_, is_ts) in enumerate(flat) if is_ts]:
            ctx.tag('spanc:ts-is-the-lowest-state')
    ctx.tag('spanc:int-T' if isinstance(T, int) else 'spanc:float-T')
    if any(isinstance(v, int) for v in [cond.get('P')] + [d.get('P') for d in cond.values() if isinstance(d, dict)]):
        ctx.tag('spanc:int-P')
    clause = 'energy span = highest - lowest state G (+ overall reaction G when the highest precedes the lowest)'
    again = 'the same call repeated with the same keyword objects gives the same energy span'
    kept = "the call leaves the caller's species-specific keyword dicts as they were"
    scale = max(abs(v) for v in E) + 1.0

    def nearest(obs, cs, factor):
        cs = [v * factor for v in cs]
        try:
            return min(cs, key=lambda v: abs(v - float(obs)))
        except (TypeError, ValueError):
            return cs[0]

    def kwargs():
        # fresh keyword objects; the per-species conditions under the names the gases carry
        out = dict(T=T)
        for k_, v in cond.items():
            if k_ in ('A_kwargs', 'B_kwargs'):
                k_ = '%s_kwargs' % gname[k_[0]]
            out[k_] = dict(v) if isinstance(v, dict) else v
        return out

    seq = Reactions(reactions=list(rxns[:-1]) if case.get('edit') else list(rxns))
    hist = None
    if case.get('edit'):
        # history: span of the sequence without its last step, the step appended to the same object, span again
        ctx.tag('spanc:edit-append')
        hist = 'span, append a step to .reactions, span'
        _, (cs_p, _, _) = oracle(steps[:-1], cond)
        obs = seq.get_E_span(units='eV', **kwargs())
        ctx.trace()
        ctx.evals()
        ctx.close(clause, obs, nearest(obs, cs_p, 1.0), _spanc_sig(case, 'Reactions', 'eV', 'span of the shorter sequence'),
                  case, rtol=1e-9, scale=scale)
        seq.reactions.append(rxns[-1])
    ctx.tag('spanc:Reactions')
    # the families of the third round (two gases in one state, other names) take one unit per route in the quick
    # tier: the unit conversion and the repeated call are exercised by the older patterns
    light = bool(case.get('light'))
    for units in (('eV',) if light else ('eV', 'kJ/mol')):
        kw = kwargs()
        snap = copy.deepcopy(kw)
        obs = seq.get_E_span(units=units, **kw)
        ctx.trace()
        ctx.evals()
        f = c.R('%s/K' % units) / c.R('eV/K')
        sig = _spanc_sig(case, 'Reactions', units, hist)
        ctx.close(clause, obs, nearest(obs, cands, f), sig, case, rtol=1e-9, scale=scale * f)
        ctx.true(kept, kw == snap, sig, case, repr(kw), repr(snap))
        if units == 'eV' and not light:
            obs2 = seq.get_E_span(units=units, **kw)
            ctx.trace()
            ctx.evals()
            ctx.tag('spanc:second-call')
            ctx.close(again, obs2, obs, sig, case, rtol=1e-13, scale=scale * f)
    if mid:
        return          # Network.get_E_span follows a path of shared states; not defined for unchained steps
    ctx.tag('spanc:Network')
    net = Network(reactions=list(rxns))
    path = []
    for st in steps:
        for s in st:
            if s is None:
                continue
            node = frozenset([(s[0], 1)] + [(gname[n], nu) for n, nu in s[2]])
            if not path or path[-1] != node:
                path.append(node)
    for units in ('eV', None):
        kw = kwargs()
        snap = copy.deepcopy(kw)
        obs = net.get_E_span(path=list(path), units=units, **kw)
        ctx.trace()
        ctx.evals()
        f = 1.0 if units else 1.0 / (c.R('eV/K') * float(T))
        sig = _spanc_sig(case, 'Network', units)
        ctx.close(clause, obs, nearest(obs, cands, f), sig, case, rtol=1e-9, scale=scale * f)
        ctx.true(kept, kw == snap, sig, case, repr(kw), repr(snap))
    # the sequence is the only route from its first to its last state: the smallest span over all routes is its span
    # (states written as strings, the way get_min_E_span takes them)
    def state_str(s_):
        return '+'.join([s_[0]] + [('%s' % gname[n] if nu == 1 else '%r%s' % (nu, gname[n])) for n, nu in s_[2]])

    if not case.get('minroute'):
        return
    ctx.tag('spanc:Network.min')
    kw = kwargs()
    snap = copy.deepcopy(kw)
    obs = net.get_min_E_span(source=state_str(steps[0][0]), target=state_str(steps[-1][2]), units='eV', **kw)
    ctx.trace()
    ctx.evals()
    sig = _spanc_sig(case, 'Network.min', 'eV')
    ctx.close(clause, obs, nearest(obs, cands, 1.0), sig, case, rtol=1e-9, scale=scale)
    ctx.true(kept, kw == snap, sig, case, repr(kw), repr(snap))


# =================================================================== energy spans the caller keeps (fourth round)
# One sequence A (gas A adsorbs first, B leaves last) and a second sequence B' with the same species NAMES but the
# mirrored profile, in one process: spans through all three routes under alternating units and conditions, every value
# kept and looked at again at the end; A's span asked again after B' was evaluated.
SPANK_CONDS = [2, 5, 4]
SPANK_KEPT = 'an energy span handed out by an earlier call is still the span of its own call after later calls'


def _spank_cases(tier):
    lat = LAT if tier == 'thorough' else LAT3
    for k in (1, 2):
        for g in itertools.product(lat, repeat=k + 1):
            for ts in _ts_codes(k):
                for e in ((None, -1.5) if any(ts) else (None,)):
                    case = dict(kind='spank', g=list(g), ts=list(ts), gas='A|B', cond=2)
                    if e is not None:
                        case['tsg'] = [e if t else None for t in ts]
                    yield case


def _spank_build(case, mirror):
    from pmutt.statmech import StatMech, ConstantMode
    from pmutt.reaction import Reaction
    c2 = dict(case)
    if mirror:
        c2['g'] = [-v + 0.25 for v in case['g']][::-1]
        c2['ts'] = list(case['ts'])[::-1]
        if case.get('tsg'):
            c2['tsg'] = list(case['tsg'])[::-1]
    steps = _spanc_steps(c2)
    gases = {'A': _gas('A'), 'B': _gas('B')}
    surf, rxns = {}, []

    def species(state):
        name, e, gl = state
        if name not in surf:
            surf[name] = StatMech(name=name, trans_model=ConstantMode(G=e))
        return [surf[name]] + [gases[n_] for n_, _ in gl], [1] + [nu for _, nu in gl]

    for r, t, p_ in steps:
        rs, rst = species(r)
        ps, pst = species(p_)
        tsp, tst = species(t) if t else (None, None)
        rxns.append(Reaction(reactants=rs, reactants_stoich=rst, products=ps, products_stoich=pst,
                             transition_state=tsp, transition_state_stoich=tst))
    path = []
    for st in steps:
        for s_ in st:
            if s_ is None:
                continue
            node = frozenset([(s_[0], 1)] + [(n_, nu) for n_, nu in s_[2]])
            if not path or path[-1] != node:
                path.append(node)

    def state_str(s_):
        return '+'.join([s_[0]] + [('%s' % n_ if nu == 1 else '%r%s' % (nu, n_)) for n_, nu in s_[2]])

    return steps, rxns, path, state_str(steps[0][0]), state_str(steps[-1][2])


def _run_spank(case, ctx):
    from pmutt import constants as c
    from pmutt.reaction import Reactions
    from pmutt.reaction.network import Network
    T = _spanc_T(case)
    built = [_spank_build(case, False), _spank_build(case, True)]
    seqs = [Reactions(reactions=list(b[1])) for b in built]
    nets = [Network(reactions=list(b[1])) for b in built]
    ctx.trans(2 * len(case['ts']))
    clause = 'energy span = highest - lowest state G (+ overall reaction G when the highest precedes the lowest)'
    kept = []

    def call(who, api, units, ci):
        steps, _, path, src, tgt = built[who]
        cond = SPAN_CONDS[ci]
        kw = dict(T=T)
        kw.update({k_: (dict(v) if isinstance(v, dict) else v) for k_, v in cond.items()})
        if api == 'Reactions':
            obs = seqs[who].get_E_span(units=units, **kw)
        elif api == 'Network':
            obs = nets[who].get_E_span(path=list(path), units=units, **kw)
        else:
            obs = nets[who].get_min_E_span(source=src, target=tgt, units=units, **kw)
        ctx.trace()
        ctx.evals()
        states = [s_ for st in steps for s_ in st if s_ is not None]
        E = [_state_G(s_, T, cond) for s_ in states]
        cands, _, _ = _span_candidates(E)
        f = (c.R('%s/K' % units) / c.R('eV/K')) if units else 1.0 / (c.R('eV/K') * float(T))
        cs = [v * f for v in cands]
        try:
            exp = min(cs, key=lambda v: abs(v - float(obs)))
        except (TypeError, ValueError):
            exp = cs[0]
        scale = (max(abs(v) for v in E) + 1.0) * f
        sig = dict(part='e-span', family='kept results', api=api, units=units or 'none', cond=_cond_kind(cond),
                   sequence='second (mirrored profile, same names)' if who else 'first')
        if case.get('tsg'):
            sig['ts'] = 'free energy'
        ctx.close(clause, obs, exp, sig, case, rtol=1e-9, scale=scale)
        kept.append((obs, exp, scale, sig))

    a, b_, c_ = SPANK_CONDS
    call(0, 'Reactions', 'eV', a)
    call(0, 'Reactions', 'kJ/mol', b_)
    call(0, 'Network', 'eV', b_)
    call(0, 'Network', None, a)
    call(0, 'Network.min', 'eV', c_)
    call(1, 'Reactions', 'eV', a)               # a second sequence / network with the same species names
    call(1, 'Network', 'eV', a)
    call(1, 'Network.min', 'eV', a)
    call(0, 'Reactions', 'eV', a)               # the first objects again
    call(0, 'Network', 'eV', b_)
    call(0, 'Network.min', 'eV', c_)
    ctx.tag('spank:two-sequences-same-names')
    for obs, exp, scale, sig in kept:
        ctx.close(SPANK_KEPT, obs, exp, dict(sig, history='looked at again after all later calls'), case, rtol=1e-9,
                  scale=scale)


# =================================================================== runner interface
def shards(tier):
    out = [dict(kind='pd1', part=i, nparts=N_PD_SHARDS) for i in range(N_PD_SHARDS)]
    out += [dict(kind='pd2', part=i, nparts=N_PD_SHARDS) for i in range(N_PD_SHARDS)]
    out += [dict(kind='span', part=i, nparts=N_SPAN_SHARDS) for i in range(N_SPAN_SHARDS)]
    out += [dict(kind='spanc', part=i, nparts=N_SPANC_SHARDS) for i in range(N_SPANC_SHARDS)]
    # fourth round: grid points next to a phase boundary, kept results, free transition-state energies
    for kind, k in (('pdx', N_PDX_SHARDS), ('keep', N_KEEP_SHARDS), ('spant', N_SPANT_SHARDS), ('spank', 1)):
        out += [dict(kind=kind, part=i, nparts=k) for i in range(k)]
    # fifth round: identity of a species vs its name
    out += [dict(kind='pdid', part=i, nparts=N_PDID_SHARDS) for i in range(N_PDID_SHARDS)]
    return out


def check_case(case, ctx):
    if case['kind'] == 'pd1':
        _run_pd1(case, ctx)
    elif case['kind'] == 'pd2':
        _run_pd2(case, ctx)
    elif case['kind'] == 'span':
        _run_span(case, ctx)
    elif case['kind'] == 'spanc':
        _run_spanc(case, ctx)
    elif case['kind'] == 'pdx':
        _run_pdx(case, ctx)
    elif case['kind'] == 'keep':
        _run_keep(case, ctx)
    elif case['kind'] == 'spank':
        _run_spank(case, ctx)
    else:
        raise ValueError(case['kind'])


def run_shard(shard, ctx):
    kind = shard['kind']
    gen = {'pd1': _pd1_cases, 'pd2': _pd2_cases, 'span': _span_cases, 'spanc': _spanc_cases, 'pdx': _pdx_cases,
           'keep': _keep_cases, 'spant': _spant_cases, 'spank': _spank_cases, 'pdid': _pdid_cases}[kind](ctx.tier)
    fn = {'pd1': _run_pd1, 'pd2': _run_pd2, 'span': _run_span, 'spanc': _run_spanc, 'pdx': _run_pdx,
          'keep': _run_keep, 'spant': _run_span, 'spank': _run_spank, 'pdid': check_case}[kind]
    for i, case in enumerate(gen):
        if i % shard['nparts'] != shard['part']:
            continue
        if kind in ('pdx', 'keep', 'spank'):
            sig = (_pdx_sig(case) if kind == 'pdx' else _keep_sig(case) if kind == 'keep' else
                   dict(part='e-span', family='kept results'))
            key = tuple(sorted((k, str(v)) for k, v in case.items()))
            ctx.state(key)
            if kind != 'pdx':
                ctx.nontrivial(key)         # (pdx: the decided near-degenerate columns are counted by the case)
        elif kind in ('span', 'spant'):
            sig = _span_sig(case)
            key = ('span', tuple(case['g']), tuple(case['ts']), case['spect'], case.get('chain', True))
            if case.get('tsg'):
                key += (tuple(case['tsg']),)
            ctx.state(key)
            if sig['branch'] != 'after' or any(case['ts']):
                ctx.nontrivial(key)
        elif kind == 'spanc':
            sig = _spanc_sig(case)
            key = ('spanc', tuple(case['g']), tuple(case['ts']), case['gas'], case['cond'], case.get('Ti'),
                   bool(case.get('edit')), case.get('names'))
            if case.get('tsg'):
                key += (tuple(case['tsg']),)
            ctx.state(key)
            if case['cond'] not in (0, 1):
                ctx.nontrivial(key)
        else:
            sig = _pd_sig(case)
            key = tuple(sorted((k, str(v)) for k, v in case.items()))
            ctx.state(key)
            if case['n'] > 1:
                ctx.nontrivial(key)
        ctx.run_case(fn, case, sig)
        if i % 1499 == shard['part']:
            ctx.sample(case, limit=1)


LEVEL_TEXT = ('Exhaustive product enumeration on the real PhaseDiagram, Reactions and Network classes: 1-8 formation '
              'reactions with normalisation factors {1,2,0.5,4}, scans over T, P and per-species pressures with 1, 2, 5 '
              'and 30 grid values, 1-D and 2-D, with and without units, checked against the reactions own values at '
              'freshly built conditions and a recomputed arg-min per grid point, with every 2-D row/column compared to '
              'the 1-D scan; and every G-profile of 1-4 steps on a five-value lattice with optional transition states '
              'through both energy-span implementations. Strengthened: grids as float / integer ndarray, list, tuple, '
              'range, descending and unsorted with repeats; integer, list, tuple, None and omitted factors; integer and '
              'empty fixed conditions; caller data unchanged; repeated scans after the result was overwritten or the grid '
              'edited in place; second diagrams made by constructor, deepcopy and from_dict; energy spans of sequences '
              'with ideal-gas species at general and species-specific pressures (oracle: 1 bar value + kB T ln P). '
              'Third round: species names with underscores (suffix and shared prefix), parentheses and names that are '
              'a prefix / suffix of one another in every per-species scan variable (O2, H2O and the product-side H2) and '
              'fixed condition, 1-D and 2-D; energy-span states holding two pressure-dependent species in either order '
              '(co-adsorbed, co-desorbed, spectator gas in every state) with conditions of its own for the first, the '
              'second, both, and for the pressure-independent surface species; get_min_E_span as a third route. '
              'Fourth round: for every pair of reactions and scan variable the crossing of the two normalised lines is '
              'located and scanned at relative distances 1e-3 to 1e-9 on both sides, in both index orders and inside the '
              'full list, 1-D and 2-D, with ties accepted only between equal tabulated values; tables, stable phases and '
              'energy spans kept by the caller across later calls (other units, conditions, dimension, a second diagram '
              '/ sequence) still equal the oracle of their own call and share no memory; transition states with energies '
              'anywhere on the lattice (below both end states and the lowest state of the sequence, between, level, above). '
              'Fifth round: the identity of a species object against its name - surface species (or all species) left '
              'without a name and found only through the dictionary keys given to Reaction.from_string, different '
              'species objects carrying the same explicit name (all surface phases, and two O2 objects of different '
              'energy), one object listed under two keys - in 1-D, 2-D and 1-vs-2-D scans over every scan variable.')
LEVEL_NOTE = ('Species from a fixed table whose lines cross along each scan; rotations/offsets of the reaction list by '
              'one deviation in the quick tier, full in the thorough tier; 5-8 step profiles only in the thorough tier '
              '(two deviations from two base profiles). Ties accept any tied answer.')
TECHNIQUE = 'deviation-bounded exhaustive product enumeration on the implementation, independent arg-min / span oracle'
