"""C12 - the unit tables form a consistent algebra and agree with their definitions.

Shape B, full product: every unit of the conversion table, every ordered pair and triple within
each quantity type, every cross-type pair, every key of the constant tables, every element, and a
complete small alphabet of compositions.  Oracles are SI definitions / textbook relations kept in
pmc/ref/units_ref.py, relations between two getters, and a second route through the same tables.
"""
import itertools
import math

import numpy as np

from pmc.ref import units_ref as U

ID = 'C12'
RULE = ('full product: all units of type_dict + unit_dict; all ordered pairs and triples inside each of the '
        '11 quantity types at several numeric arguments; all cross-type ordered pairs and a list of '
        'unknown units; each derived unit against its definition; every key (source dict + docstring '
        'table) of R, h, kb, c, m_e, m_p, P0, T0, V0; the 14 spectroscopic helpers in all pairs and '
        'paths; all 118 elements in both element tables; dict and formula compositions over a 10-element '
        'alphabet.  Argument forms: every ordered pair of every type and every helper is also called with '
        'Python ints, numpy scalars, num=None and 11 array forms (descending, unsorted with repeats, int64, '
        'int32, 2-d, 0-d, length 1, empty, strided view, read-only), each as a four-call history (call, call '
        'again, overwrite the result, edit the argument in place) against the element-by-element textbook '
        'answer; helper arguments include negative numbers (imaginary modes) and zero.  '
        'A case is non-trivial when it is not the identity conversion of 1.0')
ASSUMPTIONS = ['numeric arguments are taken from a short list per clause (stated in bounds)',
               'tolerance of a tabulated decimal = one unit in its last written digit (read from the source '
               'literal); exact prefixes / rationals 1e-12; CODATA quantities at least 1e-7 (2014 vs 2018 sets)',
               'the calorie of the conversion table is the thermochemical one (4.184 J), as its 0.239006 says',
               'composition alphabet: H C N O Al Cl Co Pt U Uuo with counts from a short list',
               'lists / tuples are not arguments of convert_unit or the helpers (documented as float; the unchanged '
               'code raises TypeError for them): numbers, numpy scalars and numpy arrays are',
               'an identity conversion (a -> a) may return its argument itself; every other conversion and every '
               'helper must return an array that shares no memory with its argument']
EXPLANATION = ('every case calls the real pmutt.constants / pmutt.get_molecular_weight; expected values come from SI '
               'definitions, textbook relations or a second route through the same tables')

VALUES = [1.0, 0.0, -2.5, 3.7e5, 1e-7]
TEMPS = [-40.0, 0.0, 25.0, 100.0, 1000.0]
WAVENUMBERS = [10.0, 806.5544005, 1000.0, 4000.0]       # 806.55 1/cm = 0.1 eV
HELPER_W = WAVENUMBERS + [-w for w in WAVENUMBERS] + [0.0]   # negative = imaginary mode (pMuTT convention)
DEBYE = [10.0, 175.0, 215.0, 1000.0]
DEBYE_X = DEBYE + [-x for x in DEBYE] + [0.0]
INTS = [1, 0, -3, 370000, 25]                   # integer-typed arguments of proportional conversions / helpers
INT_TEMPS = [-40, 0, 25, 100, 1000]
ARRAY_FORMS = ['float-ascending', 'float-descending', 'float-unsorted-repeated', 'int64', 'int32-descending',
               '2d', '0d', 'len1', 'empty', 'view', 'readonly']
SCALAR_FORMS = ['py-int', 'np.float64', 'np.int64']
PAIR_FORMS = SCALAR_FORMS + ['none'] + ARRAY_FORMS
HELPER_FORMS = SCALAR_FORMS + ['scaled'] + ARRAY_FORMS
HELPER_FNS = (['%s_to_%s' % p for p in itertools.permutations(['energy', 'freq', 'temp', 'wavenumber'], 2)] +
              ['wavenumber_to_inertia', 'inertia_to_temp', 'debye_to_einstein', 'einstein_to_debye'])
UNKNOWN = ['', 'j', 'Joule', 'K ', ' K', 'kelvin', 'm^2', 'atm L', 'Torr', 'KJ', 'l', None, 5]
MW_ELEMENTS = ['H', 'C', 'N', 'O', 'Al', 'Cl', 'Co', 'Pt', 'U', 'Uuo']
MW_COUNTS = [1, 2, 0, 0.5, 10]
MW_TOKENS = ['', '1', '2', '10']

TABLE_SHARDS = ['R', 'h', 'kb', 'c', 'm_e+m_p', 'P0+T0+V0', 'R=kb*Na', 'doc:R+kb+h+c', 'doc:m_e+m_p+P0+T0+V0']
PLANNED_TAGS = (['type:' + t for t in U.TYPES] +
                ['algebra:reflexive', 'algebra:inverse', 'algebra:transitive', 'algebra:proportional',
                 'algebra:affine', 'algebra:array', 'refused:cross-type', 'refused:unknown',
                 'definition:exact', 'definition:rounded', 'definition:measured',
                 'derived:length^2', 'derived:length^3', 'derived:named-volume', 'derived:prefix',
                 'derived:alias', 'derived:energy/amount', 'derived:volume*pressure',
                 'table:R', 'table:h', 'table:h-bar', 'table:kb', 'table:c', 'table:m_e', 'table:m_p',
                 'table:P0', 'table:T0', 'table:V0', 'table:R=kb*Na', 'route:volume*pressure',
                 'route:energy', 'route:per-molecule', 'doc:row',
                 'helper:textbook', 'helper:inverse', 'helper:path', 'helper:inertia', 'helper:array',
                 'helper:debye', 'helper:negative', 'helper:zero', 'helper:homogeneous',
                 'arg:py-int', 'arg:np-scalar', 'arg:none', 'arg:array-float', 'arg:array-int',
                 'arg:array-unsorted', 'arg:array-2d', 'arg:array-0d', 'arg:array-empty', 'arg:array-view',
                 'arg:array-readonly', 'history:unchanged', 'history:second-call',
                 'history:result-overwritten', 'history:edited-in-place', 'mw:repeat', 'mw:dict-edited',
                 'elements:both', 'elements:neither', 'elements:legacy-symbol',
                 'mw:dict-symbol', 'mw:dict-number', 'mw:dict-mixed', 'mw:formula', 'mw:formula-repeat'])


def bounds(tier):
    return dict(values=VALUES, temperatures=TEMPS, wavenumbers=WAVENUMBERS, debye=DEBYE,
                helper_wavenumbers=HELPER_W, debye_arguments=DEBYE_X, integers=INTS, integer_temperatures=INT_TEMPS,
                argument_forms_pairs=PAIR_FORMS, argument_forms_helpers=HELPER_FORMS, history_depth=4,
                unknown_units=[repr(u) for u in UNKNOWN], mw_elements=MW_ELEMENTS, mw_counts=MW_COUNTS,
                mw_dict_max_elements=2 if tier == 'quick' else 3,
                mw_formula_max_tokens=2 if tier == 'quick' else 3, product='full')


def shards(tier):
    out = [dict(kind='algebra', type=t) for t in U.TYPES]
    out += [dict(kind='cross', part=p) for p in range(4)]
    out += [dict(kind='unknown'), dict(kind='derived')]
    out += [dict(kind='table', table=t) for t in TABLE_SHARDS]
    out += [dict(kind='helpers'), dict(kind='debye')]
    out += [dict(kind='algebra-args', type=t) for t in U.TYPES]
    out += [dict(kind='helper-args', part=p) for p in range(4)]
    out += [dict(kind='elements', table='atomic_weight'), dict(kind='elements', table='S_elements')]
    out += [dict(kind='mw-dict', first=e, n=2 if tier == 'quick' else 3) for e in MW_ELEMENTS]
    out += [dict(kind='mw-formula', first=e, n=2 if tier == 'quick' else 3) for e in MW_ELEMENTS]
    return out


# ------------------------------------------------------------------ access to the implementation
def _c():
    from pmutt import constants as c
    return c


_cache = {}


def _unit_literals():
    if 'lit' not in _cache:
        _cache['lit'] = U.dict_literals(_c().convert_unit, 'unit_dict') or {}
    return _cache['lit']


def all_units():
    """Units of the conversion table: type_dict keys, then unit_dict keys missing from it."""
    c = _c()
    out = list(c.type_dict)
    out += [u for u in _unit_literals() if u not in c.type_dict]
    return out


def ref_type(u):
    for t, (_, d) in U.SI.items():
        if u in d:
            return t
    if u in ('K', 'C', 'F', 'R'):
        return 'temp'
    return None


def units_of(t):
    """Units the reference files under type t, in table order."""
    return [u for u in all_units() if ref_type(u) == t]


def unit_tol(u):
    """Relative tolerance for the factor of unit u (DESIGN 3.4, 'unit tables vs definitions')."""
    t = ref_type(u)
    if t is None or t == 'temp':
        return U.EXACT_FLOOR
    cls = U.SI[t][1][u][1]
    if cls == 'exact':
        return U.EXACT_FLOOR
    ulp = max([U.literal_ulp(x) for x in _unit_literals().get(u, [])] + [0.0])
    return max(ulp, U.MEASURED_FLOOR if cls == 'measured' else U.EXACT_FLOOR)


def factor(u, ctx=None):
    """Observed number of units u per SI base unit of its type."""
    c = _c()
    if ctx is not None:
        ctx.evals()
    return c.convert_unit(initial=U.SI[ref_type(u)][0], final=u)


def _conv(ctx, x, a, b):
    ctx.evals()
    ctx.trans()
    return _c().convert_unit(x, a, b)


def _accepted(u):
    try:
        _c().convert_unit(1.0, u, u)
        return True
    except ValueError:
        return False


# ------------------------------------------------------------------ cases
class _TableGap(Exception):
    """An element is present under one kind of key and missing under the other (a property violation,
    not a harness error)."""


def check_case(case, ctx):
    ctx.trace()
    try:
        return _KINDS[case['kind']](case, ctx)
    except _TableGap as e:
        ctx.fail('every element is present under its symbol and under its atomic number',
                 dict(group=case['kind'], table='atomic_weight'), case, str(e), 'present under both keys')


def _k_member(case, ctx):
    """A unit of the conversion table is accepted and filed under its quantity type."""
    c = _c()
    u = case['unit']
    sig = dict(group='membership', unit=u)
    ok = ctx.true('every unit of the conversion table is accepted by convert_unit', _accepted(u), sig, case,
                  'ValueError' if not _accepted(u) else 'accepted', 'accepted')
    if ok:
        ctx.true('unit is filed under its quantity type', c.type_dict.get(u) == case['type'], sig, case,
                 c.type_dict.get(u), case['type'])


def _k_pair(case, ctx):
    t, a, b = case['type'], case['a'], case['b']
    sig = dict(group='algebra', type=t, initial=a, final=b)
    temp = t == 'temp'
    xs = TEMPS if temp else VALUES
    ctx.tag('type:' + t)
    for x in xs:
        sc = abs(x) + (500.0 if temp else 0.0)
        y = _conv(ctx, x, a, b)
        if a == b:
            ctx.tag('algebra:reflexive')
            ctx.close('reflexive: x -> same unit = x', y, x, sig, case, rtol=1e-12, atol=0.0, scale=sc or 1.0)
        back = _conv(ctx, y, b, a)
        ctx.tag('algebra:inverse')
        ctx.close('invertible: a->b->a = identity', back, x, sig, case, rtol=1e-12, atol=0.0,
                  scale=sc or 1.0)
        if temp:
            ctx.tag('algebra:affine')
            ctx.close('temperature conversion = textbook affine map', y, U.temp_ref(x, a, b), sig, case,
                      rtol=1e-12, scale=abs(y) + 500.0)
        else:
            ctx.tag('algebra:proportional')
            f = _c().convert_unit(initial=a, final=b)
            ctx.evals()
            ctx.close('proportional: convert(x) = x * factor', y, x * f, sig, case, rtol=1e-12,
                      scale=abs(x * f) or 1.0)
    if temp:
        # affine: second differences vanish on the (unequally spaced) argument list
        ys = [_conv(ctx, x, a, b) for x in TEMPS]
        slope = (ys[-1] - ys[0]) / (TEMPS[-1] - TEMPS[0])
        ctx.close('temperature conversion is affine (one slope)', [ys[0] + slope * (x - TEMPS[0]) for x in TEMPS],
                  ys, sig, case, rtol=1e-12, scale=2000.0)
    else:
        fab = _c().convert_unit(initial=a, final=b)
        fba = _c().convert_unit(initial=b, final=a)
        ctx.evals(2)
        ctx.true('factor(a->b) * factor(b->a) = 1', abs(fab * fba - 1.0) <= 1e-12, sig, case, fab * fba, 1.0)
    ctx.tag('algebra:array')
    arr = np.array(xs)
    ya = _c().convert_unit(arr, a, b)
    ctx.evals()
    ctx.close('array argument = element by element', ya, [_c().convert_unit(x, a, b) for x in xs], sig, case,
              rtol=1e-13, scale=np.abs(np.asarray(ya, dtype=float)) + (500.0 if temp else 1e-300))


def _k_triple(case, ctx):
    t, a, b, cc = case['type'], case['a'], case['b'], case['c']
    sig = dict(group='algebra', type=t, initial=a, via=b, final=cc)
    temp = t == 'temp'
    ctx.tag('algebra:transitive')
    for x in (TEMPS if temp else VALUES[:3]):
        direct = _conv(ctx, x, a, cc)
        two = _conv(ctx, _conv(ctx, x, a, b), b, cc)
        ctx.close('transitive: a->b->c = a->c', two, direct, sig, case, rtol=1e-12,
                  scale=abs(direct) + (500.0 if temp else 0.0) or 1.0)


def _k_cross(case, ctx):
    a, b = case['a'], case['b']
    sig = dict(group='refusal', initial_type=ref_type(a), final_type=ref_type(b))
    ctx.tag('refused:cross-type')
    for num in (None, 1.0):
        ctx.evals()
        try:
            r = _c().convert_unit(num, a, b)
        except ValueError:
            r = 'ValueError'
        ctx.true('conversion between different quantity types raises ValueError', r == 'ValueError', sig, case,
                 r, 'ValueError')


def _k_unknown(case, ctx):
    u, other, side = case['unit'], case['other'], case['side']
    sig = dict(group='refusal', unknown=repr(u), side=side)
    ctx.tag('refused:unknown')
    ctx.evals()
    try:
        r = _c().convert_unit(1.0, u, other) if side == 'initial' else _c().convert_unit(1.0, other, u)
    except ValueError:
        r = 'ValueError'
    ctx.true('unknown unit raises ValueError', r == 'ValueError', sig, case, r, 'ValueError')


def _k_definition(case, ctx):
    u = case['unit']
    t = ref_type(u)
    base, d = U.SI[t]
    ref, cls = d[u]
    sig = dict(group='definition', unit=u)
    ctx.tag('definition:' + cls)
    obs = _conv(ctx, 1.0, u, base)
    ctx.close('one unit expressed in the SI base unit = its definition', obs, ref, sig, case,
              rtol=unit_tol(u), scale=abs(ref))


def _k_derived(case, ctx):
    rel, u = case['relation'], case['unit']
    sig = dict(group='derived', unit=u, relation=rel)
    ctx.tag('derived:' + ('named-volume' if rel == 'named-volume' else rel))
    if rel in ('length^2', 'length^3', 'named-volume'):
        if rel == 'named-volume':
            lu, p, mult = U.NAMED_VOLUMES[u]
        else:
            lu, p = U.POWERS[u]
            mult = 1.0
        # one u = mult * (one lu)^p ; factor = units per base
        obs = factor(u, ctx)
        exp = factor(lu, ctx) ** p / mult
        tol = max(unit_tol(u), p * unit_tol(lu))
        ctx.close('area / volume factor = power of the length factor', obs, exp, sig, case, rtol=tol)
    elif rel == 'prefix':
        of, ratio = case['of'], case['ratio']
        obs = _conv(ctx, 1.0, u, of)
        ctx.close('multiple of a unit = its defined ratio', obs, ratio, sig, case,
                  rtol=max(unit_tol(u), unit_tol(of)))
    elif rel == 'alias':
        of = case['of']
        obs = _conv(ctx, 1.0, u, of)
        ctx.true('two names of one unit convert 1:1', abs(obs - 1.0) <= 1e-12, sig, case, obs, 1.0)
    elif rel == 'energy/amount':
        e, n = U.PER_AMOUNT[u]
        obs = factor(u, ctx)
        exp = factor(e, ctx) / factor(n, ctx)
        ctx.close('energy/amount factor = energy factor / amount factor', obs, exp, sig, case,
                  rtol=max(unit_tol(u), unit_tol(e), unit_tol(n)))
    elif rel == 'volume*pressure':
        v, p = U.COMPOSITE[u]
        obs = factor(u, ctx)
        exp = factor(v, ctx) * factor(p, ctx)        # 1 J = 1 m3 Pa
        ctx.close('composite energy factor = volume factor * pressure factor', obs, exp, sig, case,
                  rtol=max(unit_tol(u), unit_tol(v), unit_tol(p)))
    else:
        raise ValueError(rel)


# ------------------------------------------------------------------ argument forms and call histories
_FORM_TAG = {'float-ascending': 'arg:array-float', 'float-descending': 'arg:array-unsorted',
             'float-unsorted-repeated': 'arg:array-unsorted', 'int64': 'arg:array-int',
             'int32-descending': 'arg:array-int', '2d': 'arg:array-2d', '0d': 'arg:array-0d',
             'len1': 'arg:array-float', 'empty': 'arg:array-empty', 'view': 'arg:array-view',
             'readonly': 'arg:array-readonly'}
SENTINEL = 9.0e9


def build_array(form, fl, ints):
    """(array argument, the array that owns its memory or None) for one of ARRAY_FORMS; fl = five floats,
    ints = five ints, both in a fixed (unsorted) order."""
    base = None
    if form == 'float-ascending':
        arr = np.array(sorted(fl), dtype=float)
    elif form == 'float-descending':
        arr = np.array(sorted(fl, reverse=True), dtype=float)
    elif form == 'float-unsorted-repeated':
        arr = np.array([fl[2], fl[0], fl[2], fl[4], fl[1], fl[0]], dtype=float)
    elif form == 'int64':
        arr = np.array(ints, dtype=np.int64)
    elif form == 'int32-descending':
        arr = np.array(sorted(ints, reverse=True), dtype=np.int32)
    elif form == '2d':
        arr = np.array(fl[:4], dtype=float).reshape(2, 2)
    elif form == '0d':
        arr = np.array(fl[3], dtype=float)
    elif form == 'len1':
        arr = np.array([fl[2]], dtype=float)
    elif form == 'empty':
        arr = np.array([], dtype=float)
    elif form == 'view':
        base = np.full(2 * len(fl), SENTINEL)
        base[::2] = fl
        arr = base[::2]
    elif form == 'readonly':
        arr = np.array(fl, dtype=float)
        arr.setflags(write=False)
    else:
        raise ValueError(form)
    return arr, base


def _map(ref, nested):
    if isinstance(nested, list):
        return [_map(ref, v) for v in nested]
    return ref(float(nested))


def _same(arr, keep):
    return arr.dtype == keep.dtype and arr.shape == keep.shape and bool(np.array_equal(arr, keep))


def array_history(ctx, call, ref, form, fl, ints, sig, case, rtol, offset=0.0, aliasing_allowed=False):
    """One array argument, four calls: call; call again; overwrite the returned array and call again; edit the
    argument in place and call again.  Every answer is compared with ref() applied element by element to
    Python floats taken from a private copy; the argument (and the array owning its memory) must keep its
    content, dtype and shape."""
    ctx.tag(_FORM_TAG[form])
    arr, base = build_array(form, fl, ints)
    keep = arr.copy()
    keep_base = None if base is None else base.copy()

    def expect(k):
        e = _map(ref, k.tolist())
        return e, np.abs(np.asarray(e, dtype=float)) + (offset or 0.0)

    def unchanged():
        return _same(arr, keep) and (base is None or _same(base, keep_base))

    def answer(clause, y):
        e, sc = expect(keep)
        ok = ctx.true('array result has the shape of the argument', np.shape(y) == keep.shape, sig, case,
                      list(np.shape(y)), list(keep.shape))
        if ok and keep.size:
            ctx.close(clause, y, e, sig, case, rtol=rtol, scale=sc if offset else None)

    ctx.evals(4)
    ctx.trans(4)
    y1 = call(arr)
    answer('array argument = element by element', y1)
    ctx.tag('history:unchanged')
    ctx.true('array argument is left unchanged by the call', unchanged(), sig, case,
             dict(argument=arr.tolist(), owner=None if base is None else base.tolist()),
             dict(argument=keep.tolist(), owner=None if base is None else keep_base.tolist()))
    ctx.tag('history:second-call')
    y2 = call(arr)
    answer('repeated call with the same array = element by element', y2)
    if not aliasing_allowed:
        ctx.true('returned array shares no memory with the argument',
                 not (isinstance(y2, np.ndarray) and np.shares_memory(y2, arr if base is None else base)),
                 sig, case, 'shares memory', 'fresh array')
        for y in (y1, y2):
            if isinstance(y, np.ndarray) and y.ndim and y.size and y.flags.writeable:
                y[...] = -SENTINEL
        ctx.tag('history:result-overwritten')
        ctx.true('overwriting the returned arrays leaves the argument alone', unchanged(), sig, case,
                 arr.tolist(), keep.tolist())
        answer('call after the returned arrays were overwritten = element by element', call(arr))
    # restore (only matters after a failure above), then edit the caller's array in place
    if arr.flags.writeable:
        arr[...] = keep
        new = (keep.ravel()[::-1] * 3).reshape(keep.shape)
        arr[...] = new
        keep = arr.copy()
        if base is not None:
            keep_base = base.copy()
        ctx.tag('history:edited-in-place')
        answer('array edited in place between two calls: answer for its new content', call(arr))
        ctx.true('array argument is left unchanged by the call', unchanged(), sig, case, arr.tolist(),
                 keep.tolist())


def scalar_forms(form, fl, ints):
    """[(argument, float it stands for)] for one of SCALAR_FORMS."""
    if form == 'py-int':
        return [(int(i), float(i)) for i in ints]
    if form == 'np.int64':
        return [(np.int64(i), float(i)) for i in ints]
    if form == 'np.float64':
        return [(np.float64(x), float(x)) for x in fl]
    raise ValueError(form)


def _k_pair_arg(case, ctx):
    """One ordered pair of one type called with one argument form."""
    t, a, b, form = case['type'], case['a'], case['b'], case['form']
    sig = dict(group='algebra', type=t, initial=a, final=b, arg=form)
    temp = t == 'temp'
    fl, ints = (TEMPS, INT_TEMPS) if temp else (VALUES, INTS)
    off = 500.0 if temp else 0.0
    conv = _c().convert_unit

    def ref(x):
        # temperatures: textbook affine map; otherwise the scalar float route through the same table (which
        # the definition / proportional clauses tie to the SI definitions)
        return U.temp_ref(x, a, b) if temp else conv(x, a, b)

    if form in SCALAR_FORMS:
        ctx.tag('arg:py-int' if form == 'py-int' else 'arg:np-scalar')
        for arg, x in scalar_forms(form, fl, ints):
            ctx.evals(2)
            ctx.trans()
            e = ref(x)
            ctx.close('integer-typed / numpy scalar argument = answer for the equal Python float',
                      conv(arg, a, b), e, sig, case, rtol=1e-12 if temp else 1e-13, scale=(abs(e) + off) or 1.0)
    elif form == 'none':
        ctx.tag('arg:none')
        ctx.evals(3)
        e = U.temp_ref(0.0, a, b) if temp else conv(1.0, a, b)
        ctx.close('num=None given explicitly = num omitted = conversion of 1 (of 0 for temperatures)',
                  [conv(None, a, b), conv(initial=a, final=b), conv(num=None, initial=a, final=b)], [e, e, e],
                  sig, case, rtol=1e-12 if temp else 1e-15, scale=(abs(e) + off) or 1.0)
    else:
        array_history(ctx, lambda arr: conv(arr, a, b), ref, form, fl, ints, sig, case,
                      rtol=1e-12 if temp else 1e-13, offset=off, aliasing_allowed=(a == b))


# ------------------------------------------------------------------ constant tables
def table_keys(name):
    """Keys of a constant table: the dict literal in the accessor (if any) + its docstring table."""
    c = _c()
    fn = getattr(c, name)
    keys = []
    lit = U.dict_literals(fn, name + '_dict') if name in ('R', 'h', 'kb', 'c') else None
    if name in ('R', 'h', 'kb', 'c') and lit:
        keys += list(lit)
    for row in doc_rows(name):
        if row[0] not in keys:
            keys.append(row[0])
    return keys


def doc_rows(name):
    for tab in U.doc_tables(getattr(_c(), name).__doc__):
        return [r for r in tab if len(r) >= 3]
    return []


def _energy_routes(e):
    """[(route, factor per J, tolerance)] for the energy part of a composite key."""
    out = []
    parts = e.split(' ')
    if len(parts) == 2 and ref_type(parts[0]) == 'volume' and ref_type(parts[1]) == 'pressure':
        out.append(('volume*pressure', factor(parts[0]) * factor(parts[1]),
                    max(unit_tol(parts[0]), unit_tol(parts[1]))))
    if ref_type(e) == 'energy' and _accepted(e):
        out.append(('energy', factor(e), unit_tol(e)))
    return out


def _k_table(case, ctx):
    c = _c()
    name, key = case['table'], case['key']
    sig = dict(group='table', table=name, key=key)
    fn = getattr(c, name)
    ctx.evals()
    try:
        val = fn(key)
    except (KeyError, ValueError) as e:
        ctx.fail('every key of the constant table is accepted', sig, case, type(e).__name__, 'a value')
        return
    ctx.true('every key of the constant table is accepted', True, sig, case)
    vtol = U.repr_ulp(val) if name in ('R', 'h', 'kb', 'c') else 0.0
    routes = []
    if name == 'R':
        ctx.tag('table:R')
        si = c.R('J/mol/K')
        parts = key.split('/')
        if len(parts) == 3 and parts[1:] == ['mol', 'K']:
            for r, f, tol in _energy_routes(parts[0]):
                routes.append((r, si * f, tol))
        elif len(parts) == 2 and parts[1] == 'K' and ref_type(parts[0]) == 'energy':     # per molecule
            f, tol = factor(parts[0]), unit_tol(parts[0])
            routes.append(('per-molecule', si * f / factor('molecule'), max(tol, unit_tol('molecule'))))
            pm = parts[0] + '/molecule'
            routes.append(('per-molecule', si * factor(pm), unit_tol(pm)))
        sitol = U.repr_ulp(si)
    elif name == 'kb':
        ctx.tag('table:kb')
        si = c.kb('J/K')
        e, k = key.split('/')
        for r, f, tol in _energy_routes(e):
            routes.append((r, si * f, tol))
        sitol = U.repr_ulp(si)
    elif name == 'h':
        ctx.tag('table:h')
        si = c.h('J s')
        e, s = key.split(' ')
        for r, f, tol in _energy_routes(e):
            routes.append((r, si * f, tol))
        sitol = U.repr_ulp(si)
    elif name == 'c':
        ctx.tag('table:c')
        si = c.c('m/s')
        ctx.close('speed of light = 299792458 m/s (defined)', si, 299792458.0, sig, case, rtol=1e-15)
        lu, s = key.split('/')
        routes.append(('length', si * factor(lu), unit_tol(lu)))
        sitol = 0.0
    elif name in ('m_e', 'm_p'):
        ctx.tag('table:' + name)
        si = fn('kg')
        ref = 9.1093837015e-31 if name == 'm_e' else 1.67262192369e-27
        ctx.close('particle mass in kg = CODATA value', si, ref, sig, case, rtol=unit_tol('amu'))
        routes.append(('mass', si * factor(key), unit_tol(key)))
        sitol = 0.0
    elif name == 'P0':
        ctx.tag('table:P0')
        si = fn('Pa')
        ctx.close('P0 = 1 bar = 1e5 Pa', [si, fn('bar')], [1e5, 1.0], sig, case, rtol=1e-12)
        routes.append(('pressure', 1e5 * factor(key), unit_tol(key)))
        sitol = 0.0
    elif name == 'T0':
        ctx.tag('table:T0')
        si = fn('K')
        ctx.close('T0 = 298.15 K', si, 298.15, sig, case, rtol=1e-15)
        routes.append(('temperature', U.temp_ref(298.15, 'K', key), 1e-12))
        routes.append(('temperature', c.convert_unit(298.15, 'K', key), 1e-12))
        sitol = 0.0
    elif name == 'V0':
        ctx.tag('table:V0')
        si = c.R('J/mol/K') * 298.15 / 1e5                      # molar volume of an ideal gas at T0, P0
        routes.append(('volume', si * factor(key), unit_tol(key)))
        sitol = 0.0
    else:
        raise ValueError(name)
    ctx.true('key of the constant table can be decomposed into units of the conversion table', bool(routes),
             sig, case, key, 'volume pressure | energy')
    for r, exp, tol in routes:
        if r in ('volume*pressure', 'energy', 'per-molecule'):
            ctx.tag('route:' + r)
        s2 = dict(sig, route=r)
        ctx.close('tabulated constant = SI value converted through the unit table', val, exp, s2, case,
                  rtol=max(vtol, sitol, tol, 1e-12))
    if name == 'h':
        ctx.tag('table:h-bar')
        ctx.evals()
        ctx.close('h(bar=True) = h / 2 pi', c.h(key, bar=True), val / (2.0 * math.pi), sig, case, rtol=1e-14)
        ctx.close('h(bar=False) = h', c.h(key, bar=False), val, sig, case, rtol=1e-15)


RKB = [('J/mol/K', 'J/K', True), ('kJ/mol/K', 'kJ/K', True), ('cal/mol/K', 'cal/K', True),
       ('kcal/mol/K', 'kcal/K', True), ('eV/K', 'eV/K', False), ('Eh/K', 'Eh/K', False), ('Ha/K', 'Ha/K', False)]


def _k_rkb(case, ctx):
    c = _c()
    rk, kk, mol = case['R'], case['kb'], case['mol']
    sig = dict(group='table', table='R=kb*Na', key=rk)
    ctx.tag('table:R=kb*Na')
    r, k = c.R(rk), c.kb(kk)
    ctx.evals(2)
    exp = k * c.Na if mol else k
    tol = max(U.repr_ulp(r), U.repr_ulp(k), U.repr_ulp(c.Na) if mol else 0.0)
    ctx.close('R = kB * NA in every common unit', r, exp, sig, case, rtol=tol)
    if rk == 'J/mol/K':
        ctx.close('SI anchors within the CODATA 2010-2018 spread', [r, k, c.Na, c.h('J s'), c.e],
                  [8.314462618, 1.380649e-23, U.N_A, 6.62607015e-34, U.E_CHARGE], sig, case, rtol=1e-6)


def _k_doc(case, ctx):
    """One row of a documented value table."""
    c = _c()
    name, key, text = case['table'], case['key'], case['value']
    sig = dict(group='docstring', table=name, key=key)
    ctx.tag('doc:row')
    ctx.evals()
    try:
        val = getattr(c, name)(key)
    except (KeyError, ValueError) as e:
        ctx.fail('documented key of the constant table is accepted', sig, case, '%s(%r) raises %s' % (
            name, key, type(e).__name__), 'a value')
        return
    ctx.true('documented key of the constant table is accepted', True, sig, case)
    doc = float(text)
    rel = 0.0
    if name in ('m_e', 'm_p'):
        rel = max(unit_tol('amu'), unit_tol(key))
    elif name in ('P0', 'V0'):
        rel = unit_tol(key)
    ctx.close('documented value = returned value to the printed precision', val, doc, sig, case,
              rtol=max(rel, 1e-12), atol=U.printed_half_ulp(text), scale=abs(doc))


# ------------------------------------------------------------------ spectroscopic helpers
NODES = ['energy', 'freq', 'temp', 'wavenumber']


def _node_values(w):
    """Textbook values of the four quantities that correspond to wavenumber w (library constants)."""
    c = _c()
    h, kb, cc = c.h('J s'), c.kb('J/K'), c.c('cm/s')
    return dict(wavenumber=w, freq=cc * w, energy=h * cc * w, temp=h * cc * w / kb)


def _k_helper(case, ctx):
    c = _c()
    w = case['w']
    vals = _node_values(w)
    a, b = case['a'], case['b']
    f_ab = getattr(c, '%s_to_%s' % (a, b))
    f_ba = getattr(c, '%s_to_%s' % (b, a))
    sig = dict(group='helper', fn='%s_to_%s' % (a, b))
    if w <= 0:
        ctx.tag('helper:negative' if w < 0 else 'helper:zero')
    ctx.tag('helper:textbook')
    y = f_ab(vals[a])
    ctx.evals()
    ctx.close('helper = textbook relation (E = h nu = kB T = h c w)', y, vals[b], sig, case, rtol=1e-12)
    ctx.tag('helper:inverse')
    ctx.evals()
    ctx.close('helpers are pairwise inverse', f_ba(y), vals[a], dict(sig, inverse='%s_to_%s' % (b, a)), case,
              rtol=1e-12)
    for z in NODES:
        if z in (a, b):
            continue
        ctx.tag('helper:path')
        f_bz = getattr(c, '%s_to_%s' % (b, z))
        f_az = getattr(c, '%s_to_%s' % (a, z))
        ctx.evals(2)
        ctx.close('helper paths commute: a->b->c = a->c', f_bz(y), f_az(vals[a]),
                  dict(sig, then='%s_to_%s' % (b, z)), case, rtol=1e-12)


def _k_helper_array(case, ctx):
    c = _c()
    name = case['fn']
    src = name.split('_to_')[0]
    sig = dict(group='helper', fn=name, arg='array')
    ctx.tag('helper:array')
    if src == 'inertia':
        xs = [c.h('J s') / (8.0 * math.pi ** 2 * w * c.c('cm/s')) for w in WAVENUMBERS]
    else:
        xs = [_node_values(w)[src] for w in WAVENUMBERS]
    fn = getattr(c, name)
    ctx.evals(1 + len(xs))
    ctx.close('array argument = element by element', fn(np.array(xs)), [fn(x) for x in xs], sig, case,
              rtol=1e-14)


def _k_inertia(case, ctx):
    c = _c()
    w = case['w']
    ctx.tag('helper:inertia')
    if w < 0:
        ctx.tag('helper:negative')
    h, kb, cc = c.h('J s'), c.kb('J/K'), c.c('cm/s')
    sig = dict(group='helper', fn='wavenumber_to_inertia')
    inertia = c.wavenumber_to_inertia(w)
    ctx.evals(3)
    ctx.close('I = h / (8 pi^2 c B)', inertia, h / (8.0 * math.pi ** 2 * cc * w), sig, case, rtol=1e-12)
    # inertia_to_temp goes through the eV entries of h and kb and the eV factor: the rounding of those
    # three tabulated numbers is what may separate it from the SI expression
    tol = max(U.repr_ulp(c.kb('eV/K')), U.repr_ulp(c.h('eV s')), U.repr_ulp(kb), U.repr_ulp(h), unit_tol('eV'))
    sig = dict(group='helper', fn='inertia_to_temp')
    theta = c.inertia_to_temp(inertia)
    ctx.close('theta_rot = hbar^2 / (2 I kB)', theta, (h / 2.0 / math.pi) ** 2 / (2.0 * inertia * kb), sig, case,
              rtol=tol)
    ctx.close('helper paths commute: wavenumber->inertia->temp = wavenumber->temp', theta,
              c.wavenumber_to_temp(w), dict(sig, after='wavenumber_to_inertia'), case, rtol=tol)
    ctx.close('helpers are pairwise inverse', c.temp_to_wavenumber(theta), w,
              dict(sig, inverse='wavenumber_to_inertia'), case, rtol=tol)


def _k_debye(case, ctx):
    c = _c()
    x = case['x']
    ctx.tag('helper:debye')
    if x <= 0:
        ctx.tag('helper:negative' if x < 0 else 'helper:zero')
    sig = dict(group='helper', fn='debye_to_einstein')
    e = c.debye_to_einstein(x)
    ctx.evals(4)
    ctx.close('theta_E = (pi/6)^(1/3) theta_D', e, (math.pi / 6.0) ** (1.0 / 3.0) * x, sig, case, rtol=1e-14)
    ctx.close('helpers are pairwise inverse', c.einstein_to_debye(e), x,
              dict(sig, inverse='einstein_to_debye'), case, rtol=1e-14)
    sig = dict(group='helper', fn='einstein_to_debye')
    d = c.einstein_to_debye(x)
    ctx.close('theta_D = theta_E / (pi/6)^(1/3)', d, x / (math.pi / 6.0) ** (1.0 / 3.0), sig, case, rtol=1e-14)
    ctx.close('helpers are pairwise inverse', c.debye_to_einstein(d), x,
              dict(sig, inverse='debye_to_einstein'), case, rtol=1e-14)


def helper_ref(name):
    """(textbook function of one float, degree of homogeneity, relative tolerance) of a helper."""
    c = _c()
    h, kb, cc = c.h('J s'), c.kb('J/K'), c.c('cm/s')
    if name == 'wavenumber_to_inertia':
        return (lambda x: h / (8.0 * math.pi ** 2 * cc * x)), -1, 1e-12
    if name == 'inertia_to_temp':
        # goes through the eV entries of h and kb and the eV factor (see _k_inertia)
        tol = max(U.repr_ulp(c.kb('eV/K')), U.repr_ulp(c.h('eV s')), U.repr_ulp(kb), U.repr_ulp(h), unit_tol('eV'))
        return (lambda x: (h / 2.0 / math.pi) ** 2 / (2.0 * x * kb)), -1, tol
    if name == 'debye_to_einstein':
        return (lambda x: (math.pi / 6.0) ** (1.0 / 3.0) * x), 1, 1e-14
    if name == 'einstein_to_debye':
        return (lambda x: x / (math.pi / 6.0) ** (1.0 / 3.0)), 1, 1e-14
    a, b = name.split('_to_')
    k = _node_values(1.0)                          # E = h nu = kB T = h c w, per unit wavenumber
    return (lambda x: x / k[a] * k[b]), 1, 1e-12


def helper_arguments(name):
    """Five floats (both signs; zero where the helper is defined at zero) and five ints for a helper."""
    c = _c()
    src = name.split('_to_')[0]
    w5 = WAVENUMBERS + [215.0]
    signs = [1.0, -1.0, 1.0, -1.0, 1.0]
    if name in ('wavenumber_to_inertia', 'inertia_to_temp'):
        if src == 'inertia':
            mags = [c.h('J s') / (8.0 * math.pi ** 2 * w * c.c('cm/s')) for w in w5]
        else:
            mags = w5
        return [s * m for s, m in zip(signs, mags)], [1, -2, -3, 370000, 25]
    if src in ('debye', 'einstein'):
        return [10.0, -175.0, 215.0, -1000.0, 0.0], INTS
    k = _node_values(1.0)[src]
    return [s * k * w for s, w in zip(signs, WAVENUMBERS)] + [0.0], INTS


def _k_helper_arg(case, ctx):
    """One helper called with one argument form."""
    name, form = case['fn'], case['form']
    fn = getattr(_c(), name)
    ref, degree, tol = helper_ref(name)
    fl, ints = helper_arguments(name)
    sig = dict(group='helper', fn=name, arg=form)
    if form in SCALAR_FORMS:
        ctx.tag('arg:py-int' if form == 'py-int' else 'arg:np-scalar')
        for arg, x in scalar_forms(form, fl, ints):
            ctx.evals()
            ctx.close('integer-typed / numpy scalar argument = answer for the equal Python float', fn(arg), ref(x),
                      sig, case, rtol=tol)
    elif form == 'scaled':
        ctx.tag('helper:homogeneous')
        for x in fl:
            for k in (-1.0, 3.0):
                if x == 0.0:
                    continue
                ctx.evals(2)
                ctx.close('helper is homogeneous (odd): f(k x) = k^degree f(x), k in {-1, 3}', fn(k * x),
                          k ** degree * fn(x), sig, case, rtol=1e-13)
    else:
        array_history(ctx, fn, ref, form, fl, ints, sig, case, rtol=tol)


# ------------------------------------------------------------------ element tables
def _k_element(case, ctx):
    c = _c()
    name, z = case['table'], case['Z']
    table = getattr(c, name)
    sig = dict(group='elements', table=name, Z=z)
    syms = U.symbols_of(z)
    present = [s for s in syms if s in table]
    ctx.evals(1 + len(syms))
    ok = ctx.true('element is filed under its atomic number iff it is filed under its symbol',
                  (z in table) == bool(present), sig, case, dict(number=z in table, symbols=present))
    if not ok:
        return
    if not present:
        ctx.tag('elements:neither')
        return
    ctx.tag('elements:both')
    if any(s in U.LEGACY.values() for s in present):
        ctx.tag('elements:legacy-symbol')
    for s in present:
        ctx.close('same value by symbol and by atomic number', table[s], table[z], dict(sig, symbol=s), case,
                  rtol=1e-15)
    if name == 'atomic_weight':
        from ase.data import atomic_masses
        ctx.close('atomic weight is that of the element with this atomic number (IUPAC, via ASE)', table[z],
                  float(atomic_masses[z]), sig, case, rtol=AW_RTOL_HEAVY if z > 92 else AW_RTOL)


AW_RTOL = 2e-3          # pMuTT stores the lower end of IUPAC intervals (Li 6.938 vs 6.94: 3e-4)
AW_RTOL_HEAVY = 3e-2    # mass number of the longest-lived isotope known at the time (Z > 92)


def _k_element_keys(case, ctx):
    c = _c()
    name = case['table']
    sig = dict(group='elements', table=name, Z='keys')
    table = getattr(c, name)
    bad = [k for k in table if not ((isinstance(k, int) and 1 <= k <= 118) or
                                    (isinstance(k, str) and U.z_of(k) is not None))]
    ctx.true('every key is an atomic number or an element symbol', not bad, sig, case, bad, [])
    ctx.outcome('every key is an atomic number or an element symbol', len(table))


# ------------------------------------------------------------------ molar mass
def _weight_other_key(key):
    """Atomic weight of `key` looked up under the *other* kind of key."""
    aw = _c().atomic_weight
    if isinstance(key, str):
        z = U.z_of(key)
        if z not in aw:
            raise _TableGap('atomic_weight has %r but not atomic number %r' % (key, z))
        return aw[z]
    for s in U.symbols_of(key):
        if s in aw:
            return aw[s]
    raise _TableGap('atomic_weight has atomic number %r but none of the symbols %r' % (key, U.symbols_of(key)))




def _k_mw_dict(case, ctx):
    import pmutt
    comp = {}
    forms = set()
    for k, n in case['items']:
        comp[k] = n
        forms.add('number' if isinstance(k, int) else 'symbol')
    ctx.tag('mw:dict-' + ('mixed' if len(forms) == 2 else forms.pop()))
    sig = dict(group='molar mass', form='dict', keys='+'.join(sorted(type(k).__name__ for k in comp)))
    before = dict(comp)
    ctx.evals()
    obs = pmutt.get_molecular_weight(comp)
    terms = [n * _weight_other_key(k) for k, n in comp.items()]
    ctx.close('molar mass = sum of count * atomic weight', obs, math.fsum(terms), sig, case, rtol=1e-13,
              scale=sum(abs(t) for t in terms) + 1.0)
    ctx.true('composition dictionary is left unchanged', comp == before, sig, case, comp, before)
    # the same dictionary again, then the same dictionary object with edited counts
    ctx.tag('mw:repeat')
    ctx.evals(2)
    ctx.close('repeated call with the same composition = sum of count * atomic weight',
              pmutt.get_molecular_weight(comp), math.fsum(terms), sig, case, rtol=1e-13,
              scale=sum(abs(t) for t in terms) + 1.0)
    ctx.tag('mw:dict-edited')
    for i, k in enumerate(list(comp)):
        comp[k] = 2 * comp[k] + 1 + i
    edited = dict(comp)
    terms = [n * _weight_other_key(k) for k, n in comp.items()]
    ctx.close('composition edited in place between two calls: molar mass of its new content',
              pmutt.get_molecular_weight(comp), math.fsum(terms), sig, case, rtol=1e-13,
              scale=sum(abs(t) for t in terms) + 1.0)
    ctx.true('composition dictionary is left unchanged', comp == edited, sig, case, comp, edited)


def _k_mw_formula(case, ctx):
    import pmutt
    tokens = case['tokens']
    formula = ''.join(e + n for e, n in tokens)
    comp = {}
    for e, n in tokens:
        comp[e] = comp.get(e, 0) + (int(n) if n else 1)
    ctx.tag('mw:formula')
    if len(comp) < len(tokens):
        ctx.tag('mw:formula-repeat')
    sig = dict(group='molar mass', form='formula', tokens=len(tokens))
    ctx.evals()
    obs = pmutt.get_molecular_weight(formula)
    terms = [n * _weight_other_key(k) for k, n in comp.items()]
    ctx.close('molar mass = sum of count * atomic weight', obs, math.fsum(terms), sig, case, rtol=1e-13,
              scale=sum(abs(t) for t in terms) + 1.0)
    ctx.evals()
    ctx.close('repeated call with the same composition = sum of count * atomic weight',
              pmutt.get_molecular_weight(formula), math.fsum(terms), sig, case, rtol=1e-13,
              scale=sum(abs(t) for t in terms) + 1.0)


_KINDS = {'pair-arg': _k_pair_arg, 'helper-arg': _k_helper_arg, 'member': _k_member, 'pair': _k_pair, 'triple': _k_triple, 'cross': _k_cross, 'unknown': _k_unknown,
          'definition': _k_definition, 'derived': _k_derived, 'table': _k_table, 'rkb': _k_rkb, 'doc': _k_doc,
          'helper': _k_helper, 'helper-array': _k_helper_array, 'inertia': _k_inertia, 'debye': _k_debye,
          'element': _k_element, 'element-keys': _k_element_keys, 'mw-dict': _k_mw_dict,
          'mw-formula': _k_mw_formula}


# ------------------------------------------------------------------ exploration
def _run(ctx, case, nontrivial=True):
    ctx.state(case)
    if nontrivial:
        ctx.nontrivial(case)
    ctx.sample(case, limit=1)
    ctx.run_case(check_case, case, dict(group=case['kind']))


def _derived_cases():
    out = []
    for u, (lu, p) in U.POWERS.items():
        out.append(dict(kind='derived', relation='length^%d' % p, unit=u))
    for u in U.NAMED_VOLUMES:
        out.append(dict(kind='derived', relation='named-volume', unit=u))
    for u, of, ratio in U.PREFIXED:
        out.append(dict(kind='derived', relation='prefix', unit=u, of=of, ratio=ratio))
    for u, of in U.ALIASES:
        out.append(dict(kind='derived', relation='alias', unit=u, of=of))
    for u in U.PER_AMOUNT:
        out.append(dict(kind='derived', relation='energy/amount', unit=u))
    for u in U.COMPOSITE:
        out.append(dict(kind='derived', relation='volume*pressure', unit=u))
    return out


def run_shard(shard, ctx):
    c = _c()
    kind = shard['kind']
    if kind == 'algebra':
        t = shard['type']
        units = units_of(t)
        # units the library files under t but the reference does not know
        for u in c.type_dict:
            if c.type_dict[u] == t and ref_type(u) != t:
                ctx.fail('unit is filed under its quantity type', dict(group='membership', unit=u),
                         dict(kind='member', unit=u, type=ref_type(u)), t, ref_type(u))
        ok = []
        for u in units:
            _run(ctx, dict(kind='member', unit=u, type=t))
            if _accepted(u) and c.type_dict.get(u) == t:
                ok.append(u)
        for u in ok:
            if t != 'temp':
                _run(ctx, dict(kind='definition', unit=u))
        for a, b in itertools.product(ok, repeat=2):
            _run(ctx, dict(kind='pair', type=t, a=a, b=b), nontrivial=(a != b))
        for a, b, cc in itertools.product(ok, repeat=3):
            _run(ctx, dict(kind='triple', type=t, a=a, b=b, c=cc), nontrivial=len({a, b, cc}) == 3)
    elif kind == 'cross':
        units = list(c.type_dict)
        for i, a in enumerate(units):
            if i % 4 != shard['part']:
                continue
            for b in units:
                if c.type_dict[a] != c.type_dict[b]:
                    _run(ctx, dict(kind='cross', a=a, b=b))
    elif kind == 'unknown':
        firsts = [units_of(t)[0] for t in U.TYPES]
        for u in UNKNOWN:
            for other in firsts:
                for side in ('initial', 'final'):
                    _run(ctx, dict(kind='unknown', unit=u, other=other, side=side))
            _run(ctx, dict(kind='unknown', unit=u, other=u, side='initial'))
    elif kind == 'derived':
        for case in _derived_cases():
            units = [case['unit']] + ([case['of']] if 'of' in case else [])
            if all(_accepted(u) for u in units):
                _run(ctx, case)
            else:
                ctx.refuse('derived relation involves a unit convert_unit refuses (reported by the membership '
                           'clause): %s' % '/'.join(units))
    elif kind == 'table':
        tab = shard['table']
        if tab == 'R=kb*Na':
            for rk, kk, mol in RKB:
                _run(ctx, dict(kind='rkb', R=rk, kb=kk, mol=mol))
        elif tab.startswith('doc:'):
            for name in tab[4:].split('+'):
                for row in doc_rows(name):
                    _run(ctx, dict(kind='doc', table=name, key=row[0], value=row[-1]))
        else:
            for name in tab.split('+'):
                keys = table_keys(name)
                extra = {'m_e': 'mass', 'm_p': 'mass', 'P0': 'pressure', 'T0': 'temp', 'V0': 'volume'}.get(name)
                if extra:
                    keys = [u for u in c.type_dict if c.type_dict[u] == extra]
                for key in keys:
                    _run(ctx, dict(kind='table', table=name, key=key))
    elif kind == 'helpers':
        for w in HELPER_W:
            for a, b in itertools.permutations(NODES, 2):
                _run(ctx, dict(kind='helper', a=a, b=b, w=w))
            if w:                                   # a rotational constant of 0 has no moment of inertia
                _run(ctx, dict(kind='inertia', w=w))
        names = ['%s_to_%s' % p for p in itertools.permutations(NODES, 2)]
        for name in names + ['wavenumber_to_inertia', 'inertia_to_temp']:
            _run(ctx, dict(kind='helper-array', fn=name))
    elif kind == 'debye':
        for x in DEBYE_X:
            _run(ctx, dict(kind='debye', x=x))
    elif kind == 'algebra-args':
        t = shard['type']
        ok = [u for u in units_of(t) if _accepted(u) and c.type_dict.get(u) == t]
        for a, b in itertools.product(ok, repeat=2):
            for form in PAIR_FORMS:
                _run(ctx, dict(kind='pair-arg', type=t, a=a, b=b, form=form))
    elif kind == 'helper-args':
        for i, name in enumerate(HELPER_FNS):
            if i % 4 == shard['part']:
                for form in HELPER_FORMS:
                    _run(ctx, dict(kind='helper-arg', fn=name, form=form))
    elif kind == 'elements':
        _run(ctx, dict(kind='element-keys', table=shard['table']))
        for z in range(1, 119):
            _run(ctx, dict(kind='element', table=shard['table'], Z=z))
    elif kind == 'mw-dict':
        first, n = shard['first'], shard['n']
        rest = MW_ELEMENTS[MW_ELEMENTS.index(first) + 1:]

        def keyforms(e):
            return [e, U.z_of(e)]
        for m in range(0, n):
            for others in itertools.combinations(rest, m):
                els = [first] + list(others)
                for keys in itertools.product(*[keyforms(e) for e in els]):
                    for counts in itertools.product(MW_COUNTS, repeat=len(els)):
                        _run(ctx, dict(kind='mw-dict', items=[[k, v] for k, v in zip(keys, counts)]))
    elif kind == 'mw-formula':
        first, n = shard['first'], shard['n']
        toks = [[e, k] for e in MW_ELEMENTS for k in MW_TOKENS]
        for k0 in MW_TOKENS:
            for m in range(0, n):
                for others in itertools.product(toks, repeat=m):
                    _run(ctx, dict(kind='mw-formula', tokens=[[first, k0]] + [list(o) for o in others]))
    else:
        raise ValueError(kind)


LEVEL_TEXT = ('Full-product exploration of the real pmutt.constants tables: every unit of the conversion table, every '
              'ordered pair and triple inside each of the 11 quantity types, every cross-type pair, every key of '
              'R/h/kb/c/m_e/m_p/P0/T0/V0 (source dict and documented table), all helper pairs and paths, all 118 '
              'elements in both element tables, and all dict / formula compositions of a 10-element alphabet, '
              'each against SI definitions, textbook relations or a second route through the same tables.  Every '
              'ordered pair and every helper is also called with integer-typed numbers, numpy scalars, num=None and '
              '11 array forms in a four-call history (call, repeat, overwrite the result, edit the argument in '
              'place); helper arguments cover both signs and zero.')
LEVEL_NOTE = ('Numeric arguments come from short fixed lists; compositions are bounded to 2 (quick) / 3 (thorough) '
              'elements or formula tokens; the tolerance of a rounded table entry is one unit of its last written '
              'digit, CODATA quantities 1e-7 (2014 vs 2018 sets).  Standard entropies of the elements have no '
              'independent reference: only symbol/number agreement is decided.')
TECHNIQUE = 'exhaustive product enumeration on the implementation (no bound needed), definition / two-route oracles'
