"""C02 - NASA-7, NASA-9 and Shomate species are internally consistent polynomials.

Shape C (lattice walk with edge laws) on the real classes:

* every object of the alphabet (segment bounds x coefficient set [basis vectors and realistic
  sets] x NASA-9 segment count/order x Shomate fitting unit) is built with the real constructor;
* on every lattice point inside a segment (ratio lattice + both bounds + every break point +
  nextafter on both sides of each) the four dimensionless getters are compared with the
  textbook form of the polynomial of the segment that *contains* the point (upper at NASA-7
  T_mid, either neighbour exactly on a NASA-9 boundary) and G = H - S is checked;
* on every lattice edge inside one segment  T*HoRT|12 = int CpoR dT  and  SoR|12 = int CpoR/T dT,
  the integrals being a Gauss-Legendre quadrature of the object's own get_CpoR;
* outside every NASA-9 segment every getter must raise ValueError (scalar, and arrays that
  contain one such temperature);
* numpy arrays (float and integer dtype; length 1,2,3,7,50; ascending, descending, with repeats) must give
  exactly the scalar-by-scalar values for the four dimensionless and the four dimensional getters;
* the module-level evaluators are linear in the coefficient vector (all pairs of basis vectors,
  three scalar multiples) and equal the textbook basis functions, which extends the clauses from
  the basis vectors to every coefficient vector;
* call histories on freshly built objects (constructor / from_dict(to_dict()) / deepcopy): a getter on a
  temperature buffer, one event out of HIST_EVENTS (the same buffer edited in place, the returned array
  overwritten, the species' parameters re-assigned or edited in place, another species or a clone
  evaluated in between, ...), a second getter on the *same* buffer object; every call is compared with
  the textbook value for the buffer's content and the parameters at that moment, and the caller's
  buffer and the species' parameters must be left as they were;
* non-default conditions (third round): the same species as a solid, as a gas (pressure model attached), with a
  coverage-effect model and with both, evaluated with every keyword the getters accept (P, x, the per-species
  <name>_kwargs route, S_elements, raise_error / raise_warning; python-int and boundary values, explicit None):
  textbook value + the model's textbook contribution, G = H - TS dimensionless and in three units (one per mass),
  array = scalar-by-scalar, both edge laws, a second call, a default call and a sibling species in between;
* NASA-9 mixed arrays (fourth round): break temperatures (each inside two segments; multisets, the same break twice)
  x other in-range temperatures x temperatures outside every segment (below, above, in a gap; one, two, three) in
  three orders, float and integer dtype, all 8 getters: refused as soon as one element is outside every segment,
  however many others lie in two; scalar-by-scalar values otherwise.
"""
import copy
import itertools
import math
import warnings

import numpy as np

from pmc.engine import core
from pmc.engine.quad import integrate
from pmc.ref import empirical_ref as ref

ID = 'C02'
RULE = ('product bounds-set x coefficient-set x (NASA-9: segment count x listing order; Shomate: fitting unit) '
        'x every lattice point / lattice edge / outside point / array shape; a case is non-trivial when '
        'the temperature is on or adjacent to a break point or bound, lies outside the range, is an '
        'integer, or is an array; call histories: object x how it was made x buffer dtype x first getter x '
        'event x second getter (every history is a distinct non-trivial case); conditions: object x dress (solid / gas / '
        'coverage model / both) x keyword set x how it was made, each evaluated on every temperature form (a case with '
        'a non-empty keyword set is non-trivial); NASA-9 mixed arrays: configuration x solid / gas species x break multiset x '
        'in-range set x outside set x order x dtype, all 8 getters (every such array is non-trivial)')
ASSUMPTIONS = [
    'segment bounds from the four sets of DESIGN C02 (NASA-9: up to two further break points per set, '
    'plus one set with a gap between segments); temperatures from a ratio lattice plus bounds, break '
    'points and their floating-point neighbours',
    'clauses are evaluated on the basis vectors of the coefficient space and on four realistic sets; '
    'the step to every coefficient vector is the linearity of the evaluators, which is itself checked '
    'on all pairs of basis vectors and three multiples',
    'a length-1 array may be answered by a bare number (Shomate and Nasa9 do): the statement is about values',
    'Shomate / NASA-7 outside their range: extrapolation with a RuntimeWarning is documented behaviour '
    'and is recorded (branch tags), not judged',
    'call histories use one realistic coefficient set per bounds/segment/unit configuration (water; CO2 for the second '
    'species and for re-assigned parameters), three-element buffers that span the first two segments, and one event '
    'between two getter calls (thorough: also two events between three calls of the same getter)',
    'in the lattice walk and the histories a gas species (phase="G") is evaluated at the default pressure, where the '
    'attached pressure model contributes nothing; non-default keywords are the subject of the conditions family',
    'conditions: one realistic coefficient set per configuration, water elements, one three-interval coverage model '
    '(slopes -5, 7, 2 kcal/mol per ML), P in {0.05, 1, 2 (int), 25} bar, x in {0, 0.1, 0.3 (a break), 0.45, 1 (int)} '
    'directly and through CO_kwargs, S_elements in {True, False, None}, raise_error / raise_warning given explicitly; the '
    'model contributions are the textbook ones (-ln P for a species with a pressure model, the integrated slope / RT, '
    'minus the entropy of the elements from the library table); scalar P and x only (arrays of P are not documented '
    'together with arrays of T); a keyword no model of the species consumes must change nothing',
]
EXPLANATION = ('exhaustive walk of a temperature lattice on real Nasa/Nasa9/Shomate objects; oracles: textbook '
               'polynomial forms, quadrature of the object\'s own Cp along every edge, scalar-by-scalar evaluation')

# ----------------------------------------------------------------------------- alphabet
BOUNDS = [(50.0, 100.0, 6000.0), (200.0, 1000.0, 3500.0), (298.15, 4500.0 / 7.0, 1000.0),
          (300.0, 300.0000001, 6000.0)]
# NASA-9 break points per bounds set (first n break points + the upper bound give n segments)
BREAKS9 = [[50.0, 100.0, 1000.0, 3000.0, 6000.0], [200.0, 1000.0, 2000.0, 3000.0, 3500.0],
           [298.15, 4500.0 / 7.0, 800.0, 900.0, 1000.0], [300.0, 300.0000001, 1000.0, 2500.0, 6000.0]]
GAP9 = [[200.0, 1000.0], [1200.0, 6000.0]]        # two segments with a hole in between
UNITS_Q = ['J/mol/K', 'kJ/mol/K', 'cal/mol/K', 'kcal/mol/K', 'eV/K', 'L atm/mol/K']   # one per prefix/energy family
UNITS_T = ['J/mol/K', 'kJ/mol/K', 'L kPa/mol/K', 'cm3 kPa/mol/K', 'm3 Pa/mol/K', 'cm3 MPa/mol/K',
           'm3 bar/mol/K', 'L bar/mol/K', 'L torr/mol/K', 'cal/mol/K', 'kcal/mol/K', 'L atm/mol/K',
           'cm3 atm/mol/K', 'eV/K', 'Eh/K', 'Ha/K']
NCOEF = dict(nasa7=7, nasa9=9, shomate=8)
QUANT = ['CpoR', 'HoRT', 'SoR', 'GoRT']
DIMQ = [('get_Cp', 'J/mol/K'), ('get_H', 'kJ/mol'), ('get_S', 'cal/mol/K'), ('get_G', 'eV')]
GETTERS = ['get_' + q for q in QUANT] + [g for g, _ in DIMQ]
ARRAY_ORDERS = ['asc', 'desc', 'rep', 'shuf']
ARRAY_LENGTHS = [1, 2, 3, 7, 50]
ARRAY_LENGTHS_T = [1, 2, 3, 4, 7, 13, 25, 50]
# every length up to well past the number of coefficients (7 / 8 / 9), of segments and of misc models: an N x ncoef
# (or ncoef x N) intermediate is ambiguous exactly when N equals one of those numbers.  Used for the realistic,
# integer-typed and gas-species objects (the basis-vector objects keep the sparse list) and for the module-level
# Shomate evaluators
ARRAY_LENGTHS_DENSE = list(range(1, 14)) + [50]
ARRAY_LENGTHS_DENSE_T = list(range(1, 21)) + [25, 50]
# every getter documents 'float or (N,) numpy.ndarray'; python lists are not documented anywhere, so they are
# not judged (DESIGN C02: 'Python list where the signature documents it')
CONTAINERS = ['ndarray']
MULTIPLES = [-2.5, 1e-3, 7e4]

REAL7 = {
    'water': ([4.19864056E+00, -2.03643410E-03, 6.52040211E-06, -5.48797062E-09, 1.77197817E-12,
               -3.02937267E+04, -8.49032208E-01],
              [3.03399249E+00, 2.17691804E-03, -1.64072518E-07, -9.70419870E-11, 1.68200992E-14,
               -3.00042971E+04, 4.96677010E+00]),
    'co2': ([2.35677352E+00, 8.98459677E-03, -7.12356269E-06, 2.45919022E-09, -1.43699548E-13,
             -4.83719697E+04, 9.90105222E+00],
            [3.85746029E+00, 4.41437026E-03, -2.21481404E-06, 5.23490188E-10, -4.72084164E-14,
             -4.87591660E+04, 2.27163806E+00]),
    'adsorbate': ([-1.2, 1.9e-2, -3.1e-5, 2.4e-8, -7.0e-12, -4.6e3, 4.3],
                  [2.6, 1.1e-3, -7.6e-7, 2.3e-10, -2.6e-14, -5.3e3, -13.9]),
    'alternating': ([1.0, -1.0e-3, 1.0e-6, -1.0e-10, 1.0e-15, -1.0e4, 1.0e1],
                    [-2.0, 3.0e-3, -2.0e-7, 1.0e-11, -1.0e-15, 1.0e4, -5.0]),
}
REAL9 = {
    'water': ([-3.947960830E+04, 5.755731020E+02, 9.317826530E-01, 7.222712860E-03, -7.342557370E-06,
               4.955043490E-09, -1.336933246E-12, -3.303974310E+04, 1.724205775E+01],
              [1.034972096E+06, -2.412698562E+03, 4.646110780E+00, 2.291998307E-03, -6.836830480E-07,
               9.426468930E-11, -4.822380530E-15, -1.384286509E+04, -7.978148510E+00]),
    'co2': ([4.943650540E+04, -6.264116010E+02, 5.301725240E+00, 2.503813816E-03, -2.127308728E-07,
             -7.689988780E-10, 2.849677801E-13, -4.528198460E+04, -7.048279440E+00],
            [1.176962419E+05, -1.788791477E+03, 8.291523190E+00, -9.223156780E-05, 4.863676880E-09,
             -1.891053312E-12, 6.330036590E-16, -3.908350590E+04, -2.652669281E+01]),
    'adsorbate': ([-2.1e3, 4.0e1, -1.2, 1.9e-2, -3.1e-5, 2.4e-8, -7.0e-12, -4.6e3, 4.3],
                  [8.0e4, -3.0e2, 2.6, 1.1e-3, -7.6e-7, 2.3e-10, -2.6e-14, -5.3e3, -13.9]),
    'alternating': ([1.0e4, -1.0e2, 1.0, -1.0e-3, 1.0e-6, -1.0e-10, 1.0e-15, -1.0e4, 1.0e1],
                    [-1.0e4, 1.0e2, -2.0, 3.0e-3, -2.0e-7, 1.0e-11, -1.0e-15, 1.0e4, -5.0]),
}
REALS = {
    'water': [30.09200, 6.832514, 6.793435, -2.534480, 0.082139, -250.8810, 223.3967, -241.8264],
    'co2': [24.99735, 55.18696, -33.69137, 7.948387, -0.136638, -403.6075, 228.2431, -393.5224],
    'adsorbate': [-5.0, 60.0, -40.0, 10.0, 0.05, -30.0, -10.0, 0.0],
    'alternating': [1.0e2, -1.0e1, 1.0, -1.0e-1, 1.0e-3, -1.0e3, 1.0e2, -1.0e1],
}
COEF_NAMES = ['water', 'co2', 'adsorbate', 'alternating']
# integer-typed parameters: python-int bounds and integer-dtype coefficient arrays (bounds sets 0, 1 and the gap
# configuration consist of whole numbers); two vectors per family, alternated over the segments like the real sets
INT_COEFS = {
    'nasa7': ([3, -2, 1, -1, 1, -30000, 5], [4, 1, -1, 1, -1, -29000, -7]),
    'nasa9': ([-40000, 600, 3, -2, 1, -1, 1, -30000, 5], [100000, -2400, 4, 1, -1, 1, -1, -29000, -7]),
    'shomate': ([30, 7, -7, 3, 1, -251, 223, -242], [25, 55, -34, 8, -1, -404, 228, -394]),
}
INT_BOUNDS = (0, 1)

# ---- call histories (see _check_hist)
HIST_EVENTS = ['again', 'buf:all', 'buf:item', 'buf:reverse', 'res:clobber', 'par:assign', 'par:item',
               'par:break', 'par:units', 'other:call', 'fresh:call', 'scalar:call', 'deepcopy:edit', 'dict:edit']
HIST_MAKES = ['ctor', 'from_dict', 'deepcopy']
HIST_DTYPES = ['float', 'int']
HIST_COEF, HIST_COEF2 = ['real', 'water'], ['real', 'co2']
CL_HIST = 'every call of a history gives the textbook value for the current temperatures and parameters'
CL_INPUT = "the caller's temperature array is left unchanged"
CL_ALIAS = "a returned array shares no memory with the caller's temperature array"
CL_PARAMS = "evaluation leaves the species' parameters as they were set"

# ---- non-default conditions (see _check_cond)
ELEMENTS = {'H': 2, 'O': 1}
COV = dict(name_j='CO', intervals=[0.0, 0.3, 0.6], slopes=[-5.0, 7.0, 2.0])      # kcal/mol per ML, continuous
DRESSES = ['plain', 'gas', 'cov', 'gas+cov']
CONDS = {
    'default': {},
    'P=0.05': {'P': 0.05}, 'P=25': {'P': 25.0}, 'P=2:int': {'P': 2}, 'P=1': {'P': 1.0},
    'x=0': {'x': 0.0}, 'x=0.1': {'x': 0.1}, 'x=0.3': {'x': 0.3}, 'x=0.45': {'x': 0.45}, 'x=1:int': {'x': 1},
    'CO_kwargs:x=0.45': {'CO_kwargs': {'x': 0.45}},
    'Sel=True': {'S_elements': True}, 'Sel=False': {'S_elements': False}, 'Sel=None': {'S_elements': None},
    'flags': {'raise_error': False, 'raise_warning': False},
    'P=25,x=0.45': {'P': 25.0, 'x': 0.45}, 'P=0.05,Sel=True': {'P': 0.05, 'S_elements': True},
    'P=25,flags': {'P': 25.0, 'raise_error': False, 'raise_warning': False},
    'x=0.45,flags': {'x': 0.45, 'raise_error': True, 'raise_warning': False},
    'P=0.05,CO_kwargs:x=0.1': {'P': 0.05, 'CO_kwargs': {'x': 0.1}},
    'P=25,x=0.1,Sel=True': {'P': 25.0, 'x': 0.1, 'S_elements': True},
}
# quick: the conditions a dress can react to, plus one it must ignore (P on a solid, x without a coverage model)
COND_BY_DRESS = {
    'plain': ['default', 'P=25', 'x=0.45', 'Sel=True', 'Sel=False', 'flags'],
    'gas': ['default', 'P=0.05', 'P=25', 'P=2:int', 'P=1', 'Sel=True', 'Sel=None', 'P=0.05,Sel=True', 'P=25,flags',
            'x=0.45'],
    'cov': ['default', 'x=0', 'x=0.1', 'x=0.3', 'x=0.45', 'x=1:int', 'CO_kwargs:x=0.45', 'Sel=True', 'x=0.45,flags',
            'P=25'],
    'gas+cov': ['default', 'P=25', 'x=0.45', 'P=25,x=0.45', 'P=0.05,CO_kwargs:x=0.1', 'P=25,x=0.1,Sel=True'],
}
COND_MAKES = {'plain': 'Sel=True', 'gas': 'P=25', 'cov': 'x=0.45', 'gas+cov': 'P=25,x=0.45'}   # also from_dict / deepcopy
IDENT_UNITS = ['J/mol', 'kcal/mol', 'kJ/g']
CL_COND = 'under non-default conditions every getter gives the textbook value plus the textbook model contribution'
CL_COND_G = 'G = H - TS under non-default conditions (GoRT = HoRT - SoR, same keywords)'
CL_COND_GDIM = 'G = H - TS under non-default conditions (get_G = get_H - T get_S, same unit and keywords)'
CL_COND_ARR = 'array evaluation = scalar-by-scalar evaluation under non-default conditions'
CL_COND_DH = 'dH/dT = Cp along a lattice edge under non-default conditions'
CL_COND_DS = 'dS/dT = Cp/T along a lattice edge under non-default conditions'
CL_KW = "the caller's keyword arguments are left unchanged"


def _cond_keys(kw):
    keys = []
    for k in sorted(kw):
        keys.append('flags' if k in ('raise_error', 'raise_warning') else k)
    return '+'.join(sorted(set(keys))) or 'none'


PLANNED_TAGS = [
    'at:T_low', 'at:T_high', 'at:T_mid', 'at:T_mid-', 'at:T_mid+', 'at:boundary', 'at:boundary-', 'at:boundary+',
    'at:inside', 'T:int', 'nasa7:segment=low', 'nasa7:segment=high', 'nasa9:boundary=lower', 'nasa9:boundary=upper',
    'nasa9:listing=asc', 'nasa9:listing=shuf', 'nasa9:listing=gap', 'nasa9:outside-refused:scalar',
    'nasa9:outside-refused:array', 'nasa9:gap-refused', 'nasa7:outside-warned', 'shomate:outside-warned',
    'array:len1', 'array:len2', 'array:len3', 'array:len7', 'array:len50', 'array:ndarray', 'array:int-dtype',
    'array:asc', 'array:desc', 'array:rep', 'array:shuf', 'array:spans-segments', 'array:len1->bare-number',
    'lin:nasa7', 'lin:nasa9', 'lin:shomate', 'edge:nasa7', 'edge:nasa9', 'edge:shomate',
    'T:np.int64', 'T:np.float64', 'coef:int-dtype', 'phase:G', 'lin:T=int', 'lin:T=np.int64',
    'hist:dtype=float', 'hist:dtype=int', 'hist:res-clobbered', 'hist:break-moved-an-element',
] + ['hist:ev=' + e for e in HIST_EVENTS] + ['hist:make=' + m for m in HIST_MAKES] \
  + ['array:len%d' % n for n in range(4, 14) if n != 7] + ['modarray:len%d' % n for n in range(1, 14)] \
  + ['cond:dress=' + d for d in DRESSES] + ['cond:make=' + m for m in HIST_MAKES] \
  + sorted({'cond:keys=' + _cond_keys(CONDS[c]) for d in DRESSES for c in COND_BY_DRESS[d]}) \
  + ['cond:P-on-a-species-without-pressure-model', 'cond:x-on-a-species-without-coverage-model', 'cond:edge',
     'cond:T=scalar', 'cond:T=int', 'cond:T=ndarray', 'cond:T=ndarray:int', 'cond:boundary-value'] \
  + ['mixed:breaks=%d' % n for n in range(4)] + ['mixed:outside=' + k for k in ('none', 'below', 'above', 'gap', 'both')] \
  + ['mixed:order=' + k for k in ('out-last', 'out-first', 'interleaved')] + ['mixed:dtype=float', 'mixed:dtype=int',
     'mixed:refused', 'mixed:all-in-range', 'mixed:as-many-break-hits-as-outside']


def _ratio(tier):
    return 1.25 if tier == 'quick' else 1.1


def bounds(tier):
    return dict(bounds_sets=BOUNDS, nasa9_break_points=BREAKS9, nasa9_gap=GAP9,
                nasa9_segments='1-4, ascending and shuffled listing',
                lattice_ratio=_ratio(tier), shomate_units=UNITS_Q if tier == 'quick' else UNITS_T,
                coefficient_sets='basis vectors e_i (7/9/8 per family) + %s' % COEF_NAMES,
                array_lengths=ARRAY_LENGTHS if tier == 'quick' else ARRAY_LENGTHS_T, array_orders=ARRAY_ORDERS,
                array_lengths_dense=ARRAY_LENGTHS_DENSE if tier == 'quick' else ARRAY_LENGTHS_DENSE_T,
                conditions=dict(dresses=DRESSES, keywords=CONDS, coverage_model=COV, elements=ELEMENTS,
                                per_dress=COND_BY_DRESS if tier == 'quick' else 'every condition for every dress',
                                makes='constructor; from_dict / deepcopy for %s' % COND_MAKES,
                                identity_units=IDENT_UNITS),
                scalar_types=['float', 'int', 'numpy.float64 (bounds, break points, neighbours)', 'numpy.int64'],
                extra_objects='integer-typed bounds + integer-dtype coefficients (bounds sets 0, 1, gap); gas species (phase="G")',
                history=dict(makes=HIST_MAKES, buffer_dtypes=HIST_DTYPES, events=HIST_EVENTS, getters=GETTERS,
                             depth='getter, event, getter: all 8x8 getter pairs for constructor-made objects with a float '
                                   'buffer, the 8 diagonal pairs for the other make/dtype combinations' if tier == 'quick'
                                   else 'getter, event, getter: all 8x8 pairs for every make/dtype; plus getter, event, '
                                        'getter, event, getter on the diagonal for constructor-made objects',
                             coefficient_set=HIST_COEF, second_species=HIST_COEF2),
                nasa9_mixed_arrays=dict(
                    breaks='every multiset of 0-%d shared break temperatures + all of them' % (2 if tier == 'quick' else 3),
                    in_range='none; first midpoint; T_low + last midpoint + T_high' + ('' if tier == 'quick' else '; two midpoints; both bounds'),
                    outside='none; each single point below / above / in a gap; below + above (near, far); the same twice; with a gap point',
                    orders=MIX_ORDERS, dtypes=['float64', 'int64 where every element is a whole number'],
                    species=['solid', 'gas (misc model attached)'], coefficient_set=HIST_COEF),
                array_containers=['ndarray (float dtype)', 'ndarray (int dtype)'], getters=GETTERS,
                linearity='all pairs of basis vectors, multiples %s' % MULTIPLES,
                quadrature='16-point Gauss-Legendre, 2 panels per edge')


def shards(tier):
    r = _ratio(tier)
    out = []
    L = ARRAY_LENGTHS if tier == 'quick' else ARRAY_LENGTHS_T
    D = ARRAY_LENGTHS_DENSE if tier == 'quick' else ARRAY_LENGTHS_DENSE_T
    for b in range(4):
        out.append(dict(kind='obj', fam='nasa7', b=b, ratio=r, lengths=L, dense=D, hist=tier))
    for b in range(4):
        for n in (1, 2, 3, 4):
            for order in (['asc'] if n == 1 else ['asc', 'shuf']):
                out.append(dict(kind='obj', fam='nasa9', b=b, n=n, order=order, ratio=r, lengths=L, dense=D, hist=tier))
    out.append(dict(kind='obj', fam='nasa9', b=-1, n=2, order='gap', ratio=r, lengths=L, dense=D, hist=tier))   # a hole between the segments
    for b in range(4):
        for u in (UNITS_Q if tier == 'quick' else UNITS_T):
            out.append(dict(kind='obj', fam='shomate', b=b, units=u, ratio=r, lengths=L, dense=D, hist=tier))
    out.append(dict(kind='lin', fam='nasa7', units=[None], ratio=r))
    out.append(dict(kind='lin', fam='nasa9', units=[None], ratio=r))
    us = UNITS_Q if tier == 'quick' else UNITS_T
    for k in range(0, len(us), 4):
        out.append(dict(kind='lin', fam='shomate', units=us[k:k + 4], ratio=r, lengths=D))
    return out


# ----------------------------------------------------------------------------- configurations
def _coef_ids(fam):
    return [['basis', i] for i in range(NCOEF[fam])] + [['real', n] for n in COEF_NAMES]


def _segments(cfg):
    """[(T_lo, T_hi), ...] ascending for the configuration."""
    fam = cfg['fam']
    if fam == 'nasa7':
        lo, mid, hi = BOUNDS[cfg['b']]
        return [(lo, mid), (mid, hi)]
    if fam == 'shomate':
        lo, mid, hi = BOUNDS[cfg['b']]
        return [(lo, hi)]
    if cfg['order'] == 'gap':
        return [tuple(s) for s in GAP9]
    br = BREAKS9[cfg['b']]
    pts = br[:cfg['n']] + [br[-1]]
    return list(zip(pts[:-1], pts[1:]))


def _unit(n, i, k=1.0):
    v = [0.0] * n
    v[i % n] = float(k)
    return v


def _seg_coefs(cfg):
    """Coefficient vector of every segment (ascending segment order)."""
    fam, (kind, which) = cfg['fam'], cfg['coef']
    nseg = len(_segments(cfg))
    n = NCOEF[fam]
    if kind == 'basis':
        # neighbouring segments get different basis vectors (and different multiples), so that the
        # value reveals which segment answered
        return [_unit(n, which + 3 * k, k + 1.0) for k in range(nseg)]
    if kind == 'int':
        lo, hi = INT_COEFS[fam]
        out = []
        for k in range(nseg):
            v = list(lo if k % 2 == 0 else hi)
            v[0 if fam != 'nasa9' else 2] += k // 2          # third and fourth segment differ from the first two
            out.append(v)
        return out
    if fam == 'shomate':
        return [list(REALS[which])]
    table = REAL7 if fam == 'nasa7' else REAL9
    lo, hi = table[which]
    out = []
    for k in range(nseg):
        base = lo if k % 2 == 0 else hi
        f = 1.0 + 0.25 * (k // 2)
        out.append([f * v for v in base])
    return out


def _listing(cfg):
    """Order in which the NASA-9 segments are handed to the constructor."""
    n = len(_segments(cfg))
    if cfg['fam'] != 'nasa9' or cfg['order'] in ('asc', 'gap') or n == 1:
        return list(range(n))
    idx = list(range(n))[::-1]
    if n >= 3:
        idx = idx[1:] + idx[:1]
    return idx


_CACHE = {}
_IDK = {}
_SCALAR = {}
_REF = {}


def _key(cfg):
    """Canonical string of a configuration (memoised on the dict object, which is kept alive)."""
    hit = _IDK.get(id(cfg))
    if hit is not None and hit[0] is cfg:
        return hit[1]
    key = core.dumps(cfg)
    _IDK[id(cfg)] = (cfg, key)
    return key


def _build(cfg, segs=None, coefs=None):
    """A fresh object for the configuration (real constructor).  Integer configurations get python-int bounds
    and integer-dtype coefficient arrays; 'phase' configurations are gas species (GasPressureAdj attached,
    which contributes nothing at the default pressure)."""
    from pmutt.empirical.nasa import Nasa, Nasa9, SingleNasa9
    from pmutt.empirical.shomate import Shomate
    segs = _segments(cfg) if segs is None else segs
    coefs = _seg_coefs(cfg) if coefs is None else coefs
    fam = cfg['fam']
    if cfg['coef'][0] == 'int':
        segs = [(int(lo), int(hi)) for lo, hi in segs]
        if [tuple(map(float, x)) for x in segs] != [tuple(map(float, x)) for x in _segments(cfg)]:
            raise core.HarnessError('integer configuration on non-integer bounds')
    kw = {}
    if cfg.get('phase'):
        kw['phase'] = cfg['phase']
    if fam == 'nasa7':
        return Nasa(name='sp', T_low=segs[0][0], T_mid=segs[0][1], T_high=segs[1][1],
                    a_low=np.array(coefs[0]), a_high=np.array(coefs[1]), **kw)
    if fam == 'nasa9':
        singles = [SingleNasa9(T_low=segs[k][0], T_high=segs[k][1], a=np.array(coefs[k]))
                   for k in _listing(cfg)]
        return Nasa9(name='sp', nasas=singles, **kw)
    return Shomate(name='sp', T_low=segs[0][0], T_high=segs[0][1], a=np.array(coefs[0]),
                   units=cfg['units'], **kw)


def _obj(cfg):
    key = _key(cfg)
    o = _CACHE.get(key)
    if o is None:
        o = _CACHE[key] = _build(cfg)
    return o


def _clsname(cfg):
    return dict(nasa7='Nasa', nasa9='Nasa9', shomate='Shomate')[cfg['fam']]


def _R(cfg):
    if cfg['fam'] != 'shomate':
        return None
    from pmutt import constants as c
    return c.R(cfg['units'])


def _up(x):
    return float(np.nextafter(x, np.inf))


def _dn(x):
    return float(np.nextafter(x, 0.0))


def _candidates(cfg, T):
    """(indices of the segments allowed to answer at T, label of the position)."""
    segs = _segments(cfg)
    fam = cfg['fam']
    T = float(T)
    glo, ghi = segs[0][0], segs[-1][1]
    if fam == 'nasa7':
        mid = segs[0][1]
        if T < glo or T > ghi:
            return [], 'outside'
        seg = [1] if T >= mid else [0]
        if T == mid:
            return seg, 'T_mid'
        if T == _dn(mid):
            return seg, 'T_mid-'
        if T == _up(mid):
            return seg, 'T_mid+'
        return seg, ('T_low' if T == glo else 'T_high' if T == ghi else 'inside')
    inside = [k for k, (lo, hi) in enumerate(segs) if lo <= T <= hi]
    if not inside:
        return [], 'outside'
    if len(inside) == 2:
        return inside, 'boundary'
    for k, (lo, hi) in enumerate(segs):
        if 0 < k and T == _up(lo):
            return inside, 'boundary+'
        if k < len(segs) - 1 and T == _dn(hi):
            return inside, 'boundary-'
    return inside, ('T_low' if T == glo else 'T_high' if T == ghi else 'inside')


def _lattice(lo, hi, ratio):
    out, x = [], lo
    while x < hi:
        out.append(x)
        x *= ratio
    return out


def _points(cfg, ratio):
    """Every evaluation point inside the range, ascending, and the edges inside one segment."""
    segs = _segments(cfg)
    fam = cfg['fam']
    pts, edges = set(), []
    for k, (lo, hi) in enumerate(segs):
        own = set(_lattice(lo, hi, ratio)) | {_up(lo), _dn(hi)}
        if fam == 'nasa7':
            own |= {lo}                              # T_mid belongs to the upper segment
            if k == 1:
                own |= {hi}
        else:
            first = (k == 0) or segs[k - 1][1] != lo
            last = (k == len(segs) - 1) or segs[k + 1][0] != hi
            if first:
                own |= {lo}
            else:
                own -= {lo}                            # a shared boundary belongs to neither edge walk
            if last:
                own |= {hi}
        own = sorted(own)
        edges += [(a, b, k) for a, b in zip(own[:-1], own[1:])]
        pts |= set(own) | {lo, hi}
    return sorted(pts), edges


def _outside_points(cfg):
    segs = _segments(cfg)
    glo, ghi = segs[0][0], segs[-1][1]
    out = [(_dn(glo), 'below'), (_up(ghi), 'above'), (0.5 * glo, 'below'), (2.0 * ghi, 'above')]
    for (l1, h1), (l2, h2) in zip(segs[:-1], segs[1:]):
        if h1 != l2:
            out += [(0.5 * (h1 + l2), 'gap'), (_up(h1), 'gap'), (_dn(l2), 'gap')]
    return out


def _int_points(cfg):
    """Integer-valued temperatures strictly inside a segment (python ints)."""
    out = []
    for lo, hi in _segments(cfg):
        t = int(math.floor(0.5 * (lo + hi)))
        if lo < t < hi:
            out.append(t)
    return out


def _arrays(cfg, ratio, lengths=None):
    """[(order, [T...])] built from the evaluation points; specials come first."""
    pts, _ = _points(cfg, ratio)
    segs = _segments(cfg)
    special = []
    for lo, hi in segs:
        mids = [p for p in pts if lo < p < hi]
        special.append(mids[len(mids) // 2] if mids else lo)
    for lo, hi in segs[:-1]:
        special += [hi, _dn(hi), _up(hi)]
    special += [segs[-1][1], segs[0][0]]
    pri = []
    for p in special + pts:
        if p not in pri and _candidates(cfg, p)[0]:
            pri.append(p)
    out = []
    for L in (lengths or ARRAY_LENGTHS):
        base = [pri[i % len(pri)] for i in range(L)]
        asc = sorted(base)
        half = asc[:(L + 1) // 2]
        rep = (half + half[::-1])[:L]
        shuf = asc[1::2] + asc[0::2][::-1]                   # neither ascending nor descending from length 3 on
        seen = []
        for order, arr in (('asc', asc), ('desc', asc[::-1]), ('rep', rep), ('shuf', shuf)):
            if arr not in seen:
                seen.append(arr)
                out.append((order, arr))
    return out


def _call(o, getter, T):
    for g, u in DIMQ:
        if g == getter:
            return getattr(o, g)(T=T, units=u)
    return getattr(o, getter)(T=T)


# ----------------------------------------------------------------------------- case evaluation
def _ref_at(cfg, k, T):
    ck = (_key(cfg), k, float(T))
    r = _REF.get(ck)
    if r is None:
        r = _REF[ck] = ref.values(ref.terms_for(cfg['fam'], _seg_coefs(cfg)[k], T, _R(cfg)))
    return r


def _scalar(cfg, o, getter, T):
    """Scalar evaluation of one getter at one temperature (memoised: the objects are immutable here)."""
    ck = (_key(cfg), getter, T, isinstance(T, int))
    if ck not in _SCALAR:
        _SCALAR[ck] = _call(o, getter, T)
    return _SCALAR[ck]


def _check_point(case, ctx):
    cfg, T = case['obj'], case['T']
    o = _obj(cfg)
    cand, where = _candidates(cfg, T)
    sig0 = {'cls': _clsname(cfg), 'T': 'int' if isinstance(T, int) else 'scalar', 'at': where}
    ctx.tag('at:' + where)
    if isinstance(T, int):
        ctx.tag('T:int')
    if case.get('np'):                                      # the same temperature as a numpy scalar
        T = np.int64(T) if isinstance(T, int) else np.float64(T)
        sig0['T'] = 'np.' + type(T).__name__
        ctx.tag('T:' + sig0['T'])
    if cfg['coef'][0] == 'int':
        ctx.tag('coef:int-dtype')
    if cfg.get('phase'):
        ctx.tag('phase:' + cfg['phase'])
    obs = {}
    for q in QUANT:
        sig = dict(sig0, getter='get_' + q)
        v = getattr(o, 'get_' + q)(T=T)
        ctx.evals()
        if not ctx.true('a single temperature gives a single number', np.size(v) == 1, sig, case,
                        list(np.shape(v)), 'one value'):
            return
        obs[q] = float(np.ravel(v)[0])
    refs = [_ref_at(cfg, k, T) for k in cand]
    best = 0
    if len(cand) > 1:
        def dist(r):
            return max(abs(obs[q] - r[q][0]) / (r[q][1] + 1e-300) for q in QUANT)
        best = min(range(len(cand)), key=lambda i: dist(refs[i]))
        ctx.tag('nasa9:boundary=' + ('lower' if best == 0 else 'upper'))
    if cfg['fam'] == 'nasa7':
        ctx.tag('nasa7:segment=' + ('low' if cand[0] == 0 else 'high'))
    r = refs[best]
    for q in QUANT:
        sig = dict(sig0, getter='get_' + q)
        ctx.close('value is the polynomial of the segment that contains T (textbook form)', obs[q],
                  r[q][0], sig, case, rtol=1e-9, atol=0.0, scale=r[q][1])
    ctx.close('G = H - TS (GoRT = HoRT - SoR)', obs['GoRT'], obs['HoRT'] - obs['SoR'],
              dict(sig0, getter='get_GoRT'), case, rtol=1e-10, atol=0.0,
              scale=abs(obs['HoRT']) + abs(obs['SoR']) + 1.0)


def _check_edge(case, ctx):
    cfg, T1, T2, k = case['obj'], case['T1'], case['T2'], case['seg']
    o = _obj(cfg)
    sig0 = {'cls': _clsname(cfg), 'T': 'scalar', 'at': 'edge'}
    ctx.tag('edge:' + cfg['fam'])
    H1, H2 = float(o.get_HoRT(T=T1)), float(o.get_HoRT(T=T2))
    S1, S2 = float(o.get_SoR(T=T1)), float(o.get_SoR(T=T2))
    i_cp = integrate(lambda x: float(o.get_CpoR(T=float(x))), T1, T2, panels=2)
    i_cpt = integrate(lambda x: float(o.get_CpoR(T=float(x))) / x, T1, T2, panels=2)
    ctx.evals(4 + 64)
    r1, r2 = _ref_at(cfg, k, T1), _ref_at(cfg, k, T2)
    cps = max(r1['CpoR'][1], r2['CpoR'][1])
    ctx.close('dH/dT = Cp along every lattice edge (T*HoRT|12 = integral of CpoR)', T2 * H2 - T1 * H1, i_cp,
              dict(sig0, getter='get_HoRT'), case, rtol=1e-8, atol=1e-10,
              scale=T2 * r2['HoRT'][1] + T1 * r1['HoRT'][1] + cps * (T2 - T1))
    ctx.close('dS/dT = Cp/T along every lattice edge (SoR|12 = integral of CpoR/T)', S2 - S1, i_cpt,
              dict(sig0, getter='get_SoR'), case, rtol=1e-8, atol=1e-10,
              scale=r2['SoR'][1] + r1['SoR'][1] + cps * math.log(T2 / T1))


def _check_outside(case, ctx):
    """NASA-9: a temperature outside every segment is refused (ValueError), never a number."""
    cfg, T, getter, form, kind = case['obj'], case['T'], case['getter'], case['form'], case['where']
    o = _obj(cfg)
    segs = _segments(cfg)
    inside = 0.5 * (segs[0][0] + segs[0][1])
    arg = {'scalar': T, 'ndarray-last': np.array([inside, T]), 'ndarray-first': np.array([T, inside]),
           'ndarray-mid': np.array([inside, T, inside])}[form]
    sig = {'cls': 'Nasa9', 'getter': getter, 'T': 'scalar' if form == 'scalar' else 'array', 'at': 'outside'}
    ctx.evals()
    try:
        v = _call(o, getter, arg)
    except ValueError as e:
        if 'no valid SingleNasa9' not in str(e):
            raise
        ctx.true('a temperature outside every NASA-9 segment is refused', True, sig, case)
        ctx.tag('nasa9:gap-refused' if kind == 'gap' else
                'nasa9:outside-refused:' + ('scalar' if form == 'scalar' else 'array'))
        return
    ctx.fail('a temperature outside every NASA-9 segment is refused', sig, case, v, 'ValueError')


# ---- NASA-9 arrays that MIX break temperatures, in-range and out-of-range temperatures (fourth round)
MIX_ORDERS = ['out-last', 'out-first', 'interleaved']
CL_REFUSED = 'a temperature outside every NASA-9 segment is refused'


def _multisets(items, sizes):
    out = []
    for n in sizes:
        out += [list(c) for c in itertools.combinations_with_replacement(items, n)]
    return out


def _mixed_parts(cfg, tier):
    """(break multisets, in-range sets, outside sets) of a NASA-9 configuration.
    breaks: temperatures shared by two segments (each lies in TWO intervals), every multiset of up to two of them
    (thorough: three) and the set of all of them; in-range: nothing, a midpoint, both global bounds with a midpoint
    (thorough: two more); outside: nothing (all in range), each single point below / above / in a gap, one below +
    one above, the same one twice."""
    segs = _segments(cfg)
    shared = [h1 for (l1, h1), (l2, h2) in zip(segs[:-1], segs[1:]) if h1 == l2]
    brk = _multisets(shared, (0, 1, 2) if tier == 'quick' else (0, 1, 2, 3))
    if sorted(set(shared)) not in brk:
        brk.append(sorted(set(shared)))
    mids = [lo + 0.5 * (hi - lo) for lo, hi in segs]
    glo, ghi = segs[0][0], segs[-1][1]
    ins = [[], [mids[0]], [glo, mids[-1], ghi]]
    if tier != 'quick':
        ins += [[mids[0], mids[-1]], [glo, ghi]]
    outs = _outside_points(cfg)
    below = [T for T, k in outs if k == 'below']
    above = [T for T, k in outs if k == 'above']
    gap = [T for T, k in outs if k == 'gap']
    out_sets = [([], 'none')] + [([T], 'below') for T in below] + [([T], 'above') for T in above] \
        + [([T], 'gap') for T in gap] \
        + [([below[0], above[0]], 'both'), ([below[1], above[1]], 'both'), ([above[1], above[1]], 'above')]
    if gap:
        out_sets += [([gap[0], above[0]], 'both'), ([below[1], gap[0], above[1]], 'both')]
    return brk, ins, out_sets


def _mixed_array(breaks, inside, outside, order):
    R = sorted(list(breaks) + list(inside))
    O = list(outside)
    if order == 'out-last':
        return R + O
    if order == 'out-first':
        return O + R[::-1]
    out = []
    for i in range(max(len(R), len(O))):
        out += R[i:i + 1] + O[i:i + 1]
    return out


def _mixed_cases(cfg, tier):
    brk, ins, out_sets = _mixed_parts(cfg, tier)
    seen = set()
    for b in brk:
        for i in ins:
            for o, okind in out_sets:
                for order in MIX_ORDERS:
                    Ts = _mixed_array(b, i, o, order)
                    if not Ts or (len(Ts) < 2 and not o) or tuple(Ts) in seen:
                        continue
                    seen.add(tuple(Ts))
                    dts = ['float'] + (['int'] if all(float(T) == int(T) for T in Ts) else [])
                    for dt in dts:
                        yield dict(kind='mixed', obj=cfg, Ts=Ts, nb=len(b), nout=len(o), out=okind, order=order, dtype=dt)


def _check_mixed(case, ctx):
    """NASA-9: one array mixing break temperatures (each inside TWO segments), other in-range temperatures and
    temperatures outside every segment, all 8 getters: refused (ValueError) as soon as one element is outside every
    segment, however many other elements lie in two; the scalar-by-scalar values otherwise."""
    cfg, Ts, dt = case['obj'], case['Ts'], case['dtype']
    o = _obj(cfg)
    n_out = sum(1 for T in Ts if not _candidates(cfg, T)[0])
    if n_out != case['nout']:
        raise core.HarnessError('mixed array %r: %d elements outside, %d planned' % (Ts, n_out, case['nout']))
    Tl = [int(T) for T in Ts] if dt == 'int' else [float(T) for T in Ts]
    at = ('outside' if n_out else 'inside') + ('+break' if case['nb'] else '')
    ctx.tag('mixed:breaks=%d' % min(case['nb'], 3))
    ctx.tag('mixed:outside=' + case['out'])
    ctx.tag('mixed:order=' + case['order'])
    ctx.tag('mixed:dtype=' + dt)
    if case['nb'] >= n_out > 0:
        ctx.tag('mixed:as-many-break-hits-as-outside')
    for getter in GETTERS:
        sig = {'cls': 'Nasa9', 'getter': getter, 'T': 'array' + (':int' if dt == 'int' else ''), 'at': at}
        arg = np.array(Tl)
        before = arg.copy()
        ctx.evals()
        ctx.trans()
        try:
            res = _call(o, getter, arg)
        except ValueError as e:
            if 'no valid SingleNasa9' not in str(e):
                raise
            res = None
        ctx.true(CL_INPUT, _same_array(arg, before), sig, case, arg.tolist(), Tl)
        if n_out:
            if res is None:
                ctx.true(CL_REFUSED, True, sig, case)
                ctx.tag('mixed:refused')
            else:
                ctx.fail(CL_REFUSED, sig, case, np.asarray(res).tolist(), 'ValueError')
            continue
        if res is None:
            ctx.fail('array evaluation = scalar-by-scalar evaluation', sig, case, 'ValueError (no valid SingleNasa9)',
                     'values: every element lies inside a segment')
            continue
        each = [float(np.ravel(_scalar(cfg, o, getter, T))[0]) for T in Tl]
        if ctx.true('an array of N temperatures gives N values', np.size(res) == len(Tl), sig, case,
                    list(np.shape(res)), len(Tl)):
            ctx.close('array evaluation = scalar-by-scalar evaluation', np.ravel(np.asarray(res, dtype=float)), each,
                      sig, case, rtol=1e-12, atol=0.0, scale=np.abs(each) + _array_scale(cfg, Tl, getter))
            ctx.tag('mixed:all-in-range')


def _note_outside(cfg, ctx):
    """NASA-7 / Shomate outside their range: documented extrapolation + RuntimeWarning; recorded only."""
    o = _obj(cfg)
    for T, _ in _outside_points(cfg):
        for q in QUANT:
            with warnings.catch_warnings(record=True) as w:
                warnings.simplefilter('always')
                try:
                    v = getattr(o, 'get_' + q)(T=T)
                except Exception:
                    ctx.tag('%s:outside-raised' % cfg['fam'])
                    continue
            ctx.evals()
            warned = any(issubclass(x.category, RuntimeWarning) for x in w)
            ctx.tag('%s:outside-%s' % (cfg['fam'], 'warned' if warned else 'silent'))


def _check_array(case, ctx):
    cfg, Ts, cont, getter, order = case['obj'], case['Ts'], case['container'], case['getter'], case['order']
    o = _obj(cfg)
    arg = np.array(Ts) if cont == 'ndarray' else list(Ts)
    sig = {'cls': _clsname(cfg), 'getter': getter,
           'T': cont + (':int' if all(isinstance(t, int) for t in Ts) else '')}
    each = []
    for T in Ts:
        v = _scalar(cfg, o, getter, T)
        if np.size(v) != 1:
            ctx.refuse('scalar evaluation does not give one number (reported by the point clause)')
            return
        each.append(float(np.ravel(v)[0]))
    ctx.tag('array:len%d' % len(Ts))
    ctx.tag('array:' + cont)
    if all(isinstance(t, int) for t in Ts):
        ctx.tag('array:int-dtype')
    ctx.tag('array:' + order)
    if len({tuple(_candidates(cfg, T)[0]) for T in Ts}) > 1:
        ctx.tag('array:spans-segments')
    before = arg.copy() if cont == 'ndarray' else list(arg)
    res = _call(o, getter, arg)
    ctx.evals(len(Ts) + 1)
    ctx.true(CL_INPUT, _same_array(arg, before), sig, case, np.asarray(arg).tolist(), list(Ts))
    if len(Ts) == 1 and np.ndim(res) == 0:
        ctx.tag('array:len1->bare-number')
    if not ctx.true('an array of N temperatures gives N values', np.size(res) == len(Ts), sig, case,
                    list(np.shape(res)), len(Ts)):
        return
    ctx.close('array evaluation = scalar-by-scalar evaluation', np.ravel(np.asarray(res, dtype=float)),
              each, sig, case, rtol=1e-12, atol=0.0, scale=np.abs(each) + _array_scale(cfg, Ts, getter))


def _same_array(a, b):
    if isinstance(a, np.ndarray) != isinstance(b, np.ndarray):
        return False
    if isinstance(a, np.ndarray):
        return a.dtype == b.dtype and a.shape == b.shape and bool(np.all(a == b))
    return type(a) is type(b) and len(a) == len(b) and all(type(x) is type(y) and x == y for x, y in zip(a, b))


def _array_scale(cfg, Ts, getter):
    """Round-off scale (sum of |terms|) of every element, in the getter's unit."""
    from pmutt import constants as c
    q = {'get_Cp': 'CpoR', 'get_H': 'HoRT', 'get_S': 'SoR', 'get_G': 'GoRT'}.get(getter, getter[4:])
    out = []
    for T in Ts:
        k = _candidates(cfg, T)[0][0]
        s = _ref_at(cfg, k, T)[q][1]
        for g, u in DIMQ:
            if g == getter:
                s *= c.R(u if g in ('get_Cp', 'get_S') else u + '/K') * (T if g in ('get_H', 'get_G') else 1.0)
        out.append(s)
    return np.array(out)


# ----------------------------------------------------------------------------- call histories
class _Params:
    """What the species' parameters are *meant* to be at this point of a history (harness-side model)."""

    def __init__(self, cfg):
        self.fam = cfg['fam']
        self.segs = [list(x) for x in _segments(cfg)]
        self.coefs = [list(map(float, v)) for v in _seg_coefs(cfg)]
        self.units = cfg.get('units')
        self.listing = _listing(cfg)
        self.break0 = self.segs[0][1]

    def R(self):
        if self.fam != 'shomate':
            return None
        from pmutt import constants as c
        return c.R(self.units)


def _hist_events(cfg):
    nseg = len(_segments(cfg))
    return [e for e in HIST_EVENTS
            if not (e == 'par:break' and nseg < 2) and not (e == 'par:units' and cfg['fam'] != 'shomate')]


def _hist_temps(cfg, dtype):
    """(base, alt): three temperatures each, inside the range, not monotone.  With two or more segments
    base = [second segment, first segment, the break point between them]; alt replaces every element."""
    segs = _segments(cfg)
    if dtype == 'int':
        ints = _int_points(cfg)
        t0, t1 = ints[0], ints[-1]
        base, alt = [t1, t0, t0 + 1], [t1 - 1, t0 - 1, t1 + 1]
    elif len(segs) > 1:
        (lo0, hi0), (lo1, hi1) = segs[0], segs[1]
        base = [lo1 + 0.5 * (hi1 - lo1), lo0 + 0.5 * (hi0 - lo0), lo1]
        alt = [lo1 + 0.25 * (hi1 - lo1), lo0 + 0.25 * (hi0 - lo0), _up(lo1)]
    else:
        lo0, hi0 = segs[0]
        base = [lo0 + 0.5 * (hi0 - lo0), lo0, hi0]
        alt = [lo0 + 0.25 * (hi0 - lo0), _up(lo0), _dn(hi0)]
    for T in base + alt:
        if not _candidates(cfg, T)[0]:
            raise core.HarnessError('history temperature %r outside the range of %s' % (T, _key(cfg)))
    if len(set(base)) < 2 or base == alt:
        raise core.HarnessError('degenerate history buffer for %s' % _key(cfg))
    return base, alt


def _hist_make(cfg, make):
    o = _build(cfg)
    if make == 'from_dict':
        return type(o).from_dict(o.to_dict())
    if make == 'deepcopy':
        return copy.deepcopy(o)
    return o


def _clone(o, how):
    return copy.deepcopy(o) if how == 'deepcopy' else type(o).from_dict(o.to_dict())


def _assign_params(o, st, new):
    """Give the species new coefficient vectors by attribute assignment (fresh arrays)."""
    from pmutt.empirical.nasa import SingleNasa9
    st.coefs = [list(map(float, v)) for v in new]
    if st.fam == 'nasa7':
        o.a_low, o.a_high = np.array(st.coefs[0]), np.array(st.coefs[1])
    elif st.fam == 'nasa9':
        o.nasas = [SingleNasa9(T_low=st.segs[k][0], T_high=st.segs[k][1], a=np.array(st.coefs[k]))
                   for k in st.listing]
    else:
        o.a = np.array(st.coefs[0])


def _other_coefs(cfg, st):
    """A different coefficient set: the one of HIST_COEF2, or (when that is the current one) 1.25 x the original."""
    new = _seg_coefs(dict(cfg, coef=HIST_COEF2))
    if [list(map(float, v)) for v in new] == st.coefs:
        new = [[1.25 * x for x in v] for v in _seg_coefs(cfg)]
    return new


def _hist_expect(st, getter, Ts, obs, adj=None):
    """Textbook values (and round-off scales) for the parameters st at the temperatures Ts, in the getter's unit;
    on a shared NASA-9 boundary the neighbour closer to the observed value is the expectation.
    adj: keyword arguments of ref.conditioned (contributions of misc models under the conditions of the call)."""
    from pmutt import constants as c
    q = {'get_Cp': 'CpoR', 'get_H': 'HoRT', 'get_S': 'SoR', 'get_G': 'GoRT'}.get(getter, getter[4:])
    unit = dict(DIMQ).get(getter)
    R = st.R()
    exp, scale = [], []
    for i, T in enumerate(Ts):
        f = 1.0
        if unit is not None:
            f = c.R(unit if getter in ('get_Cp', 'get_S') else unit + '/K') * (float(T) if getter in ('get_H', 'get_G') else 1.0)
        cands = [ref.values(ref.terms_for(st.fam, st.coefs[k], T, R)) for k in ref.containing(st.fam, st.segs, T)]
        cands = [(ref.conditioned(v, T, **adj) if adj else v)[q] for v in cands]
        if not cands:
            raise core.HarnessError('history temperature %r outside every segment' % (T,))
        v, sc = min(cands, key=lambda r: abs(r[0] * f - obs[i]) if i < len(obs) else 0.0)
        exp.append(v * f)
        scale.append(sc * abs(f))
    return exp, scale


class _HistoryBroken(Exception):
    """A clause failed in a way that makes the rest of the history meaningless (the buffer was overwritten)."""


def _hist_call(ctx, case, o, st, getter, arg, sig, buf=None):
    """One judged getter call.  arg: the buffer itself, a fresh array or a scalar."""
    is_arr = isinstance(arg, np.ndarray)
    Ts = arg.tolist() if is_arr else [arg]
    before = arg.copy() if is_arr else arg
    res = _call(o, getter, arg)
    ctx.evals()
    ctx.trans()
    if is_arr:
        for x in ([arg] if buf is None or buf is arg else [arg, buf]):
            if not ctx.true(CL_ALIAS, not (isinstance(res, np.ndarray) and np.shares_memory(res, x)), sig, case):
                raise _HistoryBroken()
        if not ctx.true(CL_INPUT, _same_array(arg, before), sig, case, arg.tolist(), Ts):
            raise _HistoryBroken()
    if not ctx.true('an array of N temperatures gives N values' if is_arr else 'a single temperature gives a single number',
                    np.size(res) == len(Ts), sig, case, list(np.shape(res)), len(Ts)):
        return None
    obs = np.ravel(np.asarray(res, dtype=float))
    exp, scale = _hist_expect(st, getter, Ts, obs)
    ctx.close(CL_HIST, obs, exp, sig, case, rtol=1e-9, atol=0.0, scale=scale)
    return res


def _params_now(o, st):
    """(observed, expected) parameters of the species, as plain lists."""
    if st.fam == 'nasa7':
        obs = [[float(o.T_low), float(np.ravel(o.T_mid)[0])], [float(np.ravel(o.T_mid)[0]), float(o.T_high)]], \
              [np.asarray(o.a_low, dtype=float).tolist(), np.asarray(o.a_high, dtype=float).tolist()]
        return obs, (st.segs, st.coefs)
    if st.fam == 'nasa9':
        singles = list(o.nasas)
        by_seg = sorted(range(len(singles)), key=lambda j: st.listing[j])
        obs = [[float(singles[j].T_low), float(singles[j].T_high)] for j in by_seg], \
              [np.asarray(singles[j].a, dtype=float).tolist() for j in by_seg]
        return obs, (st.segs, st.coefs)
    return ([[float(o.T_low), float(o.T_high)]], [np.asarray(o.a, dtype=float).tolist()], o.units), \
           (st.segs, st.coefs, st.units)


def _check_hist(case, ctx):
    """seq = [getter, event, getter, (event, getter ...)]: the getters are called on ONE buffer object."""
    cfg, make, dtype, seq = case['obj'], case['make'], case['dtype'], case['seq']
    cls = _clsname(cfg)
    base, alt = _hist_temps(cfg, dtype)
    np_dtype = np.int64 if dtype == 'int' else np.float64
    o, st = _hist_make(cfg, make), _Params(cfg)
    B = np.array(base, dtype=np_dtype)
    others = {}
    ctx.tag('hist:make=' + make)
    ctx.tag('hist:dtype=' + dtype)
    sigT = 'ndarray' + (':int' if dtype == 'int' else '')
    try:
        _hist_steps(ctx, case, cfg, o, st, B, base, alt, others)
    except _HistoryBroken:
        return
    obs, exp = _params_now(o, st)
    ctx.true(CL_PARAMS, obs == exp,
             {'cls': cls, 'T': sigT, 'after': seq[-2].split(':')[0], 'make': make, 'on': 'self'}, case, obs, exp)
    for name, (o2, st2) in sorted(others.items()):
        obs, exp = _params_now(o2, st2)
        ctx.true(CL_PARAMS, obs == exp, {'cls': cls, 'T': sigT, 'after': seq[-2].split(':')[0], 'make': make, 'on': name},
                 case, obs, exp)


def _hist_steps(ctx, case, cfg, o, st, B, base, alt, others):
    make, dtype, seq = case['make'], case['dtype'], case['seq']
    cls = _clsname(cfg)
    np_dtype = np.int64 if dtype == 'int' else np.float64
    sigT = 'ndarray' + (':int' if dtype == 'int' else '')
    last, after = None, 'start'
    for step, item in enumerate(seq):
        if step % 2 == 0:
            sig = {'cls': cls, 'getter': item, 'T': sigT, 'after': after, 'make': make, 'on': 'self'}
            last = _hist_call(ctx, case, o, st, item, B, sig)
            continue
        ev, after = item, item.split(':')[0]        # the signature names the class of event, the case the event
        g = seq[step - 1]
        ctx.tag('hist:ev=' + ev)
        ctx.trans()
        sig = {'cls': cls, 'getter': g, 'T': sigT, 'after': after, 'make': make}
        if ev == 'again':
            pass
        elif ev == 'buf:all':                         # every element replaced, in place
            B[:] = alt if B[0] == base[0] else base
        elif ev == 'buf:item':                        # one element moved into the other segment, in place
            B[1] = alt[0] if B[1] != alt[0] else base[1]
        elif ev == 'buf:reverse':
            B[:] = B[::-1].copy()
        elif ev == 'res:clobber':                     # the caller reuses the array it was handed
            if isinstance(last, np.ndarray) and last.flags.writeable:
                last[...] = -12345.678
                ctx.tag('hist:res-clobbered')
        elif ev == 'par:assign':
            _assign_params(o, st, _other_coefs(cfg, st))
        elif ev == 'par:item':                        # coefficient arrays edited in place
            j = 2 if st.fam == 'nasa9' else 0
            if st.fam == 'nasa7':
                o.a_low[j] += 1.0
                o.a_high[j] += 1.0
            elif st.fam == 'nasa9':
                for single in o.nasas:
                    single.a[j] += 1.0
            else:
                o.a[j] += 10.0
            for v in st.coefs:
                v[j] += 10.0 if st.fam == 'shomate' else 1.0
        elif ev == 'par:break':                       # the first break point moves up past base[0] (or back)
            lo1, hi1 = _segments(cfg)[1]
            nb = lo1 + 0.75 * (hi1 - lo1) if st.segs[0][1] == st.break0 else st.break0
            moved = [T for T in B.tolist() if (T < nb) != (T < st.segs[0][1])]
            if moved:
                ctx.tag('hist:break-moved-an-element')
            st.segs[0][1] = st.segs[1][0] = nb
            if st.fam == 'nasa7':
                o.T_mid = nb
            else:
                o.nasas[st.listing.index(0)].T_high = nb
                o.nasas[st.listing.index(1)].T_low = nb
        elif ev == 'par:units':
            st.units = UNITS_Q[(UNITS_Q.index(st.units) + 1) % len(UNITS_Q)] if st.units in UNITS_Q else UNITS_Q[0]
            o.units = st.units
        elif ev == 'other:call':                      # another species (other coefficients) evaluates the same buffer
            if 'other' not in others:
                cfg2 = dict(cfg, coef=HIST_COEF2)
                others['other'] = (_build(cfg2), _Params(cfg2))
            o2, st2 = others['other']
            _hist_call(ctx, case, o2, st2, g, B, dict(sig, on='other'))
        elif ev == 'fresh:call':                      # the same species evaluates another array in between
            other = alt if B[0] == base[0] else base
            _hist_call(ctx, case, o, st, g, np.array(other, dtype=np_dtype), dict(sig, on='self'), buf=B)
        elif ev == 'scalar:call':
            _hist_call(ctx, case, o, st, g, B.tolist()[0], dict(sig, T='int' if dtype == 'int' else 'scalar', on='self'))
        elif ev in ('deepcopy:edit', 'dict:edit'):    # a clone gets other coefficients and is evaluated
            o3, st3 = _clone(o, ev.split(':')[0] if ev != 'dict:edit' else 'from_dict'), copy.deepcopy(st)
            _assign_params(o3, st3, _other_coefs(cfg, st3))
            _hist_call(ctx, case, o3, st3, g, B, dict(sig, on='clone'))
        else:
            raise core.HarnessError('unknown history event %r' % (ev,))


def _histories(cfg, tier):
    """Every history of the tier for one object: (make, dtype, seq)."""
    evs = _hist_events(cfg)
    for make in HIST_MAKES:
        for dtype in HIST_DTYPES:
            full = tier == 'thorough' or (make == 'ctor' and dtype == 'float')
            for g1 in GETTERS:
                for ev in evs:
                    for g2 in (GETTERS if full else [g1]):
                        yield make, dtype, [g1, ev, g2]
            if tier == 'thorough' and make == 'ctor':   # depth 3 on the diagonal
                for g in GETTERS:
                    for ev1 in evs:
                        for ev2 in evs:
                            yield make, dtype, [g, ev1, g, ev2, g]


def _run_hist(shard, ctx):
    cfg = _shard_cfg(shard, HIST_COEF)
    for make, dtype, seq in _histories(cfg, shard.get('hist', 'quick')):
        ctx.state(('hist', _key(cfg), make, dtype))
        case = dict(kind='hist', obj=cfg, make=make, dtype=dtype, seq=seq)
        ctx.run_case(check_case, case, {'cls': _clsname(cfg), 'getter': seq[0], 'after': seq[1].split(':')[0], 'make': make,
                                        'T': 'ndarray' + (':int' if dtype == 'int' else '')})
        ctx.trace()
        ctx.nontrivial(('hist', _key(cfg), make, dtype, '|'.join(seq)))
        if seq[1] in ('buf:item', 'par:break') and seq[0] == 'get_HoRT':
            ctx.sample(case, limit=2)


# ------------------------------------------------------------------ module-level evaluators
def _evaluators(fam, units):
    from pmutt.empirical import nasa, shomate
    if fam == 'nasa7':
        return {'CpoR': ('get_nasa_CpoR', lambda a, T: nasa.get_nasa_CpoR(a=np.array(a), T=T)),
                'HoRT': ('get_nasa_HoRT', lambda a, T: nasa.get_nasa_HoRT(a=np.array(a), T=T)),
                'SoR': ('get_nasa_SoR', lambda a, T: nasa.get_nasa_SoR(a=np.array(a), T=T))}
    if fam == 'nasa9':
        return {'CpoR': ('get_nasa9_CpoR', lambda a, T: nasa.get_nasa9_CpoR(a=np.array(a), T=T)),
                'HoRT': ('get_nasa9_HoRT', lambda a, T: nasa.get_nasa9_HoRT(a=np.array(a), T=T)),
                'SoR': ('get_nasa9_SoR', lambda a, T: nasa.get_nasa9_SoR(a=np.array(a), T=T))}

    def mk(f):
        return lambda a, T: f(a=np.array(a), T=np.array([T]), units=units)[0]
    return {'CpoR': ('get_shomate_CpoR', mk(shomate.get_shomate_CpoR)),
            'HoRT': ('get_shomate_HoRT', mk(shomate.get_shomate_HoRT)),
            'SoR': ('get_shomate_SoR', mk(shomate.get_shomate_SoR)),
            'GoRT': ('get_shomate_GoRT', mk(shomate.get_shomate_GoRT))}


def _check_lin(case, ctx):
    fam, units, T = case['fam'], case['units'], case['T']
    Tform = 'scalar'
    if isinstance(T, int):                                  # integer-typed temperature (python int / numpy integer)
        T = np.int64(T) if case.get('np') else T
        Tform = 'np.int64' if case.get('np') else 'int'
        ctx.tag('lin:T=' + Tform)
    n = NCOEF[fam]
    R = None
    if fam == 'shomate':
        from pmutt import constants as c
        R = c.R(units)
    ctx.tag('lin:' + fam)
    for q, (fname, f) in _evaluators(fam, units).items():
        sig = {'cls': fname, 'getter': fname, 'T': Tform}
        base = []
        for i in range(n):
            v = float(f(_unit(n, i), T))
            base.append(v)
            rv = ref.values(ref.terms_for(fam, _unit(n, i), T, R))[q]
            ctx.close('evaluator on a basis vector = textbook basis function', v, rv[0],
                      dict(sig, law='basis'), case, rtol=1e-9, atol=0.0, scale=rv[1])
        ctx.evals(n)
        for i in range(n):
            for j in range(i + 1, n):
                a = _unit(n, i)
                a[j] = 1.0
                ctx.close('evaluators are additive in the coefficient vector', float(f(a, T)),
                          base[i] + base[j], dict(sig, law='additive'), case, rtol=1e-12, atol=0.0,
                          scale=abs(base[i]) + abs(base[j]))
            for m in MULTIPLES:
                ctx.close('evaluators are homogeneous in the coefficient vector', float(f(_unit(n, i, m), T)),
                          m * base[i], dict(sig, law='homogeneous'), case, rtol=1e-12, atol=0.0,
                          scale=abs(m * base[i]))
        ctx.evals(n * (n - 1) // 2 + 3 * n)
        ctx.trans(n * (n - 1) // 2 + 3 * n)


def _check_modarray(case, ctx):
    """get_shomate_* document an iterable T: vector call = element-by-element calls."""
    units, Ts, name = case['units'], case['Ts'], case['coef']
    a = REALS[name]
    ctx.tag('modarray:len%d' % len(Ts))
    for q, (fname, f) in _evaluators('shomate', units).items():
        from pmutt.empirical import shomate
        res = getattr(shomate, fname)(a=np.array(a), T=np.array(Ts), units=units)
        each = [float(f(a, T)) for T in Ts]
        ctx.evals(len(Ts) + 1)
        sig = {'cls': fname, 'getter': fname, 'T': 'ndarray'}
        if ctx.true('an array of N temperatures gives N values', np.size(res) == len(Ts), sig, case,
                    list(np.shape(res)), len(Ts)):
            from pmutt import constants as c
            sc = [ref.values(ref.shomate_terms(a, T, c.R(units)))[q][1] for T in Ts]
            ctx.close('array evaluation = scalar-by-scalar evaluation', np.ravel(res), each, sig, case,
                      rtol=1e-12, atol=0.0, scale=np.array(sc))


# ----------------------------------------------------------------------------- non-default conditions
def _dress_kwargs(dress):
    """Constructor keywords of a dress (fresh model objects every time)."""
    from pmutt.mixture.cov import PiecewiseCovEffect
    kw = dict(elements=dict(ELEMENTS), phase='S')
    if 'gas' in dress:
        kw['phase'] = 'G' if dress == 'gas' else 'gas'
    if 'cov' in dress:
        kw['misc_models'] = [PiecewiseCovEffect(name_i='sp', name_j=COV['name_j'], intervals=list(COV['intervals']),
                                                slopes=list(COV['slopes']))]
    return kw


def _cond_build(cfg, dress, make='ctor'):
    from pmutt.empirical.nasa import Nasa, Nasa9, SingleNasa9
    from pmutt.empirical.shomate import Shomate
    segs, coefs, fam, kw = _segments(cfg), _seg_coefs(cfg), cfg['fam'], _dress_kwargs(dress)
    if fam == 'nasa7':
        o = Nasa(name='sp', T_low=segs[0][0], T_mid=segs[0][1], T_high=segs[1][1],
                 a_low=np.array(coefs[0]), a_high=np.array(coefs[1]), **kw)
    elif fam == 'nasa9':
        o = Nasa9(name='sp', nasas=[SingleNasa9(T_low=segs[k][0], T_high=segs[k][1], a=np.array(coefs[k]))
                                    for k in _listing(cfg)], **kw)
    else:
        o = Shomate(name='sp', T_low=segs[0][0], T_high=segs[0][1], a=np.array(coefs[0]), units=cfg['units'], **kw)
    if make == 'from_dict':
        return type(o).from_dict(o.to_dict())
    if make == 'deepcopy':
        return copy.deepcopy(o)
    return o


def _cond_adj(dress, kw, getter):
    """Textbook contribution of the dress under the keywords kw (arguments of ref.conditioned)."""
    from pmutt import constants as c
    adj = dict(lnP=0.0, Hex_oR=0.0, S_ele=0.0)
    if 'gas' in dress and 'P' in kw:
        adj['lnP'] = math.log(float(kw['P']))                       # P in bar, standard state 1 bar
    if 'cov' in dress:
        x = kw.get('x', 0.0)
        x = kw.get(COV['name_j'] + '_kwargs', {}).get('x', x)       # the per-species route wins
        adj['Hex_oR'] = ref.cov_excess_H(COV['intervals'], COV['slopes'], x) / c.R('kcal/mol/K')
    if kw.get('S_elements') and getter in ('get_SoR', 'get_GoRT', 'get_S', 'get_G'):
        adj['S_ele'] = math.fsum(c.S_elements[el] * n for el, n in sorted(ELEMENTS.items()))
    return adj


def _ccall(o, getter, T, kw, unit=None):
    kw = dict(kw)
    if getter in ('get_CpoR', 'get_HoRT', 'get_Cp', 'get_H'):
        kw.pop('S_elements', None)                                  # not a keyword of these getters
    unit = dict(DIMQ).get(getter) if unit is None else unit
    if unit is not None:
        return getattr(o, getter)(T=T, units=unit, **kw)
    return getattr(o, getter)(T=T, **kw)


def _cond_temps(cfg, ratio):
    """[(form, T or [T...])]: per segment its midpoint, every bound / break point, one python int; a float and an
    integer buffer (second segment, first segment, break point) and a shuffled array of 8."""
    segs = _segments(cfg)
    out, seen = [], set()
    for lo, hi in segs:
        for T in (lo + 0.5 * (hi - lo), lo, hi):
            if T not in seen:
                seen.add(T)
                out.append(('scalar', T))
    out.append(('int', _int_points(cfg)[-1]))
    out.append(('ndarray', _hist_temps(cfg, 'float')[0]))
    out.append(('ndarray:int', _hist_temps(cfg, 'int')[0]))
    out.append(('ndarray', dict(_arrays(cfg, ratio, [8]))['shuf']))
    return out


def _cond_judged(ctx, case, o, st, dress, getter, arg, kw, sig):
    """One judged call under the keywords kw; returns the values as a flat float array (None if the shape is wrong)."""
    is_arr = isinstance(arg, np.ndarray)
    Ts = arg.tolist() if is_arr else [arg]
    before_T, before_kw = (arg.copy() if is_arr else arg), copy.deepcopy(kw)
    res = _ccall(o, getter, arg, kw)
    ctx.evals()
    ctx.true(CL_KW, kw == before_kw and [type(v) for v in kw.values()] == [type(v) for v in before_kw.values()],
             sig, case, repr(kw), repr(before_kw))
    if is_arr:
        ctx.true(CL_INPUT, _same_array(arg, before_T), sig, case, arg.tolist(), Ts)
        ctx.true(CL_ALIAS, not (isinstance(res, np.ndarray) and np.shares_memory(res, arg)), sig, case)
    if not ctx.true('an array of N temperatures gives N values' if is_arr else 'a single temperature gives a single number',
                    np.size(res) == len(Ts), sig, case, list(np.shape(res)), len(Ts)):
        return None
    obs = np.ravel(np.asarray(res, dtype=float))
    exp, scale = _hist_expect(st, getter, Ts, obs, adj=_cond_adj(dress, kw, getter))
    ctx.close(CL_COND, obs, exp, sig, case, rtol=1e-9, atol=0.0, scale=scale)
    return obs


def _check_cond(case, ctx):
    """One species (cfg x dress x how it was made) under one set of keywords: every temperature form x every getter:
    call, [sibling species, default call, call again], identities, array = scalars; one edge per segment."""
    from pmutt import constants as c
    cfg, dress, cid, make, ratio = case['obj'], case['dress'], case['cond'], case['make'], case['ratio']
    kw = copy.deepcopy(CONDS[cid])
    keys, cls = _cond_keys(kw), _clsname(cfg)
    o, st = _cond_build(cfg, dress, make), _Params(cfg)
    sib_dress = 'plain' if dress != 'plain' else 'gas'
    sib, sib_st = _cond_build(cfg, sib_dress), _Params(cfg)
    models_before = [type(m).__name__ for m in (o.misc_models or [])]
    ctx.tag('cond:dress=' + dress)
    ctx.tag('cond:make=' + make)
    ctx.tag('cond:keys=' + keys)
    if 'P' in kw and 'gas' not in dress:
        ctx.tag('cond:P-on-a-species-without-pressure-model')
    if ('x' in kw or COV['name_j'] + '_kwargs' in kw) and 'cov' not in dress:
        ctx.tag('cond:x-on-a-species-without-coverage-model')
    if cid in ('P=1', 'x=0', 'x=0.3', 'Sel=None', 'Sel=False'):
        ctx.tag('cond:boundary-value')
    sig0 = {'cls': cls, 'dress': dress, 'keys': keys}      # how the object was made is in the case
    extras = set()
    for form, T in _cond_temps(cfg, ratio):
        ctx.tag('cond:T=' + form)
        extra = form not in extras                  # the first temperature of every form gets the in-between calls
        extras.add(form)
        arg = np.array(T, dtype=np.int64 if form.endswith(':int') else np.float64) if form.startswith('ndarray') else T
        first = {}
        for getter in GETTERS:
            sig = dict(sig0, getter=getter, T=form, on='self')
            first[getter] = obs = _cond_judged(ctx, case, o, st, dress, getter, arg, kw, sig)
            ctx.trans()
            if obs is None:
                return
            if isinstance(arg, np.ndarray):
                each = []
                for Ti in arg.tolist():
                    v = _ccall(o, getter, Ti, kw)
                    each.append(float(np.ravel(v)[0]) if np.size(v) == 1 else float('nan'))
                ctx.evals(len(each))
                _, scale = _hist_expect(st, getter, arg.tolist(), obs, adj=_cond_adj(dress, kw, getter))
                ctx.close(CL_COND_ARR, obs, each, sig, case, rtol=1e-12, atol=0.0,
                          scale=np.abs(each) + np.array(scale))
            if extra and getter in GETTERS[:4]:
                # another species of the same class with the same polynomial but another dress gets the same keywords,
                # then this species is evaluated at the defaults and once more under the conditions
                _cond_judged(ctx, case, sib, sib_st, sib_dress, getter, arg, kw, dict(sig, on='sibling', dress=sib_dress))
                if kw:
                    _cond_judged(ctx, case, o, st, dress, getter, arg, {}, dict(sig, call='default'))
                again = _cond_judged(ctx, case, o, st, dress, getter, arg, kw, dict(sig, call='again'))
                ctx.trans(3)
                if again is not None:
                    ctx.true('the same call repeated gives the same answer', bool(np.all(again == obs)),
                             dict(sig, call='again'), case, again.tolist(), obs.tolist())
        H, S, G = first['get_HoRT'], first['get_SoR'], first['get_GoRT']
        ctx.close(CL_COND_G, G, H - S, dict(sig0, getter='get_GoRT', T=form, on='self'), case,
                  rtol=1e-10, atol=0.0, scale=np.abs(H) + np.abs(S) + 1.0)
        Tf = np.asarray(arg, dtype=float)
        for u in IDENT_UNITS:
            Hd = np.ravel(np.asarray(_ccall(o, 'get_H', arg, kw, unit=u), dtype=float))
            Sd = np.ravel(np.asarray(_ccall(o, 'get_S', arg, kw, unit=u + '/K'), dtype=float))
            Gd = np.ravel(np.asarray(_ccall(o, 'get_G', arg, kw, unit=u), dtype=float))
            ctx.evals(3)
            ctx.close(CL_COND_GDIM, Gd, Hd - np.ravel(Tf) * Sd,
                      dict(sig0, getter='get_G', T=form, on='self', units='per-mass' if '/g' in u else 'per-mol'),
                      case, rtol=1e-10, atol=0.0, scale=np.abs(Hd) + np.abs(np.ravel(Tf) * Sd) + abs(c.R(u.split('/')[0] + '/mol/K')) * 1e-3)
    # one lattice edge per segment: the derivative laws with the same keywords on every call
    _, edges = _points(cfg, ratio)
    for k in range(len(_segments(cfg))):
        own = [e for e in edges if e[2] == k]
        T1, T2, _ = own[len(own) // 2]
        ctx.tag('cond:edge')
        ctx.trans()
        _edge_laws(ctx, case, cfg, o, T1, T2, k, dict(sig0, T='scalar', at='edge', on='self'), kw,
                   lambda g: _cond_adj(dress, kw, g), CL_COND_DH, CL_COND_DS)
    obs, exp = _params_now(o, st)
    ctx.true(CL_PARAMS, obs == exp, dict(sig0, T='any', on='self'), case, obs, exp)
    ctx.true('evaluation leaves the list of misc models as it was', [type(m).__name__ for m in (o.misc_models or [])]
             == models_before, dict(sig0, T='any', on='self'), case)


def _edge_laws(ctx, case, cfg, o, T1, T2, k, sig0, kw, adj_of, cl_dh, cl_ds):
    """Both derivative laws along the edge (T1, T2) of segment k, every call with the keywords kw (one 16-point panel:
    on an edge of ratio <= 1.25 the quadrature error of T^-2 ... T^4 is far below the tolerance)."""
    H1, H2 = float(_ccall(o, 'get_HoRT', T1, kw)), float(_ccall(o, 'get_HoRT', T2, kw))
    S1, S2 = float(_ccall(o, 'get_SoR', T1, kw)), float(_ccall(o, 'get_SoR', T2, kw))
    i_cp = integrate(lambda x: float(_ccall(o, 'get_CpoR', float(x), kw)), T1, T2, panels=1)
    i_cpt = integrate(lambda x: float(_ccall(o, 'get_CpoR', float(x), kw)) / x, T1, T2, panels=1)
    ctx.evals(4 + 32)
    r1, r2 = dict(_ref_at(cfg, k, T1)), dict(_ref_at(cfg, k, T2))
    for q in ('HoRT', 'SoR'):
        r1[q] = ref.conditioned(r1, T1, **adj_of('get_' + q))[q]
        r2[q] = ref.conditioned(r2, T2, **adj_of('get_' + q))[q]
    cps = max(r1['CpoR'][1], r2['CpoR'][1])
    ctx.close(cl_dh, T2 * H2 - T1 * H1, i_cp, dict(sig0, getter='get_HoRT'), case, rtol=1e-8, atol=1e-10,
              scale=T2 * r2['HoRT'][1] + T1 * r1['HoRT'][1] + cps * (T2 - T1))
    ctx.close(cl_ds, S2 - S1, i_cpt, dict(sig0, getter='get_SoR'), case, rtol=1e-8, atol=1e-10,
              scale=r2['SoR'][1] + r1['SoR'][1] + cps * math.log(T2 / T1))


def _cond_cases(cfg, tier):
    for dress in DRESSES:
        for cid in (COND_BY_DRESS[dress] if tier == 'quick' else sorted(CONDS)):
            for make in HIST_MAKES:
                if make == 'ctor' or cid == COND_MAKES[dress]:
                    yield dress, cid, make


def _run_cond(shard, ctx):
    cfg = _shard_cfg(shard, HIST_COEF)
    for dress, cid, make in _cond_cases(cfg, shard.get('hist', 'quick')):
        ctx.state(('cond', _key(cfg), dress, make))
        case = dict(kind='cond', obj=cfg, dress=dress, cond=cid, make=make, ratio=shard['ratio'])
        ctx.run_case(check_case, case, {'cls': _clsname(cfg), 'dress': dress, 'keys': _cond_keys(CONDS[cid])})
        ctx.trace()
        if cid != 'default':
            ctx.nontrivial(('cond', _key(cfg), dress, cid, make))
        if cid in ('P=25', 'P=25,x=0.45') and make == 'ctor':
            ctx.sample(case, limit=2)


CHECKS = dict(point=_check_point, edge=_check_edge, outside=_check_outside, array=_check_array,
              lin=_check_lin, modarray=_check_modarray, hist=_check_hist, cond=_check_cond, mixed=_check_mixed)


def check_case(case, ctx):
    CHECKS[case['kind']](case, ctx)


# ----------------------------------------------------------------------------- exploration
def _shard_cfg(shard, coef, **extra):
    fam = shard['fam']
    if fam == 'nasa9':
        return dict(fam=fam, b=shard['b'], n=shard['n'], order=shard['order'], coef=coef, **extra)
    if fam == 'nasa7':
        return dict(fam=fam, b=shard['b'], coef=coef, **extra)
    return dict(fam=fam, b=shard['b'], units=shard['units'], coef=coef, **extra)


def _configs(shard):
    for coef in _coef_ids(shard['fam']):
        yield _shard_cfg(shard, coef)
    if shard['b'] in INT_BOUNDS or shard.get('order') == 'gap':
        yield _shard_cfg(shard, ['int', 0])                     # integer-typed bounds and coefficients
    yield _shard_cfg(shard, HIST_COEF, phase='G')              # a gas species (a misc model is attached)


def _run_obj_shard(shard, ctx):
    ratio = shard['ratio']
    for cfg in _configs(shard):
        ctx.state(('obj', _key(cfg)))
        ctx.trace()
        cls = _clsname(cfg)
        if cfg['fam'] == 'nasa9':
            ctx.tag('nasa9:listing=' + cfg['order'])
        pts, edges = _points(cfg, ratio)
        for T in pts + _int_points(cfg):
            cand, where = _candidates(cfg, T)
            case = dict(kind='point', obj=cfg, T=T)
            ctx.run_case(check_case, case, {'cls': cls, 'T': 'int' if isinstance(T, int) else 'scalar',
                                            'at': where})
            if where != 'inside' or isinstance(T, int):
                ctx.nontrivial(('pt', _key(cfg), T))
            if where in ('T_mid', 'boundary'):
                ctx.sample(case, limit=1)
            if where != 'inside' or isinstance(T, int):
                case = dict(kind='point', obj=cfg, T=T, np=True)
                ctx.run_case(check_case, case, {'cls': cls, 'at': where,
                                                'T': 'np.int64' if isinstance(T, int) else 'np.float64'})
                ctx.nontrivial(('pt-np', _key(cfg), T))
        for T1, T2, k in edges:
            case = dict(kind='edge', obj=cfg, T1=T1, T2=T2, seg=k)
            ctx.run_case(check_case, case, {'cls': cls, 'T': 'scalar', 'at': 'edge'})
            ctx.trans()
        if cfg['fam'] == 'nasa9':
            for T, kind in _outside_points(cfg):
                for getter in GETTERS:
                    for form in ('scalar', 'ndarray-last', 'ndarray-first', 'ndarray-mid'):
                        case = dict(kind='outside', obj=cfg, T=T, getter=getter, form=form, where=kind)
                        ctx.run_case(check_case, case, {'cls': cls, 'getter': getter,
                                                        'T': 'scalar' if form == 'scalar' else 'array',
                                                        'at': 'outside'})
                        ctx.nontrivial(('out', _key(cfg), T, getter, form))
        else:
            _note_outside(cfg, ctx)
        lengths = shard.get('lengths') if cfg['coef'][0] == 'basis' else shard.get('dense', shard.get('lengths'))
        for order, Ts in _arrays(cfg, ratio, lengths):
            for cont in CONTAINERS:
                for getter in GETTERS:
                    case = dict(kind='array', obj=cfg, Ts=Ts, container=cont, getter=getter, order=order)
                    ctx.run_case(check_case, case, {'cls': cls, 'getter': getter, 'T': cont})
                    ctx.nontrivial(('arr', _key(cfg), len(Ts), order, cont, getter))
                    if len(Ts) == 7:
                        ctx.sample(case, limit=1)
        int_pts = _int_points(cfg)
        if len(int_pts) >= 1:
            Ts = int_pts + int_pts[:1]
            for cont in CONTAINERS:
                for getter in GETTERS:
                    case = dict(kind='array', obj=cfg, Ts=Ts, container=cont, getter=getter, order='rep')
                    ctx.run_case(check_case, case, {'cls': cls, 'getter': getter, 'T': cont + ':int'})
                    ctx.nontrivial(('arr-int', _key(cfg), cont, getter))


def _run_lin_shard(shard, ctx):
    fam, ratio = shard['fam'], shard['ratio']
    Ts = set()
    for lo, mid, hi in BOUNDS:
        Ts |= set(_lattice(lo, hi, ratio)) | {lo, mid, hi, _dn(mid), _up(mid)}
    Ts = sorted(Ts)
    for u in shard['units']:
        ctx.state(('lin', fam, u))
        ctx.trace()
        for T in Ts:
            case = dict(kind='lin', fam=fam, units=u, T=T)
            ctx.run_case(check_case, case, {'cls': fam, 'T': 'scalar'})
        ctx.sample(dict(kind='lin', fam=fam, units=u, T=Ts[len(Ts) // 2]), limit=1)
        for T in Ts:
            if T == int(T):
                for form in (False, True):
                    case = dict(kind='lin', fam=fam, units=u, T=int(T), np=form)
                    ctx.run_case(check_case, case, {'cls': fam, 'T': 'np.int64' if form else 'int'})
                    ctx.nontrivial(('lin-int', fam, u, int(T), form))
        if fam == 'shomate':
            for name in COEF_NAMES:
                for L in shard.get('lengths', ARRAY_LENGTHS):
                    arr = [Ts[(7 * i) % len(Ts)] for i in range(L)]
                    case = dict(kind='modarray', units=u, coef=name, Ts=arr)
                    ctx.run_case(check_case, case, {'cls': 'get_shomate_*', 'T': 'ndarray'})
                    ctx.nontrivial(('modarr', u, name, L))


def _run_mixed(shard, ctx):
    if shard['fam'] != 'nasa9':
        return
    tier = shard.get('hist', 'quick')
    for cfg in (_shard_cfg(shard, HIST_COEF), _shard_cfg(shard, HIST_COEF, phase='G')):
        for case in _mixed_cases(cfg, tier):
            ctx.state(('mixed', _key(cfg), case['nb'], case['nout']))
            ctx.run_case(check_case, case, {'cls': 'Nasa9', 'T': 'array', 'at': 'mixed'})
            ctx.trace()
            ctx.nontrivial(('mixed', _key(cfg), tuple(case['Ts']), case['dtype']))
            if case['nb'] == 1 and case['nout'] == 1 and case['order'] == 'out-last':
                ctx.sample(case, limit=1)


def run_shard(shard, ctx):
    if shard['kind'] == 'obj':
        _run_obj_shard(shard, ctx)
        _run_mixed(shard, ctx)
        _run_hist(shard, ctx)
        _run_cond(shard, ctx)
    else:
        _run_lin_shard(shard, ctx)


LEVEL_TEXT = ('Exhaustive lattice walk on real Nasa, Nasa9 and Shomate objects: every basis vector of the coefficient '
              'space and four realistic sets, on four sets of segment bounds (NASA-9 with 1-4 segments in ascending '
              'and shuffled listing), evaluated on every lattice point, bound, break point and floating-point '
              'neighbour; textbook-form value of the containing segment, G = H - S, quadrature edge laws for dH/dT = Cp '
              'and dS/dT = Cp/T on every edge, refusal outside every NASA-9 segment, array = scalar-by-scalar for all '
              'eight getters; linearity of the evaluators on all basis pairs extends the result to every coefficient vector. '
              'Call histories on freshly built, rebuilt (from_dict) and deep-copied objects: two getter calls on one temperature '
              'buffer with one of 14 events in between (buffer edited in place, returned array overwritten, parameters '
              're-assigned or edited in place, break point or fitting unit changed, another species / another array / a scalar / '
              'an edited clone evaluated), each call compared with the textbook value for the content and parameters of that '
              'moment; the caller\'s arrays and the species\' parameters must be left unchanged. Non-default conditions: every '
              'configuration as a solid, a gas, with a coverage model and with both, under every accepted keyword (P, x, '
              'CO_kwargs, S_elements, raise_error / raise_warning) on scalars, ints and arrays: textbook value plus textbook model '
              'contribution, G = H - TS dimensionless and dimensional (per mol and per mass), array = scalar-by-scalar, both '
              'derivative laws on one edge per segment, repeated / default / sibling-species calls in between. NASA-9 arrays '
              'that mix break temperatures (inside two segments), other in-range temperatures and temperatures outside every '
              'segment, in three orders and two dtypes, for all eight getters: refused if any element is outside, the '
              'scalar-by-scalar values otherwise.')
LEVEL_NOTE = ('Temperature lattice ratio 1.25 (quick) / 1.1 (thorough); Shomate in 4 (quick) / all 16 (thorough) fitting '
              'units; array lengths 1,2,3,7,50 (thorough adds 4,13,25) for the basis-vector objects and every length 1-13 and 50 '
              '(thorough 1-20, 25, 50) for the realistic, integer-typed and gas objects and the module-level Shomate evaluators, '
              'in ascending, descending, repeated and shuffled order; conditions: 40 (thorough 92) dress x keyword x make cases per '
              'configuration; '
              'histories: one event between two calls (quick: all getter pairs only for constructor-made objects with float buffers; '
              'thorough: all pairs everywhere plus two events between three calls); extrapolation of NASA-7/Shomate outside the '
              'range is recorded, not judged.')
TECHNIQUE = ('lattice walk with quadrature edge laws on the implementation, textbook reference model, linearity closure, '
             'exhaustive depth-bounded call histories')
