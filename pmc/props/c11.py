"""C11 - JSON serialisation round-trips every pMuTT object.

Shape A: explicit-state exploration of encode/decode histories.  A *state* is a real pMuTT
object built from a census recipe (class + named attribute variants, nested recipes for
species / reactions / references); an *operation* is one of

    json : text = json.dumps(o, cls=pmuttEncoder); o' = json.loads(text, object_hook=<hook>)
    dict : d = o.to_dict();                        o' = type(o).from_dict(d)

and every sequence of operations up to the stated depth is executed from every census
instance.  The hook handed to json.loads is the library's json_to_pmutt wrapped by the
harness so that it (a) snapshots the dictionary it is given, (b) calls the library hook,
(c) compares the dictionary with the snapshot and (d) calls the library hook a second
time on the same dictionary (repeatability).

Oracle (independent of to_dict/__eq__, which are the code under test): the decoded object
is compared with the object that was *constructed*, through (1) its Python class, (2) the
values of all attributes named like a constructor parameter (recursively through nested
pMuTT objects), (3) the result of every public ``get_*`` method of the class that the
constructed object can evaluate on a (T, P) lattice, (4) the re-encoded text.
"""
import copy
import importlib
import inspect
import json
import math
import re
import warnings

import numpy as np

from pmc.engine import core

ID = 'C11'
RULE = ('census = for every class of the statement a base instance, every named attribute variant '
        '(quick: one variant at a time; thorough: also every pair of variants that touch different '
        'attributes), every object made by a factory classmethod / preset, and every object edited after '
        'construction (setattr of a variant, or a public mutator); the variants include the generic value '
        'families: int for float, integer ndarrays, numpy scalars, full-precision floats, repeated / '
        'descending lists, explicit empty values, notes dictionaries whose keys collide with the '
        "encoder's own vocabulary; plus, generated from the live constructor signatures, every constructor "
        'argument given explicitly as None where its default is not None and as the falsy boundary value of its '
        "type (0, 0.0, False, '', [], {}), kept when the constructor accepts it (quick: depth 1, thorough: full "
        'depth); from every instance all sequences over {json, dict} up to the depth '
        'are executed on the real classes (edited objects: depth 1); after the comparisons of a transition '
        'the twin object decoded from the same dictionary is edited in place; per class all instances are '
        'also encoded and decoded side by side in one process and as one JSON document; an instance is '
        'non-trivial when it differs from the base instance of its class or nests another pMuTT object, '
        'and a history when it has >= 1 operation')
ASSUMPTIONS = ['attribute values are taken from the finite menus in SPEC / EXTRA / NOTES_MENU (stated in bounds)',
               'a generated boundary value (explicit None / 0 / 0.0 / False / empty string, list, dict) is a value of '
               'the argument when the constructor accepts it, except the entries of BOUNDARY_SKIP (listed in bounds)',
               'a container may change its Python type across the round trip (ndarray -> list, numpy scalar -> '
               'Python number) as long as its contents, the getters and the re-encoded text are unchanged',
               'getters are compared only where the constructed object itself can evaluate them',
               'assignment after construction is explored only where it leaves the object in exactly the state '
               '(all instance attributes, recursively) that the constructor produces for the same value; the other '
               'assignments are counted under model_refused',
               'a notes dictionary that imitates a *registered* class string is not in the menu (in-band signalling '
               'is how the format works); to_dict() output sharing containers with the object it describes is not '
               'examined (the statement constrains decoding)',
               'omkm phase objects, omkm.BEP, ExtendedLSR, Zacros and Network are outside the class '
               'list of the statement and are not in the census']
EXPLANATION = ('explicit-state exploration of the implementation; every history is an execution of the '
               'real encoder, object hook and from_dict/to_dict methods')

LEVEL_TEXT = ('Exhaustive exploration of encode/decode histories (json.dumps with pmuttEncoder + json.loads with '
              'json_to_pmutt, and to_dict/from_dict) of the real classes from every instance of a census that '
              'covers all 29 classes of the statement with one-at-a-time (quick) or pairwise (thorough) attribute '
              'variants, factory-made and edited-after-construction objects, nested species/reactions/references and, '
              'generated from the live constructor signatures, every argument given explicitly as None (default not None) '
              "and as the falsy boundary value of its type (0, 0.0, False, '', [], {}); "
              'class, constructor attributes, every evaluable getter, re-encoding fixpoint, dictionary immutability, '
              'repeatability, purity of encoding and independence of the decoded objects (in-place edits) checked on '
              'every transition; all instances of a class side by side in one process; complete up to the stated depth.')
LEVEL_NOTE = ('Attribute values come from finite menus; depth 3 (quick) / 5 (thorough), 1 for edited objects and (quick) for '
              'the generated boundary values, which are not paired with other variants; getters on '
              'a 2-point (quick) or 5-point (thorough) (T,P) lattice with scalar arguments only.')
TECHNIQUE = 'explicit-state exploration of operation histories on the implementation, constructed-object oracle'

OPS = ['json', 'dict']
DEPTH = {'quick': 3, 'thorough': 5}
LATTICE = {'quick': [(300.0, 0.5), (900.0, 2.0)],
           'thorough': [(300.0, 0.5), (900.0, 2.0), (300.0, 2.0), (900.0, 0.5), (1200.0, 1.0)]}
N_SHARDS = {'quick': 32, 'thorough': 64}

# ----------------------------------------------------------------------------- census
A_LOW = [3.5, 1.0e-3, -2.0e-7, 3.0e-11, -4.0e-15, -1000.0, 5.0]
A_HIGH = [3.2, 1.2e-3, -3.0e-7, 4.0e-11, -5.0e-15, -900.0, 6.0]
A_LOW2 = [2.5, 2.0e-3, -1.0e-7, 1.0e-11, -2.0e-15, -30000.0, 4.0]
A_HIGH2 = [2.7, 1.5e-3, -2.0e-7, 2.0e-11, -1.0e-15, -29900.0, 4.5]
A9 = [1.0e4, -50.0, 3.0, 1.0e-3, -1.0e-7, 1.0e-11, -1.0e-15, -1000.0, 5.0]
A9B = [2.0e4, -40.0, 3.1, 0.9e-3, -1.1e-7, 1.2e-11, -0.9e-15, -950.0, 5.5]
SHO = [20.786, 2.8e-7, -1.46e-7, 1.09e-8, -3.66e-8, -6.197, 179.999, 0.0]
SHO2 = [30.092, 6.832514, 6.793435, -2.53448, 0.082139, -250.881, 223.3967, -241.8264]


def R(name):
    return {'$r': name}


def NP(vals):
    return {'$np': vals}


SPEC = {
    # ---------------------------------------------------------------- mode models
    'FreeTrans': dict(cls='pmutt.statmech.trans:FreeTrans',
                      base=dict(n_degrees=3, molecular_weight=18.01528),
                      variants={'deg1': dict(n_degrees=1), 'deg2': dict(n_degrees=2),
                                'mw_int': dict(molecular_weight=28), 'mw_h2': dict(molecular_weight=2.01588)}),
    'HarmonicVib': dict(cls='pmutt.statmech.vib:HarmonicVib',
                        base=dict(vib_wavenumbers=[3825.434, 1650.2, 3935.9]),
                        variants={'empty': dict(vib_wavenumbers=[]), 'one': dict(vib_wavenumbers=[432.1]),
                                  'nparray': dict(vib_wavenumbers=NP([3825.434, 1650.2, 3935.9])),
                                  'imag_ignored': dict(vib_wavenumbers=[-250.5, 1650.2, 3935.9]),
                                  'imag_subst': dict(vib_wavenumbers=[-250.5, 1650.2],
                                                     imaginary_substitute=50.0),
                                  'subst_only': dict(imaginary_substitute=25.0),
                                  'ints': dict(vib_wavenumbers=[3825, 1650, 3936])}),
    'QRRHOVib': dict(cls='pmutt.statmech.vib:QRRHOVib',
                     base=dict(vib_wavenumbers=[95.5, 1650.2, 3935.9]),
                     variants={'one': dict(vib_wavenumbers=[60.25]), 'Bav': dict(Bav=2.5e-44), 'v0': dict(v0=150.0),
                               'alpha': dict(alpha=2),
                               'imag_subst': dict(vib_wavenumbers=[-250.5, 1650.2], imaginary_substitute=50.0),
                               'nparray': dict(vib_wavenumbers=NP([95.5, 1650.2])),
                               'np_ints': dict(vib_wavenumbers=NP([95, 1650]))}),
    'EinsteinVib': dict(cls='pmutt.statmech.vib:EinsteinVib', base=dict(einstein_temperature=300.0),
                        variants={'u': dict(interaction_energy=-0.25), 'theta': dict(einstein_temperature=85.5),
                                  'theta_int': dict(einstein_temperature=450)}),
    'DebyeVib': dict(cls='pmutt.statmech.vib:DebyeVib',
                     base=dict(debye_temperature=300.0, interaction_energy=0.0),
                     variants={'u': dict(interaction_energy=-0.25), 'theta': dict(debye_temperature=85.5)}),
    'RigidRotor': dict(cls='pmutt.statmech.rot:RigidRotor',
                       base=dict(symmetrynumber=2, rot_temperatures=[39.4, 20.9, 13.4], geometry='nonlinear'),
                       variants={'linear': dict(rot_temperatures=[87.6], geometry='linear'),
                                 'sym1': dict(symmetrynumber=1), 'sym12f': dict(symmetrynumber=12.0),
                                 'monatomic': dict(symmetrynumber=1, rot_temperatures=None, geometry='monatomic'),
                                 'monatomic_empty': dict(symmetrynumber=1, rot_temperatures=[],
                                                         geometry='monatomic'),
                                 'nparray': dict(rot_temperatures=NP([39.4, 20.9, 13.4])),
                                 'np_ints': dict(rot_temperatures=NP([39, 21, 13]))}),
    'GroundStateElec': dict(cls='pmutt.statmech.elec:GroundStateElec',
                            base=dict(potentialenergy=-14.2209, spin=0.0),
                            variants={'radical': dict(spin=0.5), 'triplet': dict(spin=1.0),
                                      'default_energy': dict(potentialenergy=None),
                                      'D0': dict(D0=4.52), 'zero': dict(potentialenergy=0.0)}),
    'EmptyNucl': dict(cls='pmutt.statmech.nucl:EmptyNucl', base={}, variants={}),
    'EmptyMode': dict(cls='pmutt.statmech:EmptyMode', base={}, variants={}),
    'ConstantMode': dict(cls='pmutt.statmech:ConstantMode', base={},
                         variants={'q': dict(q=2.5), 'Cv': dict(Cv=1.0e-4), 'Cp': dict(Cp=2.0e-4), 'U': dict(U=-0.75),
                                   'H': dict(H=-0.7), 'S': dict(S=3.0e-4), 'F': dict(F=-0.9), 'G': dict(G=-0.85),
                                   'notes_str': dict(notes='fitted by hand'),
                                   'notes_dict': dict(notes={'source': 'fit', 'rev': 2})}),
    'GasPressureAdj': dict(cls='pmutt.empirical:GasPressureAdj', base={}, variants={}),
    'IdealGasEOS': dict(cls='pmutt.eos:IdealGasEOS', base={}, variants={}),
    'vanDerWaalsEOS': dict(cls='pmutt.eos:vanDerWaalsEOS', base=dict(a=0.547, b=3.05e-5),
                           variants={'a': dict(a=0.136), 'b': dict(b=3.2e-5), 'ints': dict(a=1, b=0)}),
    'CatSite': dict(cls='pmutt.chemkin:CatSite',
                    base=dict(name='PT(S)', site_density=2.1671e-9, density=21.45, bulk_specie='PT(B)'),
                    variants={'name': dict(name='RU(T)'), 'site_density': dict(site_density=1.5e-9),
                              'density_int': dict(density=12), 'bulk': dict(bulk_specie='RU(B)')}),
    'PiecewiseCovEffect': dict(cls='pmutt.mixture.cov:PiecewiseCovEffect',
                               base=dict(name_i='H(S)', name_j='O(S)', intervals=[0.0, 0.5], slopes=[10.0, 25.0]),
                               variants={'name': dict(name='i_0001'), 'self': dict(name_j='H(S)'),
                                         'one': dict(intervals=[0.0], slopes=[-3.5]),
                                         'three': dict(intervals=[0.0, 0.25, 0.75], slopes=[0.0, -10.0, 40.0]),
                                         'ints': dict(intervals=[0, 1], slopes=[5, 7])}),
    # ---------------------------------------------------------------- species
    'StatMech': dict(cls='pmutt.statmech:StatMech',
                     base=dict(name='H2O', trans_model=R('FreeTrans'), vib_model=R('HarmonicVib'),
                               rot_model=R('RigidRotor'), elec_model=R('GroundStateElec'),
                               nucl_model=R('EmptyNucl'), elements={'H': 2, 'O': 1}),
                     variants={'as_H2': dict(name='H2', trans_model=R('FreeTrans+mw_h2'),
                                             vib_model=R('HarmonicVib+one'), rot_model=R('RigidRotor+linear'),
                                             elec_model=R('GroundStateElec+zero'), elements={'H': 2}),
                               'surface': dict(name='H2O(S)', trans_model=R('EmptyMode'), rot_model=R('EmptyMode'),
                                               nucl_model=R('EmptyMode')),
                               'name_none': dict(name=None), 'elements_none': dict(elements=None),
                               'smiles': dict(smiles='O'), 'notes_str': dict(notes='PBE-D3, 400 eV'),
                               'notes_dict': dict(notes={'functional': 'PBE', 'cutoff': 400}),
                               'misc_empty': dict(misc_models=[]),
                               'misc_const': dict(misc_models=[R('ConstantMode+H')]),
                               'misc_cov': dict(misc_models=[R('PiecewiseCovEffect+name')]),
                               'misc_two': dict(misc_models=[R('PiecewiseCovEffect'), R('ConstantMode+S')]),
                               'refs': dict(references=R('References')),
                               'refs_offset': dict(references=R('References+offset_only')),
                               'vib_qrrho': dict(vib_model=R('QRRHOVib')),
                               'vib_einstein': dict(vib_model=R('EinsteinVib+u')),
                               'vib_debye': dict(vib_model=R('DebyeVib+u')),
                               'elec_D0': dict(elec_model=R('GroundStateElec+D0'))}),
    'Nasa': dict(cls='pmutt.empirical.nasa:Nasa',
                 base=dict(name='H2', T_low=100.0, T_mid=500.0, T_high=1500.0, a_low=A_LOW, a_high=A_HIGH,
                           phase='G', elements={'H': 2}),
                 variants={'as_O2': dict(name='O2', elements={'O': 2}, a_low=A_LOW2, a_high=A_HIGH2),
                           'as_H2O': dict(name='H2O', elements={'H': 2, 'O': 1}, a_low=A_HIGH, a_high=A_LOW),
                           'surf': dict(name='H(S)', phase='S', elements={'H': 1}, cat_site=R('CatSite')),
                           'surf2': dict(name='H2(S)', phase='S', cat_site=R('CatSite'), n_sites=2),
                           'phase_none': dict(phase=None), 'phase_gas': dict(phase='gas'),
                           'elements_none': dict(elements=None), 'nparray': dict(a_low=NP(A_LOW), a_high=NP(A_HIGH)),
                           'T_int': dict(T_low=100, T_mid=500, T_high=1500),
                           'smiles': dict(smiles='[HH]'), 'notes_str': dict(notes='fit to NIST'),
                           'notes_dict': dict(notes={'source': 'NIST', 'year': 1998}),
                           'model': dict(model=R('StatMech+as_H2')),
                           'model_refs': dict(model=R('StatMech+as_H2+refs')),
                           'misc_cov': dict(name='H(S)', phase='S', misc_models=[R('PiecewiseCovEffect+name')]),
                           'misc_adj': dict(misc_models=[R('GasPressureAdj')]),
                           'misc_const_gas': dict(misc_models=[R('ConstantMode+S')])}),
    'SingleNasa9': dict(cls='pmutt.empirical.nasa:SingleNasa9',
                        base=dict(T_low=200.0, T_high=1000.0, a=NP(A9)),
                        variants={'high': dict(T_low=1000.0, T_high=6000.0, a=NP(A9B)),
                                  'top': dict(T_low=6000.0, T_high=20000.0, a=NP([v * 1.5 for v in A9])),
                                  'T_int': dict(T_low=200, T_high=1000)}),
    'Nasa9': dict(cls='pmutt.empirical.nasa:Nasa9',
                  base=dict(name='H2', nasas=[R('SingleNasa9')], phase='G', elements={'H': 2}),
                  variants={'two_seg': dict(nasas=[R('SingleNasa9'), R('SingleNasa9+high')]),
                            'three_seg': dict(nasas=[R('SingleNasa9'), R('SingleNasa9+high'), R('SingleNasa9+top')]),
                            'surf': dict(name='H(S)', phase='S', elements={'H': 1}, n_sites=1),
                            'phase_none': dict(phase=None), 'elements_none': dict(elements=None),
                            'smiles': dict(smiles='[HH]'), 'notes_str': dict(notes='fit to NIST'),
                            'notes_dict': dict(notes={'source': 'NIST', 'year': 1998}),
                            'model': dict(model=R('StatMech+as_H2')),
                            'misc_cov': dict(name='H(S)', phase='S', misc_models=[R('PiecewiseCovEffect+name')])}),
    'Shomate': dict(cls='pmutt.empirical.shomate:Shomate',
                    base=dict(name='Ar', T_low=298.0, T_high=6000.0, a=NP(SHO), phase='G', elements={'Ar': 1}),
                    variants={'as_H2O': dict(name='H2O', a=NP(SHO2), elements={'H': 2, 'O': 1}),
                              'units': dict(units='kJ/mol/K'), 'surf': dict(name='AR(S)', phase='S', n_sites=1),
                              'phase_none': dict(phase=None), 'elements_none': dict(elements=None),
                              'smiles': dict(smiles='[Ar]'), 'notes_str': dict(notes='Chase 1998'),
                              'notes_dict': dict(notes={'source': 'Chase', 'year': 1998}),
                              'model': dict(model=R('StatMech+as_H2')), 'a_list': dict(a=SHO),
                              'np_ints': dict(a=NP([21, 3, -1, 0, 0, -6, 180, 0])),
                              'misc_cov': dict(name='AR(S)', phase='S',
                                               misc_models=[R('PiecewiseCovEffect+name')])}),
    'Reference': dict(cls='pmutt.empirical.references:Reference',
                      base=dict(name='H2', elements={'H': 2}, T_ref=298.15, HoRT_ref=0.0,
                                model=R('StatMech+as_H2'), phase='G'),
                      variants={'as_H2O': dict(name='H2O', elements={'H': 2, 'O': 1}, HoRT_ref=-97.606,
                                               model=R('StatMech')),
                                'T_ref': dict(T_ref=300.0), 'phase_none': dict(phase=None),
                                'smiles': dict(smiles='[HH]'), 'notes_str': dict(notes='NIST webbook'),
                                'notes_dict': dict(notes={'source': 'NIST'})}),
    'References': dict(cls='pmutt.empirical.references:References',
                       base=dict(references=[R('Reference')]),
                       variants={'two': dict(references=[R('Reference'), R('Reference+as_H2O')]),
                                 'offset_only': dict(offset={'H': -1.5, 'O': 2.25}, references=None),
                                 'offset_and_refs': dict(offset={'H': -1.5}),
                                 'T_ref': dict(offset={'H': -1.5}, T_ref=300.0),
                                 'notes_in_ref': dict(references=[R('Reference+notes_str')])}),
    # ---------------------------------------------------------------- relationships / reactions
    'BEP': dict(cls='pmutt.reaction.bep:BEP', base=dict(slope=0.5, intercept=20.0, name='BEP_CH'),
                variants={'rev_delta_H': dict(descriptor='rev_delta_H'), 'reactants_H': dict(descriptor='reactants_H'),
                          'products_H': dict(descriptor='products_H'), 'delta_E': dict(descriptor='delta_E'),
                          'rev_delta_E': dict(descriptor='rev_delta_E'), 'reactants_E': dict(descriptor='reactants_E'),
                          'products_E': dict(descriptor='products_E'), 'name_none': dict(name=None),
                          'elements': dict(elements={'C': 1, 'H': 1}), 'notes_str': dict(notes='Sutton 2013'),
                          'notes_dict': dict(notes={'doi': '10.1021/x'}), 'ints': dict(slope=1, intercept=0)}),
    'Reaction': dict(cls='pmutt.reaction:Reaction',
                     base=dict(reactants=[R('Nasa'), R('Nasa+as_O2')], reactants_stoich=[1.0, 0.5],
                               products=[R('Nasa+as_H2O')], products_stoich=[1.0]),
                     variants={'ts': dict(transition_state=[R('Nasa+as_H2O+notes_str')],
                                          transition_state_stoich=[1.0]),
                               'ts_bep': dict(transition_state=[R('BEP')], transition_state_stoich=[1.0]),
                               'notes_str': dict(notes='step 3 of the mechanism'),
                               'notes_dict': dict(notes={'A': 1.0e13, 'source': 'fit'}),
                               'statmech': dict(reactants=[R('StatMech+as_H2')], reactants_stoich=[1.0],
                                                products=[R('StatMech')], products_stoich=[1.0]),
                               'stoich_int': dict(reactants_stoich=[2, 1], products_stoich=[2]),
                               'stoich_np': dict(reactants_stoich=NP([1.0, 0.5]), products_stoich=NP([1.0])),
                               'species_notes': dict(products=[R('Nasa+as_H2O+notes_dict')]),
                               'shomate': dict(products=[R('Shomate+as_H2O')])}),
    'ChemkinReaction': dict(cls='pmutt.reaction:ChemkinReaction',
                            base=dict(reactants=[R('Nasa')], reactants_stoich=[1.0],
                                      products=[R('Nasa+surf')], products_stoich=[2.0]),
                            variants={'adsorption': dict(is_adsorption=True, sticking_coeff=0.3),
                                      'adsorption_default': dict(is_adsorption=True),
                                      'beta': dict(beta=0.0),
                                      'surface': dict(reactants=[R('Nasa+surf2')], reactants_stoich=[1.0]),
                                      'ts': dict(transition_state=[R('Nasa+surf2')], transition_state_stoich=[1.0]),
                                      'notes_str': dict(notes='dissociative adsorption')}),
    'SurfaceReaction': dict(cls='pmutt.omkm.reaction:SurfaceReaction',
                            base=dict(reactants=[R('Nasa')], reactants_stoich=[1.0],
                                      products=[R('Nasa+surf')], products_stoich=[2.0]),
                            variants={'id_str': dict(id='r_0001'), 'id_int': dict(id=7),
                                      'adsorption': dict(is_adsorption=True, sticking_coeff=0.3),
                                      'adsorption_default': dict(is_adsorption=True),
                                      'A_Ea': dict(A=1.0e13, Ea=12.5), 'beta0': dict(beta=0.0),
                                      'direction': dict(direction='cleavage'),
                                      'motz_wise': dict(is_adsorption=True, use_motz_wise=True),
                                      'ts': dict(transition_state=[R('Nasa+surf2')], transition_state_stoich=[1.0]),
                                      'notes_str': dict(notes='dissociative adsorption')}),
    'LSR': dict(cls='pmutt.statmech.lsr:LSR',
                base=dict(slope=0.5, intercept=1.25, reaction=R('Reaction+statmech'),
                          surf_species=R('StatMech+surface'), gas_species=R('StatMech+as_H2')),
                variants={'floats': dict(reaction=-10.5, surf_species=-5.25, gas_species=-3.0),
                          'float_reaction': dict(reaction=-10.5),
                          'float_species': dict(surf_species=-5.25, gas_species=-3.0),
                          'defaults': dict(surf_species=0.0, gas_species=0.0),
                          'notes_str': dict(notes='Abild-Pedersen 2007'),
                          'notes_dict': dict(notes={'doi': '10.1103/x'}), 'slope': dict(slope=0.25, intercept=-2)}),
    'Reactions': dict(cls='pmutt.reaction:Reactions', base=dict(reactions=[R('Reaction')]),
                      variants={'two': dict(reactions=[R('Reaction'), R('Reaction+ts')]),
                                'empty': dict(reactions=[]), 'chemkin': dict(reactions=[R('ChemkinReaction')]),
                                'notes': dict(reactions=[R('Reaction+notes_str')]),
                                'statmech': dict(reactions=[R('Reaction+statmech')])}),
    'PhaseDiagram': dict(cls='pmutt.reaction.phasediagram:PhaseDiagram',
                         base=dict(reactions=[R('Reaction'), R('Reaction+shomate')]),
                         variants={'norm_list': dict(norm_factors=[2.0, 4.0]),
                                   'norm_np': dict(norm_factors=NP([2.0, 4.0])),
                                   'one': dict(reactions=[R('Reaction+statmech')]),
                                   'notes': dict(reactions=[R('Reaction+notes_str'), R('Reaction')])}),
}

# ----------------------------------------------------------------------------- generic value families
# (added after the wave-2 seeded changes; every family is applied to every class it makes sense for)
PI = 3.141592653589793          # PI-multiples need all 17 significant digits at any magnitude


def NPF(v):
    return {'$npf': v}          # numpy.float64 scalar


def NPI(v):
    return {'$npi': v}          # numpy.int64 scalar (what pandas / numpy hand out for whole numbers)


# free-form notes whose keys / values collide with the encoder's own vocabulary ('class', 'type', '_id'
# are the keys json_to_pmutt / remove_class look at) or nest further plain containers
NOTES_MENU = {
    'notes_class_key': {'source': 'DFT', 'class': 'oxygenate', 'family': 'C0'},
    'notes_class_nonstr': {'class': 3, 'type': ['a', 'b']},
    'notes_type_key': {'type': 'nasa', '_id': 'abc123', 'name': 'not the species name'},
    'notes_nested': {'calc': {'code': 'VASP', 'kpts': [3, 3, 1], 'class': 'slab'}, 'tags': ['a', 'b'],
                     'converged': True, 'doi': None, 'cutoff': 400.5},
    'notes_empty': {},
}

T_DATA = [300.0 + 100.0 * i for i in range(13)]
CP_DATA = [3.5 + 1.2e-3 * t - 2.0e-7 * t * t for t in T_DATA]
_SPECIES_BY_NAME = {'H2': R('Nasa'), 'O2': R('Nasa+as_O2'), 'H2O': R('Nasa+as_H2O'), 'H(S)': R('Nasa+surf'),
                    'H2(S)': R('Nasa+surf2')}
_H2_KW = dict(name='H2', elements={'H': 2}, phase='G')

EXTRA = {
    'FreeTrans': dict(variants={'precise': dict(molecular_weight=PI * 5.7),
                                'np_scalars': dict(n_degrees=NPI(3), molecular_weight=NPF(18.01528))}),
    'HarmonicVib': dict(variants={'precise': dict(vib_wavenumbers=[PI * 1000, PI * 500 / 7, 1000 / 3],
                                                  imaginary_substitute=PI * 10),
                                  'repeated': dict(vib_wavenumbers=[1650.2, 1650.2, 432.1, 432.1]),
                                  'descending': dict(vib_wavenumbers=[3935.9, 3825.434, 1650.2]),
                                  'np_items': dict(vib_wavenumbers=[NPF(3825.434), NPI(1650), 3935.9]),
                                  'np_ints': dict(vib_wavenumbers=NP([3825, 1650, 3936]))}),
    'QRRHOVib': dict(variants={'precise': dict(vib_wavenumbers=[PI * 30, PI * 500 / 7], Bav=PI * 1e-44, v0=PI * 30),
                               'np_scalars': dict(alpha=NPI(4), v0=NPF(100.0), Bav=NPF(2.5e-44)),
                               'repeated': dict(vib_wavenumbers=[95.5, 95.5, 1650.2])}),
    'EinsteinVib': dict(variants={'precise': dict(einstein_temperature=PI * 100, interaction_energy=-PI / 10),
                                  'np_scalars': dict(einstein_temperature=NPF(300.0), interaction_energy=NPI(-1))}),
    'DebyeVib': dict(variants={'precise': dict(debye_temperature=PI * 100, interaction_energy=-PI / 10),
                               'ints': dict(debye_temperature=450, interaction_energy=-1),
                               'np_scalars': dict(debye_temperature=NPF(300.0), interaction_energy=NPF(-0.25))}),
    'RigidRotor': dict(variants={'precise': dict(rot_temperatures=[PI * 10, PI * 7, PI * 4 / 3]),
                                 'np_scalars': dict(symmetrynumber=NPI(2)),
                                 'repeated': dict(rot_temperatures=[20.9, 20.9, 13.4]),
                                 'ints': dict(rot_temperatures=[39, 21, 13])}),
    'GroundStateElec': dict(variants={'precise': dict(potentialenergy=-PI * 4.5),
                                      'np_scalars': dict(potentialenergy=NPF(-14.2209), spin=NPF(0.5)),
                                      'ints': dict(potentialenergy=-14, spin=1),
                                      'np_ints': dict(potentialenergy=NPI(-14), spin=NPI(1))}),
    'ConstantMode': dict(variants={'precise': dict(q=PI, H=-PI / 4, S=PI * 1e-4, Cp=PI * 1e-5),
                                   'ints': dict(q=2, H=-1, G=-2),
                                   'np_scalars': dict(q=NPF(2.5), H=NPI(-1))}),
    'vanDerWaalsEOS': dict(variants={'precise': dict(a=PI / 6, b=PI * 1e-5),
                                     'np_scalars': dict(a=NPF(0.547), b=NPF(3.05e-5)),
                                     'np_ints': dict(a=NPI(1), b=NPI(0))},
                           factories={'crit_h2o': ('from_critical', dict(Tc=647.096, Pc=220.64)),
                                      'crit_he': ('from_critical', dict(Tc=5.1953, Pc=2.2746)),
                                      'crit_int': ('from_critical', dict(Tc=304, Pc=74))}),
    'CatSite': dict(variants={'precise': dict(site_density=PI * 1e-9, density=PI * 7),
                              'np_scalars': dict(site_density=NPF(2.1671e-9), density=NPI(21))}),
    'PiecewiseCovEffect': dict(variants={'precise': dict(intervals=[0.0, PI / 10], slopes=[PI * 3, -PI * 1e-3]),
                                         'np_float': dict(intervals=NP([0.0, 0.5]), slopes=NP([10.0, 25.0])),
                                         'np_ints': dict(intervals=NP([0, 1]), slopes=NP([5, 7])),
                                         'np_items': dict(intervals=[NPF(0.0), NPF(0.5)], slopes=[NPI(10), NPF(25.0)]),
                                         'repeated': dict(intervals=[0.0, 0.5, 0.5], slopes=[10.0, 10.0, 25.0])},
                               mutators={'insert': ('insert', dict(interval=0.25, slope=-4.0)),
                                         'insert_top': ('insert', dict(interval=0.9, slope=7)),
                                         'pop': ('pop', dict(i=1))}),
    'StatMech': dict(variants={'precise': dict(trans_model=R('FreeTrans+precise'), vib_model=R('HarmonicVib+precise'),
                                               rot_model=R('RigidRotor+precise'),
                                               elec_model=R('GroundStateElec+precise')),
                               'elements_np': dict(elements={'H': NPI(2), 'O': NPI(1)}),
                               'elements_frac': dict(elements={'H': 2.0, 'O': 0.5})},
                     factories={'idealgas': ('__init__', {'$preset': 'idealgas', 'name': 'H2O',
                                                          'elements': {'H': 2, 'O': 1}, 'molecular_weight': 18.01528,
                                                          'vib_wavenumbers': [3825.434, 1650.2, 3935.9],
                                                          'potentialenergy': -14.2209, 'spin': 0.0,
                                                          'geometry': 'nonlinear',
                                                          'rot_temperatures': [39.4, 20.9, 13.4],
                                                          'symmetrynumber': 2}),
                                'harmonic': ('__init__', {'$preset': 'harmonic', 'name': 'H2O(S)',
                                                          'vib_wavenumbers': NP([3825, 1650, 3936, 200, 150, 90]),
                                                          'potentialenergy': NPF(-14.9), 'spin': 0})}),
    'Nasa': dict(variants={'precise': dict(a_low=[v * PI / 3 for v in A_LOW], a_high=[v * PI / 3 for v in A_HIGH],
                                           T_mid=PI * 150),
                           'np_scalars': dict(T_low=NPF(100.0), T_mid=NPF(500.0), T_high=NPF(1500.0)),
                           'np_ints': dict(a_low=NP([3, 0, 0, 0, 0, -1000, 5]), a_high=NP([3, 0, 0, 0, 0, -900, 6]),
                                           T_low=NPI(100), T_mid=NPI(500), T_high=NPI(1500)),
                           'int_lists': dict(a_low=[3, 0, 0, 0, 0, -1000, 5], a_high=[3, 0, 0, 0, 0, -900, 6]),
                           'elements_np': dict(elements={'H': NPI(2)}),
                           'n_sites_np': dict(name='H2(S)', phase='S', n_sites=NPI(2))},
                 factories={'from_model': ('from_model', dict(_H2_KW, model=R('StatMech+as_H2'), T_low=300.0,
                                                              T_high=1000.0)),
                            'from_data': ('from_data', dict(_H2_KW, T=NP(T_DATA), CpoR=NP(CP_DATA), T_ref=298.15,
                                                            HoRT_ref=-1.5, SoR_ref=15.7))}),
    'SingleNasa9': dict(variants={'precise': dict(a=NP([v * PI / 3 for v in A9])), 'a_list': dict(a=A9),
                                  'np_ints': dict(a=NP([10000, -50, 3, 0, 0, 0, 0, -1000, 5])),
                                  'int_list': dict(a=[10000, -50, 3, 0, 0, 0, 0, -1000, 5]),
                                  'np_scalars': dict(T_low=NPF(200.0), T_high=NPI(1000))}),
    'Nasa9': dict(variants={'precise': dict(nasas=[R('SingleNasa9+precise')]),
                            'desc_seg': dict(nasas=[R('SingleNasa9+high'), R('SingleNasa9')]),
                            'seg_lists': dict(nasas=[R('SingleNasa9+a_list')]),
                            'elements_np': dict(elements={'H': NPI(2)})},
                  factories={'from_model': ('from_model', dict(_H2_KW, model=R('StatMech+as_H2'), T_low=300.0,
                                                               T_high=2000.0)),
                             'from_data': ('from_data', dict(_H2_KW, T=NP(T_DATA), CpoR=NP(CP_DATA), T_ref=298.15,
                                                             HoRT_ref=-1.5, SoR_ref=15.7))}),
    'Shomate': dict(variants={'precise': dict(a=NP([v * PI / 3 for v in SHO])),
                              'int_list': dict(a=[21, 3, -1, 0, 0, -6, 180, 0]),
                              'np_scalars': dict(T_low=NPF(298.0), T_high=NPI(6000))},
                    factories={'from_model': ('from_model', dict(_H2_KW, model=R('StatMech+as_H2'), T_low=300.0,
                                                                 T_high=1000.0)),
                               'from_data': ('from_data', dict(_H2_KW, T=NP(T_DATA), CpoR=NP(CP_DATA), T_ref=298.15,
                                                               HoRT_ref=-1.5, SoR_ref=15.7))}),
    'Reference': dict(variants={'precise': dict(HoRT_ref=-PI * 30, T_ref=PI * 95),
                                'np_scalars': dict(T_ref=NPF(298.15), HoRT_ref=NPF(0.0)),
                                'ints': dict(T_ref=298, HoRT_ref=0),
                                'np_ints': dict(T_ref=NPI(298), HoRT_ref=NPI(0))}),
    'References': dict(variants={'precise': dict(offset={'H': -PI / 2, 'O': PI * 0.7}, references=None),
                                 'offset_ints': dict(offset={'H': -1, 'O': 2}, references=None),
                                 'offset_np': dict(offset={'H': NPF(-1.5), 'O': NPI(2)}, references=None)}),
    'BEP': dict(variants={'precise': dict(slope=PI / 6, intercept=PI * 6),
                          'np_scalars': dict(slope=NPF(0.5), intercept=NPI(20))}),
    'Reaction': dict(variants={'precise': dict(reactants_stoich=[1 / 3, 2 / 3], products_stoich=[PI / 4]),
                               'stoich_np_int': dict(reactants_stoich=NP([2, 1]), products_stoich=NP([2])),
                               'stoich_np_items': dict(reactants_stoich=[NPF(1.0), NPF(0.5)],
                                                       products_stoich=[NPI(1)]),
                               'repeated': dict(reactants=[R('Nasa'), R('Nasa')], reactants_stoich=[0.5, 0.5],
                                                products=[R('Nasa')], products_stoich=[1.0]),
                               'ts_np_int': dict(transition_state=[R('Nasa+as_H2O')],
                                                 transition_state_stoich=NP([1]))},
                     factories={'from_string': ('from_string', dict(reaction_str='H2 + 0.5O2 = H2O',
                                                                    species=_SPECIES_BY_NAME)),
                                'from_string_ts': ('from_string', dict(reaction_str='2H2+O2=H2O=2H2O',
                                                                       species=_SPECIES_BY_NAME,
                                                                       notes={'class': 'oxidation'}))}),
    'ChemkinReaction': dict(variants={'precise': dict(beta=PI / 3, is_adsorption=True, sticking_coeff=PI / 10),
                                      'np_scalars': dict(beta=NPF(0.5), is_adsorption=True,
                                                         sticking_coeff=NPF(0.3)),
                                      'beta_int': dict(beta=2), 'beta_np_int': dict(beta=NPI(2)),
                                      'stoich_np_int': dict(reactants_stoich=NP([1]), products_stoich=NP([2]))},
                            factories={'from_string': ('from_string', dict(reaction_str='H2 = 2H(S)',
                                                                           species=_SPECIES_BY_NAME,
                                                                           is_adsorption=True,
                                                                           sticking_coeff=0.25))}),
    'SurfaceReaction': dict(variants={'precise': dict(A=PI * 1e13, Ea=PI * 4, beta=PI / 3),
                                      'np_scalars': dict(A=NPF(1.0e13), Ea=NPF(12.5), beta=NPF(0.5)),
                                      'np_ints': dict(beta=NPI(2)), 'ints': dict(A=1, Ea=12, beta=2),
                                      'stoich_np_int': dict(reactants_stoich=NP([1]), products_stoich=NP([2]))},
                            factories={'from_string': ('from_string', dict(reaction_str='H2 = 2H(S)',
                                                                           species=_SPECIES_BY_NAME, id='r_7',
                                                                           A=1.0e13, Ea=PI))}),
    'LSR': dict(variants={'precise': dict(slope=PI / 6, intercept=PI / 2, reaction=-PI * 3),
                          'np_scalars': dict(slope=NPF(0.5), intercept=NPF(1.25), reaction=NPF(-10.5)),
                          'ints': dict(slope=1, intercept=0, reaction=-10, surf_species=-5, gas_species=-3),
                          'np_ints': dict(slope=NPI(1), intercept=NPI(0), reaction=NPI(-10))}),
    'Reactions': dict(variants={'precise': dict(reactions=[R('Reaction+precise')]),
                                'repeated': dict(reactions=[R('Reaction'), R('Reaction')]),
                                'from_string': dict(reactions=[R('Reaction@from_string')])}),
    'PhaseDiagram': dict(variants={'precise': dict(norm_factors=[PI / 2, PI]), 'norm_ints': dict(norm_factors=[2, 4]),
                                   'norm_np_ints': dict(norm_factors=NP([2, 4]))}),
}

for _k, _sp in SPEC.items():
    if 'notes_dict' in _sp['variants']:
        for _n, _v in NOTES_MENU.items():
            _sp['variants'][_n] = dict(notes=_v)
        _sp['variants']['notes_empty_str'] = dict(notes='')          # explicit "empty" values are not "absent"
    if 'name' in _sp['base']:
        _sp['variants']['name_empty'] = dict(name='')
    if 'elements' in _sp['base']:
        _sp['variants']['elements_empty'] = dict(elements={})
    if 'smiles' in _sp['variants']:
        _sp['variants']['smiles_empty'] = dict(smiles='')
    _e = EXTRA.get(_k, {})
    for _n, _v in _e.get('variants', {}).items():
        assert _n not in _sp['variants'], (_k, _n)
        _sp['variants'][_n] = _v
    _sp['factories'] = _e.get('factories', {})
    _sp['mutators'] = _e.get('mutators', {})

# ----------------------------------------------------------------------------- boundary values (fourth round)
# Every constructor argument, found by introspection of the real constructors (following **kwargs up the
# MRO), is given (a) explicitly as None when its default is NOT None (Nasa9(n_sites=None), QRRHOVib(Bav=None),
# Shomate(units=None), StatMech(trans_model=None) ...) and (b) as the falsy boundary value of its type: 0 and
# 0.0 for numbers, False for booleans, '' for strings, [] for lists / arrays, {} for dictionaries.  The type of
# an argument is taken from its default and from the values the hand-written menus above give it.  "Legitimate"
# is decided by the library: a value the constructor refuses (exception raised inside pMuTT) is counted under
# model_refused and not explored; a value it accepts and stores must survive the round trip like any other.
# An encoder that writes a key only `if value` / `if value is not None`, or a decoder that falls back to the
# constructor default, differs exactly on these.  The decoded object is compared with the constructed one
# through its ATTRIBUTES (pMuTT's own __eq__ compares to_dict outputs and cannot see an omitted key).
BOUNDARY_VALUES = {'none': None, 'int0': 0, 'float0': 0.0, 'false': False, 'emptystr': '', 'emptylist': [],
                   'emptydict': {}}
BOUNDARY_DEPTH = {'quick': 1, 'thorough': DEPTH['thorough']}
BOUNDARY_SKIP = {}          # (class, argument, kind) -> reason: values the constructor stores unvalidated but that
#                             are not values of the argument (see notes, fourth round)
for _c in ('Reaction', 'ChemkinReaction', 'SurfaceReaction'):
    for _a in ('reactants', 'reactants_stoich', 'products', 'products_stoich', 'transition_state'):
        BOUNDARY_SKIP[(_c, _a, 'emptylist')] = (
            'a reaction with an empty side, species without coefficients, or an empty transition-state list '
            'without coefficients is not a reaction: Reaction.to_string (used by to_dict) cannot write it')
for _a in ('trans_model', 'vib_model', 'rot_model', 'elec_model', 'nucl_model'):
    BOUNDARY_SKIP[('StatMech', _a, 'none')] = (
        'None is not a mode model (every getter of such a StatMech raises); the documented value for '
        '"no such mode" is EmptyMode(), which is in the menu')
BOUNDARY_SKIP[('References', 'references', 'emptylist')] = (
    'an empty list of references has no reference temperature (the constructor computes T_ref = mean([]) = NaN); '
    'the documented value for "no references" is None, which is in the menu')
for _c in ('Nasa', 'Nasa9', 'Shomate', 'Reference'):
    BOUNDARY_SKIP[(_c, 'add_gas_P_adj', 'none')] = (
        'a documented bool that is only tested for truth at construction; the encoder writes the flag as a '
        'bool, so None comes back as False (add_gas_P_adj=False itself is in the family)')
_BOUNDARY = {}              # (class key, variant name) -> (argument, kind); filled by _ensure_boundary()


def _spec_kind(v):
    if isinstance(v, (bool, np.bool_)):
        return 'bool'
    if isinstance(v, (int, float, np.integer, np.floating)):
        return 'num'
    if isinstance(v, str):
        return 'str'
    if isinstance(v, (list, tuple, np.ndarray)):
        return 'list'
    if isinstance(v, dict):
        if '$np' in v:
            return 'list'
        if '$npf' in v or '$npi' in v:
            return 'num'
        if '$r' in v:
            return None
        return 'dict'
    return None


def _ctor_defaults(cls):
    """{constructor parameter: default (inspect._empty when required)}, following **kwargs up the MRO."""
    out = {}
    for k in cls.__mro__:
        init = k.__dict__.get('__init__')
        if init is None:
            continue
        more = False
        for p in inspect.signature(init).parameters.values():
            if p.name == 'self' or p.kind == p.VAR_POSITIONAL:
                continue
            if p.kind == p.VAR_KEYWORD:
                more = True
            elif p.name not in out:
                out[p.name] = p.default
        if not more:
            break
    return out


def _ensure_boundary():
    """Generate the boundary variants from the live constructors (once per process)."""
    if _BOUNDARY.get('done'):
        return
    for k in sorted(SPEC):
        sp = SPEC[k]
        modname, clsname = sp['cls'].split(':')
        cls = getattr(importlib.import_module(modname), clsname)
        hand = dict(sp['variants'])
        for p, default in _ctor_defaults(cls).items():
            kinds = {_spec_kind(src[p]) for src in [sp['base']] + list(hand.values()) if p in src}
            if default is not inspect._empty:
                kinds.add(_spec_kind(default))
            cands = []
            if default is not inspect._empty and default is not None:
                cands.append('none')
            cands += [c for c, need in (('int0', 'num'), ('float0', 'num'), ('false', 'bool'), ('emptystr', 'str'),
                                        ('emptylist', 'list'), ('emptydict', 'dict')) if need in kinds]
            for kind in cands:
                val = BOUNDARY_VALUES[kind]
                if (k, p, kind) in BOUNDARY_SKIP:
                    continue
                if p in sp['base'] and type(sp['base'][p]) is type(val) and sp['base'][p] == val:
                    continue                    # the base instance itself
                if any(set(v) == {p} and type(v[p]) is type(val) and v[p] == val for v in hand.values()):
                    continue                    # a hand-written variant is exactly this
                name = '%s=%s' % (p, kind)
                sp['variants'][name] = {p: copy.deepcopy(val)}
                _BOUNDARY[(k, name)] = (p, kind)
    _BOUNDARY['done'] = True


def is_boundary(recipe):
    k, vs, fac, edit = parse(recipe)
    return any((k, v) in _BOUNDARY for v in vs)


CLASSES = sorted(SPEC)

# nesting chains the census is meant to contain (anti-vacuity tags)
NO_EDIT = {}

NEST_TAGS = {'nested:species>reaction>reactions': ('Reactions', 'Reaction', 'Nasa'),
             'nested:species>reaction>phasediagram': ('PhaseDiagram', 'Reaction', 'Nasa'),
             'nested:species>reaction>lsr': ('LSR', 'Reaction', 'StatMech'),
             'nested:reference>references>statmech>nasa': ('Nasa', 'StatMech', 'References', 'Reference'),
             'nested:catsite>nasa>chemkinreaction': ('ChemkinReaction', 'Nasa', 'CatSite'),
             'nested:misc-model>species': ('StatMech', 'PiecewiseCovEffect')}

PLANNED_TAGS = (['roundtrip:%s' % k for k in CLASSES] + ['getters:%s' % k for k in CLASSES]
                + ['op:json', 'op:dict', 'depth:1', 'depth:2', 'depth:3', 'hook:dict-holding-decoded-objects',
                   'hook:plain-leaf-dict', 'value:notes-dict', 'value:ndarray', 'value:none-list',
                   'value:int-for-float', 'value:empty-list', 'value:int-ndarray', 'value:numpy-scalar',
                   'value:notes-reserved-key', 'value:notes-nested', 'value:repeated-items',
                   'value:full-precision-float', 'made-by:factory', 'made-by:setattr', 'made-by:mutator',
                   'edited-then-encoded', 'poke:list', 'poke:dict', 'poke:ndarray', 'side-by-side',
                   'side-by-side:several-objects', 'one-document:list-in-plain-dict',
                   'boundary:refused-by-constructor']
                + ['boundary:' + b_ for b_ in sorted(BOUNDARY_VALUES)]
                + sorted(NEST_TAGS))

# minimum number of distinct getters that must have been *evaluated and compared* on some instance
# of the class for the tag getters:<class> to be emitted (measured on the repaired tree, see notes)
MIN_GETTERS = {'BEP': 10, 'CatSite': 0, 'ChemkinReaction': 51, 'ConstantMode': 10, 'DebyeVib': 11, 'EinsteinVib': 11,
               'EmptyMode': 10, 'EmptyNucl': 10, 'FreeTrans': 11, 'GasPressureAdj': 10, 'GroundStateElec': 10,
               'HarmonicVib': 11, 'IdealGasEOS': 4, 'LSR': 10, 'Nasa': 17, 'Nasa9': 16, 'PhaseDiagram': 4,
               'PiecewiseCovEffect': 10, 'QRRHOVib': 10, 'Reaction': 51, 'Reactions': 2, 'Reference': 15,
               'References': 12, 'RigidRotor': 10, 'Shomate': 16, 'SingleNasa9': 10, 'StatMech': 19,
               'SurfaceReaction': 50, 'vanDerWaalsEOS': 8}


def bounds(tier):
    inst = instances(tier)
    return dict(classes=len(CLASSES), instances=len(inst), operations=OPS, depth=DEPTH[tier],
                depth_edited_objects=1, edited_instances=sum('~' in r for r in inst),
                factory_instances=sum('@' in r for r in inst), side_by_side_cases=3 * len(CLASSES),
                variant_level='single' if tier == 'quick' else 'single + disjoint pairs',
                variants_per_class={k: len(SPEC[k]['variants']) for k in CLASSES},
                factories_per_class={k: len(SPEC[k]['factories']) for k in CLASSES if SPEC[k]['factories']},
                notes_menu=sorted(NOTES_MENU),
                boundary_instances=sum(is_boundary(r) for r in inst), boundary_values=sorted(BOUNDARY_VALUES),
                boundary_depth=BOUNDARY_DEPTH[tier],
                boundary_not_explored=sorted('%s(%s=%s)' % k_ for k_ in BOUNDARY_SKIP),
                lattice_T_P=LATTICE[tier], histories_per_instance=sum(len(OPS) ** d for d in range(1, DEPTH[tier] + 1)))


def instances(tier):
    """Census recipes.  Grammar: ``Class[+variant...]`` (constructor), ``Class@factory`` (classmethod or
    preset), each optionally followed by ``~variant`` (the variant's attributes assigned with setattr
    *after* construction) or ``~!mutator`` (a public mutating method called after construction)."""
    _ensure_boundary()
    out = []
    for k in CLASSES:
        out.append(k)
        bvs = sorted(v for v in SPEC[k]['variants'] if (k, v) in _BOUNDARY)
        vs = sorted(v for v in SPEC[k]['variants'] if (k, v) not in _BOUNDARY)
        # generated boundary variants: constructor instances only (no setattr edit, no pairing)
        out += ['%s+%s' % (k, v) for v in bvs]
        out += ['%s+%s' % (k, v) for v in vs]
        out += ['%s@%s' % (k, f) for f in sorted(SPEC[k]['factories'])]
        out += ['%s~%s' % (k, v) for v in vs if v not in NO_EDIT.get(k, ())]
        out += ['%s~!%s' % (k, m) for m in sorted(SPEC[k]['mutators'])]
        if tier == 'thorough':
            for i, a in enumerate(vs):
                for b in vs[i + 1:]:
                    if set(SPEC[k]['variants'][a]) & set(SPEC[k]['variants'][b]):
                        continue
                    out.append('%s+%s+%s' % (k, a, b))
            for f in sorted(SPEC[k]['factories']):
                out += ['%s@%s~!%s' % (k, f, m) for m in sorted(SPEC[k]['mutators'])]
            for v in vs:
                out += ['%s+%s~!%s' % (k, v, m) for m in sorted(SPEC[k]['mutators'])]
    return out


def class_key(recipe):
    return re.split(r'[+@~]', recipe, 1)[0]


def parse(recipe):
    """(class key, variant names, factory name or None, edit name or None)"""
    _ensure_boundary()
    head, _, edit = recipe.partition('~')
    if '@' in head:
        k, f = head.split('@')
        return k, [], f, (edit or None)
    parts = head.split('+')
    return parts[0], parts[1:], None, (edit or None)


# relative cost of one instance (getter-heavy classes are slow): used only to balance shards
_COST = {'Reaction': 39, 'SurfaceReaction': 32, 'ChemkinReaction': 22, 'PhaseDiagram': 26, 'LSR': 23, 'BEP': 20,
         'StatMech': 14, 'Reactions': 12, 'Nasa': 9, 'Nasa9': 10, 'Shomate': 8, 'Reference': 9, 'References': 10,
         'QRRHOVib': 5, 'CatSite': 1}


def shards(tier):
    n = N_SHARDS[tier]
    inst = sorted(instances(tier), key=lambda r: (-_COST.get(class_key(r), 3), r))
    bins = [[] for _ in range(n)]
    load = [0] * n
    for r in inst:
        i = load.index(min(load))
        bins[i].append(r)
        load[i] += _COST.get(class_key(r), 3)
    out = [dict(recipes=b, depth=DEPTH[tier], tier=tier) for b in bins if b]
    out += [dict(kind='interleave', cls=k, tier=tier) for k in CLASSES]
    return out


# ----------------------------------------------------------------------------- building
def _value(spec):
    if isinstance(spec, dict):
        if '$r' in spec:
            return build(spec['$r'])
        if '$np' in spec:
            return np.array(spec['$np'])
        if '$npf' in spec:
            return np.float64(spec['$npf'])
        if '$npi' in spec:
            return np.int64(spec['$npi'])
        return {k: _value(v) for k, v in spec.items()}
    if isinstance(spec, list):
        return [_value(v) for v in spec]
    return spec


def _kwargs(recipe):
    """(class spec, keyword specification of the construction call) - the ``~edit`` part is not included."""
    k, vs, fac, _ = parse(recipe)
    sp = SPEC[k]
    if fac is not None:
        return sp, dict(sp['factories'][fac][1])
    kw = dict(sp['base'])
    for v in vs:
        kw.update(sp['variants'][v])
    return sp, kw


def _edit_spec(recipe):
    """Keyword specification of the ``~edit`` part ({} when there is none)."""
    k, _, _, edit = parse(recipe)
    if edit is None:
        return {}
    if edit.startswith('!'):
        return dict(SPEC[k]['mutators'][edit[1:]][1])
    return dict(SPEC[k]['variants'][edit])


class NotApplicable(Exception):
    """The ``~edit`` of a recipe names an attribute the constructed object does not have."""


def build(recipe):
    """Construct the real object of a census recipe."""
    k, vs, fac, edit = parse(recipe)
    sp, kw = _kwargs(recipe)
    modname, clsname = sp['cls'].split(':')
    cls = getattr(importlib.import_module(modname), clsname)
    kw = copy.deepcopy(kw)
    preset = kw.pop('$preset', None)
    vals = {a: _value(v) for a, v in kw.items()}
    if preset is not None:
        from pmutt.statmech import presets
        vals = dict(presets[preset], **vals)
    with warnings.catch_warnings():
        warnings.simplefilter('ignore')
        if fac is not None and sp['factories'][fac][0] != '__init__':
            obj = getattr(cls, sp['factories'][fac][0])(**vals)
        else:
            obj = cls(**vals)
        if edit is not None:
            es = copy.deepcopy(_edit_spec(recipe))
            if edit.startswith('!'):
                try:
                    getattr(obj, sp['mutators'][edit[1:]][0])(**{a: _value(v) for a, v in es.items()})
                except (IndexError, ValueError) as e:       # e.g. pop(1) on a one-interval coverage effect
                    raise NotApplicable('%s.%s refused by the object: %s' % (clsname, edit[1:], e))
            else:
                for a in es:
                    if not hasattr(obj, a):
                        raise NotApplicable('%s has no attribute %s' % (clsname, a))
                for a, v in es.items():
                    setattr(obj, a, _value(v))
    return obj


def _nested_classes(recipe):
    """Set of chains (tuples of class keys) from the recipe root downwards."""
    chains = set()

    def walk(spec, chain):
        if isinstance(spec, dict):
            if '$r' in spec:
                rec(spec['$r'], chain)
            elif not (set(spec) & {'$np', '$npf', '$npi'}):
                for v in spec.values():
                    walk(v, chain)
        elif isinstance(spec, list):
            for v in spec:
                walk(v, chain)

    def rec(r, chain):
        chain = chain + (class_key(r),)
        chains.add(chain)
        _, kw = _kwargs(r)
        for v in list(kw.values()) + list(_edit_spec(r).values()):
            walk(v, chain)
    rec(recipe, ())
    return chains


RESERVED_KEYS = ('class', 'type', '_id')


def _leaf_tags(v, ctx, key=None):
    """Tags for the kinds of values found anywhere inside one keyword specification."""
    if isinstance(v, dict):
        if '$np' in v:
            ctx.tag('value:ndarray')
            if all(isinstance(x, int) for x in v['$np']) and v['$np']:
                ctx.tag('value:int-ndarray')
            return
        if '$npf' in v or '$npi' in v:
            ctx.tag('value:numpy-scalar')
            return
        if '$r' in v:
            return
        if key == 'notes':
            ctx.tag('value:notes-dict')
            if any(k in RESERVED_KEYS for k in v):
                ctx.tag('value:notes-reserved-key')
            if any(isinstance(x, (dict, list)) for x in v.values()):
                ctx.tag('value:notes-nested')
        for x in v.values():
            _leaf_tags(x, ctx)
    elif isinstance(v, list):
        if v == []:
            ctx.tag('value:empty-list')
        if len(v) != len({core.dumps(x) for x in v}):
            ctx.tag('value:repeated-items')
        for x in v:
            _leaf_tags(x, ctx)
    elif isinstance(v, int) and not isinstance(v, bool):
        ctx.tag('value:int-for-float')
    elif isinstance(v, float) and v not in (0.0,) and float('%.12g' % v) != v:
        ctx.tag('value:full-precision-float')


def _value_tags(recipe, ctx):
    _, kw = _kwargs(recipe)
    k, vs, fac, edit = parse(recipe)
    if fac is not None:
        ctx.tag('made-by:factory')
    if edit is not None:
        ctx.tag('made-by:mutator' if edit.startswith('!') else 'made-by:setattr')
    for k, v in list(kw.items()) + list(_edit_spec(recipe).items()):
        if v is None and k in ('rot_temperatures', 'references'):
            ctx.tag('value:none-list')
        _leaf_tags(v, ctx, key=k)
    chains = _nested_classes(recipe)
    for tag, want in NEST_TAGS.items():
        for ch in chains:
            it = iter(ch)
            if all(any(c == w for c in it) for w in want):
                ctx.tag(tag)
                break
    return len(chains) > 1


# ----------------------------------------------------------------------------- observation
def is_pmutt(o):
    return type(o).__module__.split('.')[0] == 'pmutt' and not isinstance(o, type)


def short(cls_or_str):
    if isinstance(cls_or_str, str):
        m = re.search(r"([A-Za-z_0-9]+)'>", cls_or_str)
        return m.group(1) if m else cls_or_str
    return cls_or_str.__name__


_CTOR = {}


def ctor_params(cls):
    """Names of the constructor parameters of cls, following **kwargs up the MRO."""
    if cls in _CTOR:
        return _CTOR[cls]
    names = []
    for k in cls.__mro__:
        init = k.__dict__.get('__init__')
        if init is None:
            continue
        try:
            ps = inspect.signature(init).parameters.values()
        except (TypeError, ValueError):
            break
        more = False
        for p in ps:
            if p.name == 'self':
                continue
            if p.kind == p.VAR_KEYWORD:
                more = True
            elif p.kind != p.VAR_POSITIONAL and p.name not in names:
                names.append(p.name)
        if not more:
            break
    _CTOR[cls] = names
    return names


def canon(v, depth=0, full=False):
    """Canonical, JSON-able, type-insensitive form of a value (numbers as float, containers as
    lists, pMuTT objects as {'__class__', <constructor attributes>}; with ``full`` every instance
    attribute, private ones included)."""
    if depth > 12:
        return '<deep>'
    if v is None or isinstance(v, (bool, np.bool_)):
        return None if v is None else bool(v)
    if isinstance(v, str):
        return v
    if isinstance(v, (int, float, np.integer, np.floating)):
        f = float(v)
        if math.isnan(f):
            return 'NaN'
        if math.isinf(f):
            return 'Infinity' if f > 0 else '-Infinity'
        return f
    if isinstance(v, np.ndarray):
        return canon(v.tolist(), depth + 1, full)
    if isinstance(v, (list, tuple)):
        return [canon(x, depth + 1, full) for x in v]
    if isinstance(v, dict):
        return {str(k): canon(x, depth + 1, full) for k, x in v.items()}
    if is_pmutt(v):
        return observe(v, depth + 1, full)
    return '<%s>' % type(v).__name__


def observe(obj, depth=0, full=False):
    out = {'__class__': '%s.%s' % (type(obj).__module__, type(obj).__name__)}
    names = list(ctor_params(type(obj)))
    if full:
        names += [n for n in sorted(vars(obj)) if n not in names and (full != 'public' or not n.startswith('_'))]
    for name in names:
        try:
            val = getattr(obj, name)
        except AttributeError:
            continue
        out[name] = canon(val, depth + 1, full)
    return out


# ----------------------------------------------------------------------------- editing decoded objects
POKE = '<poke>'


def pmutt_objects_in(plain):
    """ids of the pMuTT objects held (through lists / dicts) by a dictionary handed to the hook."""
    ids = set()

    def walk(v):
        if isinstance(v, dict):
            for x in v.values():
                walk(x)
        elif isinstance(v, (list, tuple)):
            for x in v:
                walk(x)
        elif is_pmutt(v):
            ids.add(id(v))
    walk(plain)
    return ids


def containers(root, stop=()):
    """Every mutable container (list, dict, ndarray) reachable from root through items and instance
    attributes, not entering the pMuTT objects whose id is in ``stop``."""
    out, seen = [], set()

    def walk(v):
        if id(v) in seen:
            return
        if isinstance(v, (list, dict)):
            seen.add(id(v))
            out.append(v)
            for x in (list(v.values()) if isinstance(v, dict) else list(v)):
                walk(x)
        elif isinstance(v, tuple):
            for x in v:
                walk(x)
        elif isinstance(v, np.ndarray):
            seen.add(id(v))
            out.append(v)
        elif is_pmutt(v):
            if id(v) in stop:
                return
            seen.add(id(v))
            for x in list(vars(v).values()):
                walk(x)
    walk(root)
    return out


def poke(conts, ctx):
    """Edit every container in place (what a user does with o.elements['H'] = 3, cov.insert(...),
    o.a_low[0] += 1)."""
    n = 0
    for c in conts:
        if isinstance(c, list):
            c.append(POKE)
            ctx.tag('poke:list')
        elif isinstance(c, dict):
            c[POKE] = POKE
            ctx.tag('poke:dict')
        elif c.size and c.dtype.kind in 'fiu' and c.flags.writeable:
            c.flat[0] = c.flat[0] + 1
            ctx.tag('poke:ndarray')
        else:
            continue
        n += 1
    return n


def check_untouched(ctx, clause, before, after, sig, case, n):
    """before/after are canonical observations of something that must not have changed."""
    diffs = sdiff(before, after)
    if not diffs:
        ctx.true(clause, True, sig, case, observed=n)
        return True
    seen = set()
    for path, x, y in diffs:
        c, k = locate(before, path)
        s = dict(cls=c or sig['cls'], op=sig['op'], attr=str(k))
        if (s['cls'], s['attr']) in seen:
            continue
        seen.add((s['cls'], s['attr']))
        ctx.fail(clause, s, case, _brief(y), _brief(x))
    return False


CL_EDIT_DICT = 'editing a decoded object leaves the dictionary it was decoded from intact'
CL_EDIT_TWIN = 'editing a decoded object leaves another object decoded from the same dictionary unchanged'
CL_EDIT_SRC = 'editing a decoded object leaves the encoded object unchanged'
CL_ENC_PURE = 'encoding and decoding leave the encoded object unchanged'
CL_ENC_AGAIN = 'encoding the same object again gives the same output'


MISSING = '<missing>'


def sdiff(a, b, path=()):
    """Leaf differences between two canonical structures: list of (path, a_leaf, b_leaf)."""
    if isinstance(a, dict) and isinstance(b, dict):
        if ('__class__' in a) != ('__class__' in b) or a.get('__class__') != b.get('__class__'):
            return [(path, a.get('__class__', '<dict>'), b.get('__class__', '<dict>'))]
        out = []
        for k in sorted(set(a) | set(b)):
            if k not in a:
                out.append((path + (k,), MISSING, b[k]))
            elif k not in b:
                out.append((path + (k,), a[k], MISSING))
            else:
                out += sdiff(a[k], b[k], path + (k,))
        return out
    if isinstance(a, list) and isinstance(b, list):
        if len(a) != len(b):
            return [(path, a, b)]
        out = []
        for i, (x, y) in enumerate(zip(a, b)):
            out += sdiff(x, y, path + (i,))
        return out
    if type(a) is type(b) and a == b:
        return []
    return [(path, a, b)]


def _cls_of(node):
    """Short class name carried by a canonical dict ('__class__' of an observation, 'class' of a
    to_dict dictionary), else None."""
    if not isinstance(node, dict):
        return None
    c = node.get('__class__')
    if c is None:
        c = node.get('class')
        if not (isinstance(c, str) and c.startswith("<class '")):
            return None                 # e.g. a notes dictionary with an entry called 'class'
    c = str(c)
    return short(c) if "'" in c else c.split('.')[-1]


def locate(root, path):
    """(class short name, key) of the innermost class-carrying dict on the path; key is the path
    element taken inside that dict ('<self>' when the dict itself is the leaf)."""
    cls, key = _cls_of(root), '<self>'
    node = root
    for p in path:
        c = _cls_of(node)
        if c is not None:
            cls, key = c, p
        try:
            node = node[p]
        except (KeyError, IndexError, TypeError):
            return cls, key
    return cls, key


def _brief(v, n=200):
    s = core.dumps(v)
    return s if len(s) <= n else s[:n] + '...'


# ----------------------------------------------------------------------------- getters
ENERGY_UNITS = 'kJ/mol'
ENTROPY_UNITS = 'J/mol/K'


def _pool(name, params):
    pool = dict(V=0.02, n=1.0, descriptors={'H': 2, 'O': 1}, rev=False, state='reactants',
                method_name='get_HoRT', x_name='T', x_values=[300.0, 900.0], x1_name='T',
                x1_values=[300.0, 900.0], x2_name='P', x2_values=[0.5, 2.0], Vm=0.02, gas_phase=True)
    if re.search(r'^get_(delta_)?(Cv|Cp|S)(_act|_state)?$', name):
        pool['units'] = ENTROPY_UNITS
    else:
        pool['units'] = ENERGY_UNITS
    return pool


_REACTION_FOR_BEP = []


def _getter_plan(obj, lattice):
    """List of (name, kwargs) calls that the *constructed* object evaluates without raising and
    with a finite result.  Derived once per recipe from the constructed object only."""
    cls = type(obj)
    plan, skipped = [], []
    for name in sorted(n for n in dir(cls) if n.startswith('get_')):
        fn = getattr(obj, name, None)
        if not callable(fn):
            continue
        try:
            ps = inspect.signature(fn).parameters
        except (TypeError, ValueError):
            continue
        haskw = any(p.kind == p.VAR_KEYWORD for p in ps.values())
        pool = _pool(name, ps)
        fixed = {}
        ok = True
        for p in ps.values():
            if p.kind in (p.VAR_KEYWORD, p.VAR_POSITIONAL) or p.name in ('T', 'P', 'x'):
                continue
            if p.default is inspect._empty:
                if p.name == 'reaction':
                    if not _REACTION_FOR_BEP:
                        _REACTION_FOR_BEP.append(build('Reaction+statmech'))
                    fixed['reaction'] = _REACTION_FOR_BEP[0]
                elif p.name in pool:
                    fixed[p.name] = pool[p.name]
                else:
                    ok = False
        if not ok:
            skipped.append(name)
            continue
        takes = {k for k in ('T', 'P', 'x') if k in ps or haskw}
        if name in ('get_GoRT_1D', 'get_GoRT_2D'):
            takes -= {'T', 'P'} if name == 'get_GoRT_2D' else {'T'}
        points = lattice if (takes & {'T', 'P'}) else [(None, None)]
        for (T, P) in points:
            tries = []
            full = dict(fixed)
            if 'T' in takes:
                full['T'] = T
            if 'P' in takes:
                full['P'] = P
            if 'x' in takes:
                tries.append(dict(full, x=0.3))
            tries.append(full)
            if 'P' in full and haskw:
                tries.append({k: v for k, v in full.items() if k != 'P'})
            chosen = None
            for kw in tries:
                try:
                    with warnings.catch_warnings():
                        warnings.simplefilter('ignore')
                        val = fn(**kw)
                except Exception:
                    continue
                cv = canon(val)
                if _finite(cv):
                    chosen = (kw, cv)
                    break
            if chosen is None:
                skipped.append(name)
                break
            plan.append((name, chosen[0], chosen[1]))
    return plan, sorted(set(skipped))


def _finite(cv):
    if isinstance(cv, str):
        return cv not in ('NaN', 'Infinity', '-Infinity')
    if isinstance(cv, list):
        return all(_finite(x) for x in cv)
    if isinstance(cv, dict):
        return all(_finite(x) for x in cv.values())
    return True


def _split(cv):
    """(skeleton, numbers) of a canonical structure."""
    nums = []

    def rec(v):
        if isinstance(v, float):
            nums.append(v)
            return '#'
        if isinstance(v, list):
            return [rec(x) for x in v]
        if isinstance(v, dict):
            return {k: rec(x) for k, x in sorted(v.items())}
        return v
    return rec(cv), nums


# ----------------------------------------------------------------------------- operations
class Stop(Exception):
    """A clause failed in a way that leaves no object to continue with."""


def _exc_sig(sig, e):
    where = core.classify_exception(e)
    if where is None:
        raise e
    return dict(sig, exc=type(e).__name__, where=where)


def _encode(obj):
    from pmutt.io.json import pmuttEncoder
    return json.dumps(obj, cls=pmuttEncoder)


class _Hook:
    """json_to_pmutt wrapped with the dictionary-immutability and repeatability oracles."""

    def __init__(self, ctx, op, case):
        from pmutt.io.json import json_to_pmutt
        self.lib = json_to_pmutt
        self.ctx, self.op, self.case = ctx, op, case
        self.calls = 0
        self.deferred = []        # in-place edits of the twin objects, run after the comparisons

    def __call__(self, d):
        ctx = self.ctx
        if not (isinstance(d, dict) and 'class' in d):
            return self.lib(d)
        self.calls += 1
        cname = short(str(d.get('class')))
        sig = dict(cls=cname, op=self.op)
        if any(is_pmutt(v) or (isinstance(v, list) and any(is_pmutt(x) for x in v)) for v in d.values()):
            ctx.tag('hook:dict-holding-decoded-objects')
        else:
            ctx.tag('hook:plain-leaf-dict')
        before = canon(d)
        first = self.lib(d)
        check_intact(ctx, before, canon(d), sig, self.case)
        if first is d:
            return first                      # not decoded: reported by the class clause
        try:
            second = self.lib(d)
        except Exception as e:
            ctx.fail('decoding the same dictionary again succeeds', _exc_sig(sig, e), self.case,
                     '%s: %s' % (type(e).__name__, str(e)[:200]), 'no exception')
            return first
        o1, o2 = canon(first), canon(second)
        diffs = sdiff(o1, o2)
        if diffs:
            path, x, y = diffs[0]
            c, k = locate(o1, path)
            ctx.fail('decoding the same dictionary again gives the same object', dict(cls=c or cname, op=self.op,
                                                                                      attr=str(k)),
                     self.case, _brief(y), _brief(x))
        else:
            ctx.true('decoding the same dictionary again gives the same object', True, sig, self.case,
                     observed=o1.get('__class__') if isinstance(o1, dict) else None)
        # edit the second object in place (not the child objects the dictionary itself holds): neither
        # the dictionary nor the first object may notice
        if is_pmutt(second) and second is not first:
            def edit(ctx=ctx, d=d, before=before, first=first, second=second, sig=sig, case=self.case):
                full1 = canon(first, full=True)
                n = poke(containers(second, stop=pmutt_objects_in(d)), ctx)
                check_untouched(ctx, CL_EDIT_DICT, before, canon(d), sig, case, n)
                check_untouched(ctx, CL_EDIT_TWIN, full1, canon(first, full=True), sig, case, n)
            self.deferred.append(edit)
        return first


def check_intact(ctx, before, after, sig, case):
    diffs = sdiff(before, after)
    if not diffs:
        ctx.equal('decoding leaves the dictionary it was given intact', after, before, sig, case)
        return True
    seen = set()
    for path, x, y in diffs:
        c, k = locate(before, path)
        s = dict(cls=c or sig['cls'], op=sig['op'], key=str(k))
        if (s['cls'], s['key']) in seen:
            continue
        seen.add((s['cls'], s['key']))
        ctx.fail('decoding leaves the dictionary it was given intact', s, case, _brief(y), _brief(x))
    return False


def apply_op(obj, op, ctx, case):
    """One transition on the real code.  Returns the decoded object; raises Stop when the history
    cannot be continued (violation already recorded)."""
    cname = type(obj).__name__
    sig = dict(cls=cname, op=op)
    ctx.tag('op:' + op)
    ctx.trans()
    src_before = observe(obj, full='public')   # private attributes (caches) are not part of the statement
    deferred = []
    if op == 'json':
        try:
            text = _encode(obj)
        except Exception as e:
            ctx.fail('encodes without error', _exc_sig(sig, e), case,
                     '%s: %s' % (type(e).__name__, str(e)[:200]), 'JSON text')
            raise Stop()
        ctx.true('encodes without error', True, sig, case, observed=cname)
        ctx.equal(CL_ENC_AGAIN, json.loads(_encode(obj)), json.loads(text), sig, case)
        hook = _Hook(ctx, op, case)
        try:
            new = json.loads(text, object_hook=hook)
        except Exception as e:
            ctx.fail('decodes without error', _exc_sig(sig, e), case,
                     '%s: %s' % (type(e).__name__, str(e)[:200]), 'object')
            raise Stop()
        ctx.true('decodes without error', True, sig, case, observed=cname)
        plain = json.loads(text)
        check_untouched(ctx, CL_ENC_PURE, src_before, observe(obj, full='public'), sig, case, 0)
        deferred = hook.deferred
        src_mid = observe(obj, full=True)

        def edit_src(n=len(deferred)):
            check_untouched(ctx, CL_EDIT_SRC, src_mid, observe(obj, full=True), sig, case, n)
        deferred.append(edit_src)
    elif op == 'dict':
        try:
            d = obj.to_dict()
        except Exception as e:
            ctx.fail('encodes without error', _exc_sig(sig, e), case,
                     '%s: %s' % (type(e).__name__, str(e)[:200]), 'dictionary')
            raise Stop()
        ctx.true('encodes without error', True, sig, case, observed=cname)
        before = canon(d)
        ctx.equal(CL_ENC_AGAIN, canon(obj.to_dict()), before, sig, case)
        try:
            new = type(obj).from_dict(d)
        except Exception as e:
            ctx.fail('decodes without error', _exc_sig(sig, e), case,
                     '%s: %s' % (type(e).__name__, str(e)[:200]), 'object')
            raise Stop()
        ctx.true('decodes without error', True, sig, case, observed=cname)
        check_intact(ctx, before, canon(d), sig, case)
        try:
            again = type(obj).from_dict(d)
        except Exception as e:
            ctx.fail('decoding the same dictionary again succeeds', _exc_sig(sig, e), case,
                     '%s: %s' % (type(e).__name__, str(e)[:200]), 'no exception')
        else:
            o1, o2 = canon(new), canon(again)
            diffs = sdiff(o1, o2)
            if diffs:
                path, x, y = diffs[0]
                c, k = locate(o1, path)
                ctx.fail('decoding the same dictionary again gives the same object',
                         dict(cls=c or cname, op=op, attr=str(k)), case, _brief(y), _brief(x))
            else:
                ctx.true('decoding the same dictionary again gives the same object', True, sig, case,
                         observed=o1.get('__class__') if isinstance(o1, dict) else None)
            check_untouched(ctx, CL_ENC_PURE, src_before, observe(obj, full='public'), sig, case, 0)
            # edit the second decoded object in place: the dictionary, the first decoded object and the
            # object that was encoded must not notice
            if is_pmutt(again) and again is not new:
                def edit():
                    full1 = canon(new, full=True)
                    src_mid = observe(obj, full=True)
                    n = poke(containers(again), ctx)
                    check_untouched(ctx, CL_EDIT_DICT, before, canon(d), sig, case, n)
                    check_untouched(ctx, CL_EDIT_TWIN, full1, canon(new, full=True), sig, case, n)
                    check_untouched(ctx, CL_EDIT_SRC, src_mid, observe(obj, full=True), sig, case, n)
                deferred.append(edit)
        plain = before
    else:
        raise ValueError(op)

    # (1) class
    ok = ctx.equal('decodes to the same class', '%s.%s' % (type(new).__module__, type(new).__name__),
                   '%s.%s' % (type(obj).__module__, type(obj).__name__),
                   dict(sig, got=type(new).__name__), case)
    if not ok:
        raise Stop()
    return new, plain, deferred


def compare(orig, new, plan, ctx, op, case, plain):
    """Oracles (2)-(4) between the constructed object and the decoded one.  True when healthy."""
    cname = type(orig).__name__
    sig = dict(cls=cname, op=op)
    healthy = True
    # (2) identifying attributes = all constructor-parameter attributes, recursively
    o1, o2 = observe(orig), observe(new)
    diffs = sdiff(o1, o2)
    seen = set()
    for path, x, y in diffs:
        c, k = locate(o1, path)
        if isinstance(x, str) and isinstance(y, str) and (x.startswith('pmutt.') and y == '<dict>'):
            s = dict(cls=x.split('.')[-1], op=op, got='dict')
            if ('c', s['cls']) not in seen:
                seen.add(('c', s['cls']))
                ctx.fail('decodes to the same class', s, case, '<dict>', x)
            continue
        s = dict(cls=c or cname, op=op, attr=str(k))
        if (s['cls'], s['attr']) in seen:
            continue
        seen.add((s['cls'], s['attr']))
        ctx.fail('carries the same attributes as the original', s, case, _brief(y), _brief(x))
    if diffs:
        healthy = False
    else:
        ctx.equal('carries the same attributes as the original', o2, o1, sig, case)
    # (3) getters (only when the attributes agree: otherwise the root cause is already reported)
    if healthy:
        for name, kw, exp in plan:
            ctx.evals()
            gsig = dict(cls=cname, op=op, getter=name)
            try:
                with warnings.catch_warnings():
                    warnings.simplefilter('ignore')
                    val = getattr(new, name)(**kw)
            except Exception as e:
                ctx.fail('returns the same value from every getter', dict(gsig, exc=type(e).__name__), case,
                         '%s: %s' % (type(e).__name__, str(e)[:200]), _brief(exp))
                healthy = False
                continue
            sk_o, nums_o = _split(canon(val))
            sk_e, nums_e = _split(exp)
            if sk_o != sk_e:
                ctx.fail('returns the same value from every getter', gsig, case, _brief(sk_o), _brief(sk_e))
                healthy = False
            elif nums_e:
                if not ctx.close('returns the same value from every getter', nums_o, nums_e, gsig, case,
                                 rtol=1e-12, atol=1e-300):
                    healthy = False
            else:
                ctx.outcome('returns the same value from every getter', core.dumps(sk_o))
    # (4) re-encoding fixpoint
    try:
        if op in ('json', 'jsondoc'):
            plain2 = json.loads(_encode(new))
        else:
            plain2 = canon(new.to_dict())
    except Exception as e:
        ctx.fail('the decoded object encodes again', _exc_sig(sig, e), case,
                 '%s: %s' % (type(e).__name__, str(e)[:200]), 'JSON text')
        return False
    p1 = canon(plain)
    p2 = canon(plain2)
    diffs = sdiff(p1, p2)
    seen = set()
    for path, x, y in diffs:
        c, k = locate(p1, path)
        s = dict(cls=c or cname, op=op, key=str(k))
        if (s['cls'], s['key']) in seen:
            continue
        seen.add((s['cls'], s['key']))
        ctx.fail('encode(decode(encode(o))) == encode(o)', s, case, _brief(y), _brief(x))
    if diffs:
        healthy = False
    else:
        ctx.equal('encode(decode(encode(o))) == encode(o)', p2, p1, sig, case)
    return healthy


# ----------------------------------------------------------------------------- exploration
_PLANS = {}


def _plan_for(recipe, tier, ctx):
    key = (recipe, tier)
    if key not in _PLANS:
        obj = build(recipe)
        plan, skipped = _getter_plan(obj, LATTICE[tier])
        _PLANS[key] = (plan, skipped)
        for s in skipped:
            ctx.refuse('getter not evaluable on the constructed object: %s.%s' % (type(obj).__name__, s))
    return _PLANS[key][0]


def _run_history(case, ctx, check_all):
    """Execute one history from scratch on the real classes; oracles after the last operation
    (or after every operation when check_all).  Returns (healthy, final object)."""
    recipe, ops, tier = case['recipe'], case['ops'], case.get('tier', 'quick')
    orig = build(recipe)
    ctx.trace()
    plan = _plan_for(recipe, tier, ctx)
    obj = orig
    healthy = True
    for i, op in enumerate(ops):
        last = (i == len(ops) - 1)
        checking = check_all or last
        sub = ctx if checking else _Mute(ctx)
        try:
            new, plain, deferred = apply_op(obj, op, sub, case)
        except Stop:
            return False, None
        if checking:
            healthy = compare(orig, new, plan, ctx, op, case, plain)
            nviol = sum(ctx.viol_counts.values())
            for edit in deferred:
                edit()
            if not healthy or sum(ctx.viol_counts.values()) != nviol:
                return False, None
        obj = new
    return healthy, obj


class _Mute:
    """ctx stand-in for the silent prefix of a history: counts nothing, but a failure still stops."""

    def __init__(self, ctx):
        self._ctx = ctx

    def tag(self, *a, **k):
        pass

    def trans(self, *a, **k):
        pass

    def true(self, clause, cond, *a, **k):
        return bool(cond)

    def equal(self, clause, obs, exp, *a, **k):
        return core._deep_eq(obs, exp)

    def fail(self, *a, **k):
        return False

    def outcome(self, *a, **k):
        pass


def side_by_side(case, ctx):
    """All instances of one class alive in one process: every one is encoded, then every one is decoded
    (in reverse order), then every decoded object is compared with the object it was made from.  A
    value remembered per class / per name / in a module-level cache shows up here."""
    from pmutt.io.json import json_to_pmutt
    k, tier, op = case['cls'], case['tier'], case['op']
    recipes = [r for r in instances(tier) if class_key(r) == k and '~' not in r]
    objs = []
    for r in recipes:
        try:
            objs.append((r, build(r), _plan_for(r, tier, ctx)))
        except Exception as e:
            if core.classify_exception(e) is None:
                raise
    ctx.trace()
    enc = []
    dec = [None] * len(objs)
    if op == 'jsondoc':
        # the way collections are stored: ONE document, a plain dictionary (no pMuTT class; one nested plain
        # dictionary deliberately has a 'class' entry of its own) holding the list of objects
        sig = dict(cls=k, op=op)
        doc = {'objects': [o for _, o, _ in objs], 'meta': {'class': 'census', 'count': len(objs), 'tags': []}}
        try:
            text = _encode(doc)
        except Exception as e:
            ctx.fail('encodes without error', _exc_sig(sig, e), case, '%s: %s' % (type(e).__name__, str(e)[:200]),
                     'JSON text')
            return
        ctx.trans()
        try:
            back = json.loads(text, object_hook=json_to_pmutt)
        except Exception as e:
            ctx.fail('decodes without error', _exc_sig(sig, e), case, '%s: %s' % (type(e).__name__, str(e)[:200]),
                     'object')
            return
        plain_doc = json.loads(text)
        ctx.equal('plain dictionaries pass through the hook unchanged', canon(back.get('meta')) if
                  isinstance(back, dict) else '<%s>' % type(back).__name__, canon(plain_doc['meta']), sig, case)
        if not (isinstance(back, dict) and isinstance(back.get('objects'), list)
                and len(back['objects']) == len(objs)):
            ctx.fail('decodes to the same class', dict(sig, got=type(back).__name__), case,
                     _brief(canon(back)), 'dictionary with the list of %d objects' % len(objs))
            return
        enc = [json.dumps(x) for x in plain_doc['objects']]
        dec = list(back['objects'])
    else:
        for r, o, _ in objs:
            sig = dict(cls=type(o).__name__, op=op)
            try:
                enc.append(_encode(o) if op == 'json' else o.to_dict())
            except Exception as e:
                ctx.fail('encodes without error', _exc_sig(sig, e), case,
                         '%s: %s' % (type(e).__name__, str(e)[:200]), 'encoded form')
                enc.append(None)
        for i in reversed(range(len(objs))):
            if enc[i] is None:
                continue
            sig = dict(cls=type(objs[i][1]).__name__, op=op)
            ctx.trans()
            try:
                if op == 'json':
                    dec[i] = json.loads(enc[i], object_hook=json_to_pmutt)
                else:
                    dec[i] = type(objs[i][1]).from_dict(enc[i])
            except Exception as e:
                ctx.fail('decodes without error', _exc_sig(sig, e), case,
                         '%s: %s' % (type(e).__name__, str(e)[:200]), 'object')
    for i, (r, o, plan) in enumerate(objs):
        if dec[i] is None:
            continue
        ok = ctx.equal('decodes to the same class', '%s.%s' % (type(dec[i]).__module__, type(dec[i]).__name__),
                       '%s.%s' % (type(o).__module__, type(o).__name__),
                       dict(cls=type(o).__name__, op=op, got=type(dec[i]).__name__), case)
        if not ok:
            continue
        plain = json.loads(enc[i]) if op in ('json', 'jsondoc') else canon(enc[i])
        if compare(o, dec[i], plan, ctx, op, case, plain) and len(objs) > 1:
            ctx.nontrivial(('side-by-side', r, op))
    ctx.tag('side-by-side' if op != 'jsondoc' else 'one-document:list-in-plain-dict')
    if len(objs) > 1:
        ctx.tag('side-by-side:several-objects')


def check_case(case, ctx):
    if case.get('kind') == 'interleave':
        side_by_side(case, ctx)
        return
    _run_history(case, ctx, check_all=True)


def run_shard(shard, ctx):
    if shard.get('kind') == 'interleave':
        for op in OPS + ['jsondoc']:
            case = dict(kind='interleave', cls=shard['cls'], tier=shard['tier'], op=op)
            ctx.run_case(side_by_side, case, dict(cls=shard['cls'], op=op))
        return
    depth, tier = shard['depth'], shard['tier']
    for recipe in shard['recipes']:
        cname = class_key(recipe)
        nests = _value_tags(recipe, ctx)
        root = dict(recipe=recipe, ops=[], tier=tier)
        res = {}

        def construct(case_, ctx_, res=res):
            try:
                obj = build(case_['recipe'])
            except NotApplicable as e:
                res['skip'] = str(e)
                return
            except Exception as e:
                if is_boundary(case_['recipe']) and core.classify_exception(e) is not None:
                    # the constructor itself refuses the boundary value: not a legitimate value of the argument
                    res['refused'] = '%s refused by the constructor (%s)' % (case_['recipe'], type(e).__name__)
                    return
                raise
            k_, vs_, fac_, edit_ = parse(case_['recipe'])
            if edit_ is not None and not edit_.startswith('!'):
                # assignment after construction is explored only where it leaves the object in exactly the
                # state (all instance attributes, recursively) the constructor produces for the same value
                twin = build('%s+%s' % (k_, edit_))
                if sdiff(observe(obj, full=True), observe(twin, full=True)):
                    res['skip'] = 'assigning %s.%s is not equivalent to constructing with it' % (k_, edit_)
                    return
            res['obs'] = observe(obj)
            res['plan'] = _plan_for(case_['recipe'], tier, ctx_)
        if not ctx.run_case(construct, root, dict(cls=cname, op='construct')):
            continue
        if 'skip' in res:
            ctx.refuse('edit after construction not explored: %s' % res['skip'])
            continue
        if 'refused' in res:
            ctx.refuse('boundary value: ' + res['refused'])
            ctx.tag('boundary:refused-by-constructor')
            continue
        if is_boundary(recipe):
            ctx.tag('boundary:' + [_BOUNDARY[(cname, v)][1] for v in parse(recipe)[1] if (cname, v) in _BOUNDARY][0])
        if '~' in recipe:
            # an edited object that passed the filter above is, after one decode, the state reached from
            # the constructed twin (mutators: from an object constructed with the edited lists): longer
            # histories from it are those of plainly constructed census members
            depth = 1
            ctx.tag('edited-then-encoded')
        elif is_boundary(recipe):
            depth = min(shard['depth'], BOUNDARY_DEPTH[tier])
        else:
            depth = shard['depth']
        ctx.state(('s', core.dumps(res['obs'])))
        ctx.sample(root, limit=1)
        getters = {n for n, _, _ in res['plan']}
        frontier = [[]]
        all_ok = True
        for d in range(1, depth + 1):
            nxt = []
            for hist in frontier:
                for op in OPS:
                    case = dict(recipe=recipe, ops=hist + [op], tier=tier)
                    out = {}

                    def run(case_, ctx_, out=out):
                        out['ok'], out['obj'] = _run_history(case_, ctx_, check_all=False)
                    if not ctx.run_case(run, case, dict(cls=cname, op=op)):
                        all_ok = False
                        continue
                    if not out.get('ok'):
                        all_ok = False
                        continue            # violated state: reported, not expanded
                    ctx.tag('depth:%d' % d)
                    ctx.state(('s', core.dumps(observe(out['obj']))))
                    if recipe != cname or nests:
                        ctx.nontrivial((recipe, tuple(hist + [op])))
                    nxt.append(hist + [op])
                    if d == depth:
                        ctx.sample(case, limit=2)
            frontier = nxt
        if all_ok and frontier and '~' not in recipe:
            ctx.tag('roundtrip:%s' % cname)
            if len(getters) >= MIN_GETTERS[cname]:
                ctx.tag('getters:%s' % cname)
