"""C10 - the reference adjustment reproduces the experimental enthalpies it was fitted to.

Shape B (deviation-bounded product): every subset of 1-8 reference species of a 14-species menu
over the five descriptors H, C, O, N, S x {tabulated / consistent experimental data} x
{equal 298.15 K, equal 300 K, mixed} reference temperatures x {elements, another descriptor
dictionary}.  Shape A (explicit-state BFS): histories of append / extend / pop / refit on a real
References object, compared with the fit built from scratch.

Nothing of pmutt.empirical.references is used by the oracle: the composition matrix, its rank
and the residuals are formed here from the case description; offsets are *measured* through the
public getters of StatMech species with unit compositions (never read from References.offset).
"""
import itertools

import numpy as np

ID = 'C10'
RULE = ('all subsets of 1-8 reference species of a 14-species menu (5 descriptors), crossed with '
        'experimental-data mode, reference-temperature mode and descriptor dictionary up to the stated '
        'deviation level; plus BFS over append/extend/pop/refit histories of References, de-duplicated '
        'on (reference list, list last fitted).  A case is non-trivial when its composition matrix is '
        'not square full rank, or a deviation is applied, or the history contains an append and a refit')
ASSUMPTIONS = ['reference species and DFT-side models come from a fixed 14-species menu; experimental '
               'enthalpies from a fixed table or constructed from hidden per-descriptor offsets',
               'with unequal reference temperatures only the unconditional clauses (linear, T-independent, '
               'no S/Cp/Cv contribution, switch-off) are verdicts',
               'temperatures are scalars (HarmonicVib does not accept array T)']
EXPLANATION = ('exhaustive product enumeration and explicit-state BFS on the real References / StatMech '
               'classes; algebraic oracles (A^T r = 0, r = 0, hidden offsets recovered, linearity)')

R_KJ = 8.31446261815324e-3     # kJ/mol/K, data only (turns the table into HoRT numbers)

# name, composition, E_dft (eV), wavenumbers, rot temperatures, geometry, sigma, MW, dHf298 (kJ/mol)
MENU = [
    ('H2', {'H': 2}, -6.7598, [4306.18], [87.6], 'linear', 2, 2.016, 0.0),
    ('O2', {'O': 2}, -9.86, [2205.0], [2.08], 'linear', 2, 31.998, 0.0),
    ('H2O', {'H': 2, 'O': 1}, -14.2209, [3825.43, 3710.26, 1582.43], [40.1, 20.9, 13.4], 'nonlinear', 2,
     18.015, -241.826),
    ('CO', {'C': 1, 'O': 1}, -14.80, [2170.0], [2.78], 'linear', 1, 28.010, -110.53),
    ('CH4', {'C': 1, 'H': 4}, -24.04, [3019.0, 3019.0, 3019.0, 2917.0, 1534.0, 1534.0, 1306.0, 1306.0, 1306.0],
     [7.54, 7.54, 7.54], 'nonlinear', 12, 16.043, -74.6),
    ('C2H4', {'C': 2, 'H': 4}, -31.97, [3105.0, 3086.0, 3026.0, 2989.0, 1623.0, 1444.0, 1342.0, 1236.0, 949.0,
                                        943.0, 826.0], [7.0, 1.44, 1.19], 'nonlinear', 4, 28.054, 52.4),
    ('N2', {'N': 2}, -16.63, [2358.0], [2.88], 'linear', 2, 28.014, 0.0),
    ('CO2', {'C': 1, 'O': 2}, -22.96, [2349.0, 1333.0, 667.0, 667.0], [0.561], 'linear', 2, 44.009, -393.51),
    ('NH3', {'N': 1, 'H': 3}, -19.54, [3444.0, 3444.0, 3337.0, 1627.0, 1627.0, 950.0], [13.6, 13.6, 8.92],
     'nonlinear', 3, 17.031, -45.9),
    ('C3H6', {'C': 3, 'H': 6}, -48.10, [3090.0, 3010.0, 2990.0, 2950.0, 2930.0, 1650.0, 1460.0, 1440.0, 1420.0,
                                        1380.0, 1300.0, 1170.0, 1045.0, 990.0, 935.0, 912.0, 578.0, 428.0],
     [2.2, 0.45, 0.39], 'nonlinear', 1, 42.081, 20.0),
    ('O3', {'O': 3}, -14.41, [1135.0, 1089.0, 716.0], [5.1, 0.64, 0.57], 'nonlinear', 2, 47.997, 142.7),
    ('H2S', {'H': 2, 'S': 1}, -11.20, [2626.0, 2615.0, 1183.0], [14.9, 12.9, 6.8], 'nonlinear', 2, 34.08, -20.6),
    ('SO2', {'S': 1, 'O': 2}, -17.05, [1362.0, 1151.0, 518.0], [2.92, 0.495, 0.423], 'nonlinear', 2, 64.064,
     -296.8),
    ('HCN', {'H': 1, 'C': 1, 'N': 1}, -19.77, [3311.0, 2097.0, 712.0, 712.0], [2.13], 'linear', 1, 27.026, 135.1),
]
NAMES = [m[0] for m in MENU]
ELEMS = ['H', 'C', 'O', 'N', 'S']
# another descriptor dictionary: keys chosen so that their alphabetical order differs from the elements'
GROUP_OF = {'H': 'z_H', 'C': 'a_C', 'O': 'm_O', 'N': 'b_N', 'S': 'k_S'}
HIDDEN = {'H': -123.4, 'C': -310.7, 'O': -186.9, 'N': -270.2, 'S': -395.6}   # hidden offsets (consistent data)
T0 = 298.15
TEMPS = [200.0, 298.15, 1000.0]

EXP_MODES = ['table', 'consistent']
TREF_MODES = ['equal', 'all300', 'mixed']
DESC_MODES = ['elements', 'groups']
DEFAULT = dict(exp='table', tref='equal', desc='elements')

QUICK_SUB = [0, 1, 2, 3, 4, 5, 9, 10, 13]      # 9-species sub-menu used for 5-8 references in the quick tier
HIST_POOL = {'quick': [0, 2, 1, 4, 5], 'thorough': [0, 2, 1, 4, 5, 9]}
HIST_DEPTH = {'quick': 4, 'thorough': 5}
N_FIT_SHARDS = 24

PLANNED_TAGS = ['rank:square-full', 'rank:over-fullcol', 'rank:deficient', 'rank:under-fullrow',
                'exp:table', 'exp:consistent', 'tref:equal', 'tref:all300', 'tref:mixed',
                'desc:elements', 'desc:groups', 'resid:zero', 'resid:nonzero',
                'target:absent-descriptor', 'target:fractional', 'target:reference-itself',
                'target:sum-of-references', 'offset-given:no-fit', 'hist:append', 'hist:extend', 'hist:pop',
                'hist:refit', 'hist:stale', 'hist:init-offset-given', 'hist:tref-equal', 'hist:tref-byid']


def bounds(tier):
    return dict(menu=NAMES, descriptors=ELEMS, n_references='1-8',
                subsets=('all of size 1-4 of the 14-menu + all of size 5-8 of a 9-species sub-menu'
                         if tier == 'quick' else 'all of size 1-8 of the 14-menu (12910)'),
                deviation=('full product exp x T_ref x descriptor for <= 2 references, one deviation for 3-4, '
                           'default + consistent for 5-8' if tier == 'quick' else
                           'full product for <= 3 references, one deviation for 4-5, default + consistent for 6-8'),
                exp_modes=EXP_MODES, tref_modes=TREF_MODES, descriptor_modes=DESC_MODES,
                temperatures=TEMPS, history_pool=[NAMES[i] for i in HIST_POOL[tier]],
                history_depth=HIST_DEPTH[tier])


# ------------------------------------------------------------------ enumeration
def _configs(level):
    """level 'full' | 'one' | 'two' (default + consistent) | 'zero'."""
    if level == 'full':
        return [dict(exp=e, tref=t, desc=d) for e in EXP_MODES for t in TREF_MODES for d in DESC_MODES]
    out = [dict(DEFAULT)]
    if level == 'zero':
        return out
    out.append(dict(DEFAULT, exp='consistent'))
    if level == 'two':
        return out
    out += [dict(DEFAULT, tref='all300'), dict(DEFAULT, tref='mixed'), dict(DEFAULT, desc='groups')]
    return out


def _fit_cases(tier):
    n = len(MENU)
    for k in range(1, 9):
        if tier == 'quick':
            pool = range(n) if k <= 4 else QUICK_SUB
            level = 'full' if k <= 2 else ('one' if k <= 4 else 'two')
        else:
            pool = range(n)
            level = 'full' if k <= 3 else ('one' if k <= 5 else 'two')
        for sub in itertools.combinations(pool, k):
            for cfg in _configs(level):
                yield dict(kind='fit', refs=list(sub), **cfg)


def shards(tier):
    out = [dict(kind='fit', part=i, nparts=N_FIT_SHARDS) for i in range(N_FIT_SHARDS)]
    out.append(dict(kind='offset'))
    pool = HIST_POOL[tier]
    for plen in (1, 2, 3):
        for given in (False, True):
            for rot in range(3):
                order = pool[rot:] + pool[:rot]
                out.append(dict(kind='hist', init=order[:plen], pool=pool, given=given,
                                tref='equal' if (rot + plen) % 2 == 0 else 'byid', depth=HIST_DEPTH[tier]))
    return out


# ------------------------------------------------------------------ building real objects
def _model(i):
    from pmutt.statmech import StatMech, trans, rot, vib, elec
    name, comp, E, wn, rt, geom, sig, mw, _ = MENU[i]
    return dict(trans_model=trans.FreeTrans(n_degrees=3, molecular_weight=mw),
                vib_model=vib.HarmonicVib(vib_wavenumbers=list(wn)),
                rot_model=rot.RigidRotor(symmetrynumber=sig, geometry=geom, rot_temperatures=list(rt)),
                elec_model=elec.GroundStateElec(potentialenergy=E, spin=0))


def _cheap_model():
    from pmutt.statmech import vib, elec
    return dict(vib_model=vib.HarmonicVib(vib_wavenumbers=[1500.0, 800.0]),
                elec_model=elec.GroundStateElec(potentialenergy=-3.2, spin=0))


def _desc_dict(comp, desc):
    if desc == 'elements':
        return dict(comp)
    return {GROUP_OF.get(k, 'q_' + k): v for k, v in comp.items()}


def _species(name, comp, desc, refs, model):
    """A real StatMech species carrying `comp` under the descriptor attribute."""
    from pmutt.statmech import StatMech
    if desc == 'elements':
        sp = StatMech(name=name, elements=dict(comp), references=refs, **model)
    else:
        sp = StatMech(name=name, elements=None, references=refs, **model)
        sp.groups = _desc_dict(comp, desc)
    return sp


def _tref_of(pos, tref):
    if tref == 'equal':
        return T0
    if tref == 'all300':
        return 300.0
    return T0 if pos % 2 == 0 else 300.0


def _exp_HoRT(i, T_ref, exp):
    """Experimental dimensionless enthalpy of menu species i at its reference temperature."""
    if exp == 'table':
        return MENU[i][8] / (R_KJ * T_ref)
    from pmutt.statmech import StatMech
    dft = StatMech(name=MENU[i][0], **_model(i)).get_HoRT(T=T_ref)
    return dft - sum(HIDDEN[e] * n for e, n in MENU[i][1].items())


def _reference(i, T_ref, exp, desc):
    from pmutt.empirical.references import Reference
    from pmutt.statmech import StatMech
    name, comp = MENU[i][0], MENU[i][1]
    model = StatMech(name=name, elements=dict(comp) if desc == 'elements' else None, **_model(i))
    ref = Reference(name=name, elements=dict(comp) if desc == 'elements' else None, T_ref=T_ref,
                    HoRT_ref=_exp_HoRT(i, T_ref, exp), model=model)
    if desc != 'elements':
        ref.groups = _desc_dict(comp, desc)
    return ref


def _build_refs(ids, cfg, trefs=None):
    from pmutt.empirical.references import References
    desc = cfg['desc']
    trefs = trefs or [_tref_of(p, cfg['tref']) for p in range(len(ids))]
    lst = [_reference(i, t, cfg['exp'], desc) for i, t in zip(ids, trefs)]
    return References(references=lst, descriptor=desc)


# ------------------------------------------------------------------ reference model (harness side)
def _matrix(ids):
    cols = [e for e in ELEMS if any(e in MENU[i][1] for i in ids)]
    A = np.array([[float(MENU[i][1].get(e, 0)) for e in cols] for i in ids])
    return cols, A


def _rank_class(A):
    m, n = A.shape
    r = int(np.linalg.matrix_rank(A))
    if r == n and m == n:
        return 'square-full', r
    if r == n and m > n:
        return 'over-fullcol', r
    if r == m and m < n:
        return 'under-fullrow', r
    return 'deficient', r


def _delta(sp_w, sp_0, getter, T):
    return getattr(sp_w, getter)(T=T) - getattr(sp_0, getter)(T=T)


# ------------------------------------------------------------------ oracles on one References object
def check_refs(refs, ids, trefs, cfg, ctx, sig, case, full=True, fitted_ids=None):
    """All clauses of C10 on one (real) References object whose offsets were fitted to the menu
    species `fitted_ids` (default: ids) at temperatures `trefs`."""
    desc, exp = cfg['desc'], cfg['exp']
    fitted = ids if fitted_ids is None else fitted_ids
    cols, A = _matrix(fitted)
    rclass, rank = _rank_class(A)
    equal_T = len(set(trefs)) == 1
    T_fit = float(np.mean(trefs))
    ok = True

    # (1) (2) the fitted references themselves, evaluated through StatMech at their reference temperature
    obs, expv, dft = [], [], []
    for i, t in zip(fitted, trefs):
        sp = _species(MENU[i][0], MENU[i][1], desc, refs, _model(i))
        obs.append(sp.get_HoRT(T=t))
        dft.append(sp.get_HoRT(T=t, use_references=False))
        expv.append(_exp_HoRT(i, t, exp))
        ctx.evals(2)
    ctx.tag('target:reference-itself')
    obs, expv, dft = np.array(obs), np.array(expv), np.array(dft)
    r = obs - expv
    scale = np.abs(dft) + np.abs(expv) + 1.0
    if equal_T:
        consistent = (exp == 'consistent') or rank == len(fitted)
        if consistent:
            ctx.tag('resid:zero')
            ok &= ctx.close('fitted references reproduce their experimental HoRT at T_ref '
                            '(offsets determined / data consistent)', obs, expv, sig, case,
                            rtol=1e-9, scale=scale)
        else:
            ctx.tag('resid:nonzero' if np.max(np.abs(r)) > 1e-6 else 'resid:zero')
        ok &= ctx.close('least-squares residual orthogonal to the composition matrix (A^T r = 0)',
                        A.T @ r, np.zeros(A.shape[1]), sig, case, rtol=1e-9,
                        scale=np.abs(A).T @ scale + 1.0)

    # targets: unit compositions measure the offsets through the public getter
    cheap = _cheap_model()
    sp0 = _species('t', {'H': 1}, desc, None, cheap)        # no references: composition is irrelevant

    def dH(comp, T, getter='get_HoRT'):
        spw = _species('t', comp, desc, refs, cheap)
        ctx.evals(2)
        return _delta(spw, sp0, getter, T)

    unit = {e: dH({e: 1}, T_fit) for e in ELEMS}
    unit['Xx'] = dH({'Xx': 1}, T_fit)
    if equal_T and exp == 'consistent' and rank == A.shape[1]:
        # unique offsets, consistent data: the hidden offsets are recovered (sign: H_exp = H_dft - offset.n)
        ok &= ctx.close('hidden offsets recovered (consistent data, full column rank)',
                        [unit[e] for e in cols], [-HIDDEN[e] for e in cols], sig, case, rtol=1e-9,
                        scale=[abs(HIDDEN[e]) * 4 + 1.0 for e in cols])

    n1, n2 = MENU[ids[0]][1], MENU[ids[-1]][1]
    both = {e: n1.get(e, 0) + n2.get(e, 0) for e in set(n1) | set(n2)}
    targets = [('ref-first', dict(n1)), ('sum', both), ('double', {e: 2 * v for e, v in n1.items()}),
               ('fractional', dict({e: 0.5 * v for e, v in n2.items()}, S=0.25)),
               ('absent', dict(n2, Xx=1)), ('zero-coeff', dict(n1, N=0))]
    ctx.tag('target:sum-of-references')
    ctx.tag('target:fractional')
    ctx.tag('target:absent-descriptor')
    temps = TEMPS if full else TEMPS[1:2]
    for tname, comp in targets:
        s = dict(sig, target=tname)
        lin = sum(v * unit[e] for e, v in comp.items())
        mag = sum(abs(v * unit[e]) for e, v in comp.items()) + 1.0
        e_ref = None
        for T in temps:
            d = dH(comp, T)
            # linear in the composition, with the T_ref/T scaling of a T-independent energy
            ok &= ctx.close('adjustment of H is linear in the composition', d * T / T_fit, lin, s, case,
                            rtol=1e-9, scale=mag * max(1.0, T / T_fit) + 600.0 * 1e-3)
            if e_ref is None:
                e_ref = d * T
            else:
                ok &= ctx.close('adjustment energy (dHoRT x T) independent of temperature', d * T, e_ref, s, case,
                                rtol=1e-9, scale=abs(e_ref) + mag * T_fit)
            g = dH(comp, T, 'get_GoRT')
            ok &= ctx.close('adjustment of G equals adjustment of H', g, d, s, case, rtol=1e-9,
                            scale=mag * T_fit / T + 1.0)
    # additivity between targets, measured on the implementation only
    T = TEMPS[2]
    ok &= ctx.close('adjustment additive: D(n1+n2) = D(n1)+D(n2), D(2n) = 2 D(n)',
                    [dH(both, T), dH({e: 2 * v for e, v in n1.items()}, T)],
                    [dH(dict(n1), T) + dH(dict(n2), T), 2 * dH(dict(n1), T)], dict(sig, target='sum'), case,
                    rtol=1e-9, scale=sum(abs(unit[e]) for e in ELEMS) * 12 + 1.0)
    if not full:
        return bool(ok)

    # (3) nothing in S, Cp, Cv; switched off = species built without references; units
    from pmutt import constants as c
    i = ids[0]
    comp = MENU[i][1]
    spw = _species(MENU[i][0], comp, desc, refs, _model(i))
    spn = _species(MENU[i][0], comp, desc, None, _model(i))
    for T in (TEMPS[0], TEMPS[2]):
        s = dict(sig, target='ref-first')
        w = [spw.get_SoR(T=T), spw.get_CpoR(T=T), spw.get_CvoR(T=T)]
        n = [spn.get_SoR(T=T), spn.get_CpoR(T=T), spn.get_CvoR(T=T)]
        ok &= ctx.close('references contribute nothing to S, Cp, Cv', w, n, s, case, rtol=1e-13)
        off = [spw.get_HoRT(T=T, use_references=False), spw.get_GoRT(T=T, use_references=False),
               spw.get_SoR(T=T, use_references=False), spw.get_CpoR(T=T, use_references=False),
               spw.get_CvoR(T=T, use_references=False),
               spw.get_H(units='kJ/mol', T=T, use_references=False),
               spw.get_G(units='eV', T=T, use_references=False)]
        non = [spn.get_HoRT(T=T), spn.get_GoRT(T=T), spn.get_SoR(T=T), spn.get_CpoR(T=T), spn.get_CvoR(T=T),
               spn.get_H(units='kJ/mol', T=T), spn.get_G(units='eV', T=T)]
        ok &= ctx.close('use_references=False is identical to the species without references', off, non, s,
                        case, rtol=0.0, atol=0.0)
        d = spw.get_HoRT(T=T) - spn.get_HoRT(T=T)
        dHu = spw.get_H(units='kJ/mol', T=T) - spn.get_H(units='kJ/mol', T=T)
        dGu = spw.get_G(units='eV', T=T) - spn.get_G(units='eV', T=T)
        ok &= ctx.close('H and G with units carry the same adjustment (x R T)', [dHu, dGu],
                        [d * c.R('kJ/mol/K') * T, d * c.R('eV/K') * T], s, case, rtol=1e-9,
                        scale=[abs(spn.get_H(units='kJ/mol', T=T)) + 1.0, abs(spn.get_G(units='eV', T=T)) + 1.0])
        ctx.evals(30)
    return bool(ok)


# ------------------------------------------------------------------ fit cases
def _fit_sig(case):
    _, A = _matrix(case['refs'])
    return dict(kind='fit', rank=_rank_class(A)[0], exp=case['exp'], tref=case['tref'], desc=case['desc'])


def _run_fit(case, ctx):
    ids = case['refs']
    cfg = dict(exp=case['exp'], tref=case['tref'], desc=case['desc'])
    sig = _fit_sig(case)
    trefs = [_tref_of(p, cfg['tref']) for p in range(len(ids))]
    refs = _build_refs(ids, cfg, trefs)
    ctx.trace()
    ctx.trans()
    for k in ('exp', 'tref', 'desc'):
        ctx.tag('%s:%s' % (k, cfg[k]))
    ctx.tag('rank:' + sig['rank'])
    ctx.close('fitted T_ref is the mean reference temperature', float(refs.T_ref), float(np.mean(trefs)), sig, case,
              rtol=1e-12)
    check_refs(refs, ids, trefs, cfg, ctx, sig, case, full=True)


def _run_offset(case, ctx):
    """construct-with-offset: no fit; every unconditional clause applies, and the offsets given
    are the ones applied."""
    from pmutt.empirical.references import References
    desc = case['desc']
    offs = {(_desc_dict({e: 1}, desc).popitem()[0]): v for e, v in case['offset'].items()}
    with_refs = case.get('with_refs')
    lst = None
    if with_refs:
        lst = [_reference(i, T0, 'table', desc) for i in with_refs]
    refs = References(offset=offs, references=lst, descriptor=desc, T_ref=case['T_ref'])
    ctx.trace()
    ctx.tag('offset-given:no-fit')
    sig = dict(kind='offset-given', desc=desc, with_refs=bool(with_refs))
    cheap = _cheap_model()
    sp0 = _species('t', {'H': 1}, desc, None, cheap)
    T_ref = case['T_ref']
    for comp in ({'H': 2, 'O': 1}, {'C': 1, 'H': 4}, {'H': 1.5, 'N': 0.5, 'Xx': 2}, {'S': 1, 'O': 2}):
        spw = _species('t', comp, desc, refs, cheap)
        lin = -sum(case['offset'].get(e, 0.0) * v for e, v in comp.items())
        for T in TEMPS:
            d = _delta(spw, sp0, 'get_HoRT', T)
            g = _delta(spw, sp0, 'get_GoRT', T)
            ctx.evals(4)
            ctx.close('given offsets applied: dHoRT = -offset.n T_ref/T', [d, g], [lin * T_ref / T] * 2, sig, case,
                      rtol=1e-9, scale=abs(lin) * T_ref / T + 600.0)
        w = [spw.get_SoR(T=500.0), spw.get_CpoR(T=500.0), spw.get_CvoR(T=500.0),
             spw.get_HoRT(T=500.0, use_references=False), spw.get_GoRT(T=500.0, use_references=False)]
        n = [sp0.get_SoR(T=500.0), sp0.get_CpoR(T=500.0), sp0.get_CvoR(T=500.0), sp0.get_HoRT(T=500.0),
             sp0.get_GoRT(T=500.0)]
        ctx.close('use_references=False is identical to the species without references', w, n, sig, case,
                  rtol=0.0, atol=0.0)
    ctx.state(('offset', desc, case['T_ref'], bool(with_refs), sorted(case['offset'].items())))
    ctx.nontrivial(('offset', desc, case['T_ref'], bool(with_refs), sorted(case['offset'].items())))


def _offset_cases():
    for desc in DESC_MODES:
        for T_ref in (T0, 300.0, 500.0):
            for offs in ({'H': -123.4, 'O': -186.9}, dict(HIDDEN), {'C': 12.5}):
                for wr in (None, [0, 2]):
                    yield dict(kind='offset', desc=desc, T_ref=T_ref, offset=offs, with_refs=wr)


# ------------------------------------------------------------------ histories (Shape A)
HCFG = dict(exp='table', tref='equal', desc='elements')


def _hT(i, init):
    """Reference temperature of menu species i in a history ('byid': depends on the species)."""
    return T0 if init.get('tref', 'equal') == 'equal' or i % 2 == 0 else 300.0


def _hist_init(init):
    """A real References object for the initial state; returns (refs, current ids, fitted ids)."""
    from pmutt.empirical.references import References
    lst = [_reference(i, _hT(i, init), 'table', 'elements') for i in init['refs']]
    if init['given']:
        refs = References(offset={'H': 1.0, 'O': -2.0}, references=lst)
        return refs, list(init['refs']), None
    return References(references=lst), list(init['refs']), list(init['refs'])


def _apply(refs, cur, fitted, op, init):
    kind = op[0]
    if kind == 'append':
        refs.append(_reference(op[1], _hT(op[1], init), 'table', 'elements'))
        return cur + [op[1]], fitted
    if kind == 'extend':
        refs.extend([_reference(i, _hT(i, init), 'table', 'elements') for i in op[1]])
        return cur + list(op[1]), fitted
    if kind == 'pop':
        refs.pop()
        return cur[:-1], fitted
    if kind == 'refit':
        refs.fit_HoRT_offset()
        return cur, list(cur)
    raise ValueError(kind)


def _hist_ops(cur, pool):
    rest = [i for i in pool if i not in cur]
    ops = [['append', i] for i in rest]
    ops += [['extend', [a, b]] for a, b in zip(rest, rest[1:])]
    if len(cur) > 1:
        ops.append(['pop'])
    ops.append(['refit'])
    return ops


def _measure_offsets(refs, T):
    cheap = _cheap_model()
    sp0 = _species('t', {'H': 1}, 'elements', None, cheap)
    return [_delta(_species('t', {e: 1}, 'elements', refs, cheap), sp0, 'get_HoRT', T) for e in ELEMS]


def _hist_sig(case):
    ops = case['ops']
    last = ops[-1][0] if ops else 'construct'
    return dict(kind='history', last=last, given=bool(case['init']['given']),
                tref=case['init'].get('tref', 'equal'))


def _run_hist(case, ctx, res=None):
    """Replay the whole history on a fresh real object; oracles on the final state."""
    sig = _hist_sig(case)
    refs, cur, fitted = _hist_init(case['init'])
    # a species created before the history holds the same References object
    early = _species('early', {'H': 2, 'O': 1, 'C': 1}, 'elements', refs, _cheap_model())
    if case['init']['given']:
        ctx.tag('hist:init-offset-given')
    for op in case['ops']:
        cur, fitted = _apply(refs, cur, fitted, op, case['init'])
        ctx.tag('hist:' + op[0])
        ctx.trans()
    ctx.trace()
    if res is not None:
        res['key'] = (tuple(cur), tuple(fitted) if fitted is not None else None)
    if fitted is None:
        ctx.tag('hist:stale')
        return                      # offsets are the ones given by hand: nothing was fitted yet
    if fitted != cur:
        ctx.tag('hist:stale')
    trefs = [_hT(i, case['init']) for i in fitted]
    ctx.tag('hist:tref-' + case['init'].get('tref', 'equal'))
    # history oracle: the offsets equal those of a fit built from scratch on the list last fitted
    scratch = _build_refs(fitted, HCFG, trefs)
    T = 650.0
    a, b = _measure_offsets(refs, T), _measure_offsets(scratch, T)
    ctx.evals(20)
    ok = ctx.close('offsets after the history equal a fit from scratch of the same references', a, b, sig, case,
                   rtol=1e-9, scale=np.abs(b) + 100.0)
    ok &= ctx.close('T_ref after the history equals T_ref of the fit from scratch', float(refs.T_ref),
                    float(scratch.T_ref), sig, case, rtol=1e-12)
    late = _species('early', {'H': 2, 'O': 1, 'C': 1}, 'elements', refs, _cheap_model())
    ok &= ctx.close('a species created before the history sees the refitted offsets',
                    [early.get_HoRT(T=T), early.get_GoRT(T=T)], [late.get_HoRT(T=T), late.get_GoRT(T=T)], sig,
                    case, rtol=1e-12)
    if ok:
        check_refs(refs, cur, trefs, HCFG, ctx, sig, case, full=False, fitted_ids=fitted)


def check_case(case, ctx):
    if case['kind'] == 'fit':
        _run_fit(case, ctx)
    elif case['kind'] == 'offset':
        _run_offset(case, ctx)
    elif case['kind'] == 'hist':
        _run_hist(case, ctx)
    else:
        raise ValueError(case['kind'])


def run_shard(shard, ctx):
    kind = shard['kind']
    if kind == 'fit':
        for n, case in enumerate(_fit_cases(ctx.tier)):
            if n % shard['nparts'] != shard['part']:
                continue
            sig = _fit_sig(case)
            ctx.run_case(_run_fit, case, sig)
            key = ('fit', tuple(case['refs']), case['exp'], case['tref'], case['desc'])
            ctx.state(key)
            if sig['rank'] != 'square-full' or {k: case[k] for k in DEFAULT} != DEFAULT:
                ctx.nontrivial(key)
            if n % 997 == shard['part']:
                ctx.sample(case, limit=1)
        return
    if kind == 'offset':
        for case in _offset_cases():
            ctx.run_case(_run_offset, case, dict(kind='offset-given', desc=case['desc'],
                                                 with_refs=bool(case['with_refs'])))
        return
    # histories: BFS, de-duplicated on (current list, list last fitted)
    init = dict(refs=shard['init'], given=shard['given'], tref=shard['tref'])
    pool, depth = shard['pool'], shard['depth']
    root = dict(kind='hist', init=init, ops=[])
    res = {}
    if not ctx.run_case(lambda c_, x_: _run_hist(c_, x_, res), root, _hist_sig(root)):
        return
    seen = {res['key']}
    ctx.state(('hist', init['given'], init['tref']) + res['key'])
    frontier = [([], res['key'][0])]
    for d in range(depth):
        nxt = []
        for hist, cur in frontier:
            for op in _hist_ops(list(cur), pool):
                case = dict(kind='hist', init=init, ops=hist + [op])
                res = {}
                if not ctx.run_case(lambda c_, x_: _run_hist(c_, x_, res), case, _hist_sig(case)):
                    continue
                key = res['key']
                if key in seen:
                    continue
                seen.add(key)
                ctx.state(('hist', init['given'], init['tref']) + key)
                kinds = {o[0] for o in case['ops']}
                if 'refit' in kinds and kinds & {'append', 'extend'}:
                    ctx.nontrivial(('hist', init['given'], init['tref']) + key)
                nxt.append((hist + [op], key[0]))
                if len(hist) + 1 == depth:
                    ctx.sample(case, limit=1)
        frontier = nxt


LEVEL_TEXT = ('Exhaustive enumeration of every subset of 1-8 reference species of a 14-species menu over five '
              'descriptors (square, over-determined, under-determined and rank-deficient composition matrices), '
              'crossed with experimental-data, reference-temperature and descriptor-dictionary modes up to the '
              'stated deviation level, each fitted by the real References class and evaluated through real '
              'StatMech species; plus explicit-state BFS over append/extend/pop/refit histories compared with a '
              'fit from scratch. All clauses evaluated in every case.')
LEVEL_NOTE = ('Menu of 14 species / 5 descriptors; quick: all subsets of size 1-4 plus size 5-8 of a 9-species '
              'sub-menu, history depth 4; thorough: all 12910 subsets, depth 5. With unequal reference '
              'temperatures only the unconditional clauses are verdicts. Scalar temperatures only.')
TECHNIQUE = ('deviation-bounded exhaustive product enumeration + explicit-state BFS over operation histories on '
             'the implementation; algebraic oracles (normal equations, hidden offsets, linearity)')
