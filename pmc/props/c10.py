"""C10 - the reference adjustment reproduces the experimental enthalpies it was fitted to.

Shape B (deviation-bounded product): every subset of 1-8 reference species of a 14-species menu
over the five descriptors H, C, O, N, S x {tabulated / consistent experimental data} x
{equal 298.15 K, equal 300 K, mixed} reference temperatures x {elements, another descriptor
dictionary}.  Shape A (explicit-state BFS): histories of append / extend / pop / refit on a real
References object, compared with the fit built from scratch.  Strengthening (see notes/C10.md): the route
by which the temperature reaches the species is a deviation dimension (direct T, per-species '<name>_kwargs',
per-species overriding a direct one, other species' kwargs present, integer-typed numbers); call-level clauses
(repeat, caller's data left alone, in-place edits, verbose breakdown); pairs of References objects alive at
once (new / deepcopy / to_dict-from_dict, edited after creation); histories whose reference species carry
the References object being refitted.  Third round: the composition amounts are a deviation dimension
(the menu's integers / every row scaled by a per-species dyadic factor = per-site compositions, all amounts
non-integer and many below one / every entry shifted by a dyadic fraction = real-valued descriptors), in the
references, in the targets, in pairs and in histories; reference lists in descending order and with one species
listed twice.  Fifth round: the TYPE of the descriptor keys is a deviation dimension (strings / atomic numbers
as Python ints, one of them the falsy 0 / numpy integers in the references against Python ints in the species and the
other way round / tuples such as ('C', 'H') / unusual strings: empty, lower-case, with blanks, digits), in the
references, the targets, the hand-given offsets, pairs and histories.

Nothing of pmutt.empirical.references is used by the oracle: the composition matrix, its rank
and the residuals are formed here from the case description; offsets are *measured* through the
public getters of StatMech species with unit compositions (never read from References.offset).
"""
import itertools

import numpy as np

ID = 'C10'
RULE = ('all subsets of 1-8 reference species of a 14-species menu (5 descriptors), crossed with '
        'experimental-data mode, reference-temperature mode, descriptor dictionary and the route by which the '
        'temperature reaches the species (direct, per-species kwargs, per-species overriding direct, other '
        "species' kwargs present, integer-typed) and the composition amounts (integers, rows scaled by dyadic "
        "per-species factors, entries shifted by dyadic fractions) and the type of the descriptor keys (strings, "
        "Python ints, numpy ints against Python ints, tuples, unusual strings) up to the stated "
        'deviation level (plus two configurations in which every reference has its own slightly different '
        'reference temperature), the offsets being compared in every case with the harness\'s own least-squares '
        'solution built from each reference at its own T_ref, plus descending and repeated reference lists; '
        'plus BFS over append/extend/pop/refit histories of References, de-duplicated '
        'on (reference list, list last fitted), with reference species that do / do not carry the References '
        'object themselves; plus all pairs (References A of 1-3 pool species, second object made new / by '
        'deepcopy / by to_dict-from_dict, edited by one append or pop and refitted).  A case is non-trivial '
        'when its composition matrix is '
        'not square full rank, or a deviation is applied, or the history contains an append and a refit')
ASSUMPTIONS = ['reference species and DFT-side models come from a fixed 14-species menu; experimental '
               'enthalpies from a fixed table or constructed from hidden per-descriptor offsets',
               'with unequal reference temperatures the verdicts are the unconditional clauses (linear, T-independent, '
               'no S/Cp/Cv contribution, switch-off) and the least-squares statement on the offsets as fitted: b_i = '
               'HoRT_dft,i(T_ref,i) - HoRT_exp,i with every reference at its own T_ref, offsets measured at the mean '
               'T_ref; re-evaluating a reference through StatMech at its own T_ref (factor mean T_ref / T_ref,i) is '
               'no verdict then',
               'temperatures are scalars (HarmonicVib does not accept array T)',
               'descriptor keys of one References object are mutually orderable (get_descriptors sorts them): one key '
               'type per object; a numpy-integer key and the equal Python int are the same descriptor',
               'non-integer amounts are dyadic fractions (0.125 ... 2.5 x the integer amount, or shifted by -0.5 ... '
               '+0.75): exactly representable, so the harness-side composition matrix is the one the references hold']
EXPLANATION = ('exhaustive product enumeration and explicit-state BFS on the real References / StatMech '
               'classes; algebraic oracles (A^T r = 0, r = 0, hidden offsets recovered, linearity)')

R_KJ = 8.31446261815324e-3     # kJ/mol/K, data only (turns the table into HoRT numbers)

# name, composition, E_dft (eV), wavenumbers, rot temperatures, geometry, sigma, MW, dHf298 (kJ/mol)
MENU = [
    ('H2', {'H': 2}, -6.7598, [4306.18], [87.6], 'linear', 2, 2.016, 0.0),
    ('O2', {'O': 2}, -9.86, [2205.0], [2.08], 'linear', 2, 31.998, 0.0),
    ('H2O', {'H': 2, 'O': 1}, -14.2209, [3825.43, 3710.26, 1582.43], [40.1, 20.9, 13.4], 'nonlinear', 2,
     18.015, -241.826),
    ('CO', {'C': 1, 'O': 1}, -14.80, [2170.0], [2.78], 'linear', 1, 28.010, -110.53),
    ('CH4', {'C': 1, 'H': 4}, -24.04, [3019.0, 3019.0, 3019.0, 2917.0, 1534.0, 1534.0, 1306.0, 1306.0, 1306.0],
     [7.54, 7.54, 7.54], 'nonlinear', 12, 16.043, -74.6),
    ('C2H4', {'C': 2, 'H': 4}, -31.97, [3105.0, 3086.0, 3026.0, 2989.0, 1623.0, 1444.0, 1342.0, 1236.0, 949.0,
                                        943.0, 826.0], [7.0, 1.44, 1.19], 'nonlinear', 4, 28.054, 52.4),
    ('N2', {'N': 2}, -16.63, [2358.0], [2.88], 'linear', 2, 28.014, 0.0),
    ('CO2', {'C': 1, 'O': 2}, -22.96, [2349.0, 1333.0, 667.0, 667.0], [0.561], 'linear', 2, 44.009, -393.51),
    ('NH3', {'N': 1, 'H': 3}, -19.54, [3444.0, 3444.0, 3337.0, 1627.0, 1627.0, 950.0], [13.6, 13.6, 8.92],
     'nonlinear', 3, 17.031, -45.9),
    ('C3H6', {'C': 3, 'H': 6}, -48.10, [3090.0, 3010.0, 2990.0, 2950.0, 2930.0, 1650.0, 1460.0, 1440.0, 1420.0,
                                        1380.0, 1300.0, 1170.0, 1045.0, 990.0, 935.0, 912.0, 578.0, 428.0],
     [2.2, 0.45, 0.39], 'nonlinear', 1, 42.081, 20.0),
    ('O3', {'O': 3}, -14.41, [1135.0, 1089.0, 716.0], [5.1, 0.64, 0.57], 'nonlinear', 2, 47.997, 142.7),
    ('H2S', {'H': 2, 'S': 1}, -11.20, [2626.0, 2615.0, 1183.0], [14.9, 12.9, 6.8], 'nonlinear', 2, 34.08, -20.6),
    ('SO2', {'S': 1, 'O': 2}, -17.05, [1362.0, 1151.0, 518.0], [2.92, 0.495, 0.423], 'nonlinear', 2, 64.064,
     -296.8),
    ('HCN', {'H': 1, 'C': 1, 'N': 1}, -19.77, [3311.0, 2097.0, 712.0, 712.0], [2.13], 'linear', 1, 27.026, 135.1),
]
NAMES = [m[0] for m in MENU]
ELEMS = ['H', 'C', 'O', 'N', 'S']
# another descriptor dictionary: keys chosen so that their alphabetical order differs from the elements'
GROUP_OF = {'H': 'z_H', 'C': 'a_C', 'O': 'm_O', 'N': 'b_N', 'S': 'k_S'}
HIDDEN = {'H': -123.4, 'C': -310.7, 'O': -186.9, 'N': -270.2, 'S': -395.6}   # hidden offsets (consistent data)
T0 = 298.15
TEMPS = [200.0, 298.15, 1000.0]

EXP_MODES = ['table', 'consistent']
TREF_MODES = ['equal', 'all300', 'mixed']
# fourth round: every reference with its own, slightly different temperature (by position in the list); used by the
# extra configurations SPREAD_CFGS at every deviation level that has deviations at all (not a member of TREF_MODES:
# the product exp x T_ref x descriptor keeps its size)
SPREAD_T = [0.0, 0.5, -0.25, 0.85, 0.25, -0.4, 0.6, -0.1]
DESC_MODES = ['elements', 'groups']
ROUTES = ['direct', 'species', 'override', 'other', 'int']
# composition amounts: the menu's integers; every row scaled by a per-species dyadic factor (per-site / per-formula-
# unit normalised compositions: rank structure kept, all amounts non-integer, many below one); every entry moved by a
# dyadic fraction depending on (species, descriptor) (real-valued custom descriptors: proportional rows no longer are)
COMP_MODES = ['int', 'site', 'real']
SITE_F = [0.25, 0.5, 0.75, 1.5, 0.125, 2.5, 0.375]
REAL_D = [0.25, -0.5, 0.375, 0.75, -0.125]
# fifth round: the type of the descriptor keys.  'Z': atomic numbers as Python ints (`groups`: other ints, one of
# them 0, one negative, order differing from the elements'); 'npint': the same numbers, numpy integers in the
# references and Python ints in the species that are evaluated (`groups`: the other way round) - equal keys of
# different type; 'pair': tuples (bond-count descriptors ('C', 'H'); `groups`: (int, str)); 'odd': strings that are
# not element symbols - empty, lower case (an absent 'h' next to a fitted 'H'), leading / trailing blanks, digits
KEY_MODES = ['str', 'Z', 'npint', 'pair', 'odd']
NONSTR = KEY_MODES[1:]
Z_OF = {'H': 1, 'C': 6, 'O': 8, 'N': 7, 'S': 16, 'Xx': 0}
G_INT = {'H': 71, 'C': -4, 'O': 30, 'N': 0, 'S': 12, 'Xx': 5}
ODD_E = {'H': 'H', 'C': 'c', 'O': ' O', 'N': '', 'S': 'S ', 'Xx': 'h'}
ODD_G = {'H': 'z H', 'C': 'A_c', 'O': 'm_O ', 'N': '1', 'S': '', 'Xx': 'Z H'}
DEFAULT = dict(exp='table', tref='equal', desc='elements', route='direct', comp='int', keys='str')
SPREAD_CFGS = [dict(DEFAULT, tref='spread'), dict(DEFAULT, exp='consistent', tref='spread', desc='groups', comp='real')]

QUICK_SUB = [0, 1, 2, 3, 4, 5, 9, 10, 13]      # 9-species sub-menu used for 5-8 references in the quick tier
HIST_POOL = {'quick': [0, 2, 1, 4, 5], 'thorough': [0, 2, 1, 4, 5, 9]}
HIST_DEPTH = {'quick': 4, 'thorough': 5}
N_FIT_SHARDS = 24

PLANNED_TAGS = ['rank:square-full', 'rank:over-fullcol', 'rank:deficient', 'rank:under-fullrow',
                'exp:table', 'exp:consistent', 'tref:equal', 'tref:all300', 'tref:mixed', 'tref:spread',
                'lsq:equal-T', 'lsq:unequal-T', 'lsq:unique', 'lsq:not-unique', 'lsq:consistent', 'lsq:inconsistent',
                'desc:elements', 'desc:groups', 'resid:zero', 'resid:nonzero',
                'target:absent-descriptor', 'target:fractional', 'target:reference-itself',
                'target:sum-of-references', 'comp:int', 'comp:site', 'comp:real', 'comp:below-one',
                'keys:str', 'keys:Z', 'keys:npint', 'keys:pair', 'keys:odd', 'hist:keys', 'pair:keys',
                'offset-given:keys',
                'order:descending', 'order:repeated', 'hist:comp-site', 'hist:comp-real', 'offset-given:no-fit', 'hist:append', 'hist:extend', 'hist:pop',
                'hist:refit', 'hist:stale', 'hist:init-offset-given', 'hist:tref-equal', 'hist:tref-byid',
                'hist:attached', 'route:direct', 'route:species', 'route:override', 'route:other', 'route:int',
                'pair:new', 'pair:deepcopy', 'pair:dict', 'call:repeat', 'call:edited-in-place']


def bounds(tier):
    return dict(menu=NAMES, descriptors=ELEMS, n_references='1-8',
                subsets=('all of size 1-4 of the 14-menu + all of size 5-8 of a 9-species sub-menu'
                         if tier == 'quick' else 'all of size 1-8 of the 14-menu (12910)'),
                deviation=('exp x T_ref x descriptor x route for 1 reference; exp x T_ref x descriptor (direct) + '
                           'T_ref x descriptor x other routes for 2; one deviation (routes included) for 3; one '
                           'deviation of exp/T_ref/descriptor for 4; default + consistent for 5-8'
                           if tier == 'quick' else
                           'exp x T_ref x descriptor x route for <= 2 references; exp x T_ref x descriptor (direct) '
                           '+ T_ref x descriptor x other routes for 3; one deviation (routes included) for 4-5; '
                           'default + consistent for 6-8'),
                exp_modes=EXP_MODES, tref_modes=TREF_MODES + ['spread'], spread_T_minus_298_15=SPREAD_T,
                spread_configurations=SPREAD_CFGS, descriptor_modes=DESC_MODES, routes=ROUTES,
                composition_modes=COMP_MODES, site_factors=SITE_F, real_shifts=REAL_D,
                key_modes=KEY_MODES,
                key_deviation=('per subset, with k0..k2 = three of the four non-string key modes chosen by the subset: '
                               '(k0, table|consistent) for every subset of 1-8; + (k1, consistent, site), (k2, '
                               'consistent, groups, real) at the levels with routes; + key mode x descriptor (exp, '
                               'T_ref, composition mode, route cycling) at the next level; + key mode x exp x T_ref '
                               'x descriptor at the full level; offsets given by hand, pairs and histories: see '
                               'notes/C10.md'),
                reference_order=('ascending menu order for every subset; descending order and one reference species '
                                 'listed twice for all pairs and for the triples of ' +
                                 ('the 9-species sub-menu' if tier == 'quick' else 'the menu')),
                pair_makes=PAIR_MAKES, history_reference_species_carry_references=[False, True],
                temperatures=TEMPS, history_pool=[NAMES[i] for i in HIST_POOL[tier]],
                history_depth=HIST_DEPTH[tier])


# ------------------------------------------------------------------ enumeration
def _configs(level):
    """Deviation levels.  'fullr': exp x tref x desc x route on integer compositions, exp x tref x desc on the two
    non-integer composition modes, and desc x route x non-integer mode (exp, tref alternating); 'full+r': exp x tref
    x desc with the direct route, exp x {equal, all300} x desc x non-integer mode, plus tref x desc (exp alternating,
    comp cycling through all three) with every other route; 'one+r': one deviation, routes included, plus
    (consistent, site), real, site, (consistent, real, groups); 'one': one deviation of exp/tref/desc plus
    (consistent, site); 'two': default + consistent + (consistent, site); 'zero'.  A non-integer composition mode
    is taken together with consistent data (the hidden offsets must come back) and with the other descriptor
    dictionary (real-valued custom descriptors)."""
    base = [dict(DEFAULT, exp=e, tref=t, desc=d) for e in EXP_MODES for t in TREF_MODES for d in DESC_MODES]
    if level == 'fullr':
        out = [dict(c, route=r) for c in base for r in ROUTES]
        out += [dict(c, comp=m) for c in base for m in COMP_MODES[1:]]
        n = 0
        for r in ROUTES[1:]:
            for m in COMP_MODES[1:]:
                for d in DESC_MODES:
                    out.append(dict(DEFAULT, exp=EXP_MODES[n % 2], tref=TREF_MODES[n % 3], desc=d, route=r, comp=m))
                    n += 1
        return out + [dict(c) for c in SPREAD_CFGS]
    if level == 'full+r':
        out = list(base) + [dict(c, comp=m) for c in base if c['tref'] != 'mixed' for m in COMP_MODES[1:]]
        n = 0
        for r in ROUTES[1:]:
            for t in TREF_MODES:
                for d in DESC_MODES:
                    out.append(dict(DEFAULT, exp=EXP_MODES[n % 2], tref=t, desc=d, route=r, comp=COMP_MODES[n % 3]))
                    n += 1
        return out + [dict(c) for c in SPREAD_CFGS]
    out = [dict(DEFAULT)]
    if level == 'zero':
        return out
    out.append(dict(DEFAULT, exp='consistent'))
    out.append(dict(DEFAULT, exp='consistent', comp='site'))
    if level == 'two':
        return out
    out += [dict(DEFAULT, tref='all300'), dict(DEFAULT, tref='mixed'), dict(DEFAULT, desc='groups')]
    if level == 'one+r':
        out += [dict(DEFAULT, route=r) for r in ROUTES[1:]]
        out += [dict(DEFAULT, comp='real'), dict(DEFAULT, comp='site'),
                dict(DEFAULT, exp='consistent', comp='real', desc='groups')]
        out += [dict(c) for c in SPREAD_CFGS]
    return out


def _key_configs(level, s):
    """Configurations with descriptor keys that are not plain strings, nested by construction (every level contains
    the levels below it, so the thorough tier contains the quick one): `s` (sum of the subset's menu indices) picks
    the key modes, so that every mode meets every subset size."""
    k0, k1, k2 = (NONSTR[(s + j) % 4] for j in range(3))
    out = [dict(DEFAULT, exp=EXP_MODES[(s // 4) % 2], keys=k0)]
    if level in ('zero', 'two', 'one'):
        return out
    out += [dict(DEFAULT, exp='consistent', comp='site', keys=k1),
            dict(DEFAULT, exp='consistent', desc='groups', comp='real', keys=k2)]
    if level == 'one+r':
        return out
    n = s
    for k in NONSTR:
        for d in DESC_MODES:
            out.append(dict(DEFAULT, exp=EXP_MODES[n % 2], tref=TREF_MODES[n % 3], desc=d, route=ROUTES[n % 5],
                            comp=COMP_MODES[(n // 2) % 3], keys=k))
            n += 1
    if level == 'full+r':
        return out
    out += [dict(DEFAULT, exp=e, tref=t, desc=d, keys=k) for k in NONSTR for e in EXP_MODES for t in TREF_MODES
            for d in DESC_MODES]
    return out


LEVELS = {'quick': {1: 'fullr', 2: 'full+r', 3: 'one+r', 4: 'one'},
          'thorough': {1: 'fullr', 2: 'fullr', 3: 'full+r', 4: 'one+r', 5: 'one+r'}}


def _fit_cases(tier):
    n = len(MENU)
    for k in range(1, 9):
        pool = QUICK_SUB if (tier == 'quick' and k > 4) else range(n)
        level = LEVELS[tier].get(k, 'two')
        for sub in itertools.combinations(pool, k):
            for cfg in _configs(level):
                yield dict(kind='fit', refs=list(sub), **cfg)
            if tier == 'quick' and k == 4 and not set(sub) <= set(QUICK_SUB):
                continue                # quick: key types for 4 references on the sub-menu only
            for cfg in _key_configs(level, sum(sub)):
                yield dict(kind='fit', refs=list(sub), **cfg)
    # the order of the reference list: descending, and one reference species listed twice (two Reference objects
    # with the same data: a repeated row of the composition matrix)
    for k, pool in ((2, range(n)), (3, QUICK_SUB if tier == 'quick' else range(n))):
        for sub in itertools.combinations(pool, k):
            for refs in (list(reversed(sub)), list(sub) + [sub[0]]):
                for cfg in (dict(DEFAULT) if k == 2 else dict(DEFAULT, comp='real', tref='all300'),
                            dict(DEFAULT, exp='consistent', comp='site')):
                    yield dict(kind='fit', refs=refs, **cfg)
                if k == 2:
                    yield dict(kind='fit', refs=refs, **dict(DEFAULT, exp='consistent', keys=NONSTR[sum(sub) % 4]))


PAIR_MAKES = ['new', 'deepcopy', 'dict']
N_PAIR_SHARDS = 6


def _pair_cases(tier):
    """Two References objects alive at once: A fitted to `a`; B made new / as a deep copy of A / through
    to_dict-from_dict of A, then edited (append one more reference or pop the last) and refitted."""
    pool = HIST_POOL[tier]
    for k in (1, 2, 3):
        for a in itertools.permutations(pool, k) if k == 2 else itertools.combinations(pool, k):
            edits = [['append', x] for x in pool if x not in a]
            if k > 1:
                edits.append(['pop'])
            for make in PAIR_MAKES:
                for edit in edits:
                    yield dict(kind='pair', a=list(a), make=make, edit=edit)
    # the same with descriptor keys that are not plain strings (a new B is keyed by another type than A); the key
    # mode depends on the case only, not on the pool, so that the thorough tier contains the quick cases
    for k in (1, 2):
        for a in itertools.combinations(pool, k):
            edits = [['append', x] for x in pool if x not in a]
            if k > 1:
                edits.append(['pop'])
            for make in PAIR_MAKES:
                for edit in edits:
                    n = sum(a) + PAIR_MAKES.index(make) + (edit[1] if len(edit) > 1 else 2)
                    yield dict(kind='pair', a=list(a), make=make, edit=edit, keys=NONSTR[n % 4])


def shards(tier):
    out = [dict(kind='fit', part=i, nparts=N_FIT_SHARDS) for i in range(N_FIT_SHARDS)]
    out.append(dict(kind='offset'))
    out += [dict(kind='pair', part=i, nparts=N_PAIR_SHARDS) for i in range(N_PAIR_SHARDS)]
    pool = HIST_POOL[tier]
    for attach in (False, True):
        for plen in (1, 2, 3):
            for given in (False, True):
                for rot in range(3):
                    order = pool[rot:] + pool[:rot]
                    sh = dict(kind='hist', init=order[:plen], pool=pool, given=given,
                              tref='equal' if (rot + plen) % 2 == 0 else 'byid', depth=HIST_DEPTH[tier])
                    if attach:
                        sh['attach'] = True
                    out.append(sh)
                    # the same histories on non-integer compositions: quick - the fitted, unattached histories
                    # of prefix length 2 (3 rotations x 2 modes); thorough - every history shard x 2 modes
                    if tier == 'thorough' or (plen == 2 and not given and not attach):
                        for cm in COMP_MODES[1:]:
                            out.append(dict(sh, comp=cm))
                    # the same histories with descriptor keys that are not plain strings: quick - the fitted
                    # histories of prefix length 2, unattached (3 rotations: Z, npint, pair) and attached (rotation
                    # 0: odd); thorough - every history shard, key mode by (rotation, attached)
                    km = NONSTR[(rot + (3 if attach else 0)) % 4]
                    if tier == 'thorough' or (plen == 2 and not given and (not attach or rot == 0)):
                        out.append(dict(sh, keys=km))
    return out


# ------------------------------------------------------------------ building real objects
def _model(i):
    from pmutt.statmech import StatMech, trans, rot, vib, elec
    name, comp, E, wn, rt, geom, sig, mw, _ = MENU[i]
    return dict(trans_model=trans.FreeTrans(n_degrees=3, molecular_weight=mw),
                vib_model=vib.HarmonicVib(vib_wavenumbers=list(wn)),
                rot_model=rot.RigidRotor(symmetrynumber=sig, geometry=geom, rot_temperatures=list(rt)),
                elec_model=elec.GroundStateElec(potentialenergy=E, spin=0))


def _cheap_model():
    from pmutt.statmech import vib, elec
    return dict(vib_model=vib.HarmonicVib(vib_wavenumbers=[1500.0, 800.0]),
                elec_model=elec.GroundStateElec(potentialenergy=-3.2, spin=0))


def _key(e, desc, keys='str', side='sp'):
    """The key under which descriptor `e` (harness name: element symbol or 'Xx') is held by a reference
    (side='ref') or by a species that is evaluated (side='sp')."""
    el = desc == 'elements'
    if keys == 'str':
        return e if el else GROUP_OF.get(e, 'q_' + e)
    num = (Z_OF if el else G_INT)[e]
    if keys == 'Z':
        return num
    if keys == 'npint':
        return np.int64(num) if (side == 'ref') == el else num
    if keys == 'pair':
        return (e, 'H') if el else (num, GROUP_OF.get(e, 'q_' + e))
    if keys == 'odd':
        return (ODD_E if el else ODD_G)[e]
    raise ValueError(keys)


def _desc_dict(comp, desc, keys='str', side='sp'):
    if keys != 'str':
        return {_key(k, desc, keys, side): v for k, v in comp.items()}
    if desc == 'elements':
        return dict(comp)
    return {GROUP_OF.get(k, 'q_' + k): v for k, v in comp.items()}


def _species(name, comp, desc, refs, model, keys='str'):
    """A real StatMech species carrying `comp` under the descriptor attribute."""
    from pmutt.statmech import StatMech
    if desc == 'elements':
        sp = StatMech(name=name, elements=_desc_dict(comp, desc, keys), references=refs, **model)
    else:
        sp = StatMech(name=name, elements=None, references=refs, **model)
        sp.groups = _desc_dict(comp, desc, keys)
    return sp


def _tref_of(pos, tref):
    if tref == 'equal':
        return T0
    if tref == 'all300':
        return 300.0
    if tref == 'spread':
        return T0 + SPREAD_T[pos % len(SPREAD_T)]
    return T0 if pos % 2 == 0 else 300.0


def _comp(i, cmode='int'):
    """Composition of menu species i under the composition mode (a fresh dictionary)."""
    base = MENU[i][1]
    if cmode == 'int':
        return dict(base)
    if cmode == 'site':
        f = SITE_F[i % len(SITE_F)]
        return {e: f * v for e, v in base.items()}
    if cmode == 'real':
        return {e: v + REAL_D[(i + ELEMS.index(e)) % len(REAL_D)] for e, v in base.items()}
    raise ValueError(cmode)


def _exp_HoRT(i, T_ref, exp, cmode='int'):
    """Experimental dimensionless enthalpy of menu species i at its reference temperature."""
    if exp == 'table':
        return MENU[i][8] / (R_KJ * T_ref)
    from pmutt.statmech import StatMech
    dft = StatMech(name=MENU[i][0], **_model(i)).get_HoRT(T=T_ref)
    return dft - sum(HIDDEN[e] * v for e, v in _comp(i, cmode).items())


def _reference(i, T_ref, exp, desc, route='direct', cmode='int', keys='str'):
    from pmutt.empirical.references import Reference
    from pmutt.statmech import StatMech
    name, comp = MENU[i][0], _comp(i, cmode)
    el = desc == 'elements'
    model = StatMech(name=name, elements=_desc_dict(comp, desc, keys, 'ref') if el else None, **_model(i))
    ref = Reference(name=name, elements=_desc_dict(comp, desc, keys, 'ref') if el else None, T_ref=_num(T_ref, route),
                    HoRT_ref=_exp_HoRT(i, T_ref, exp, cmode), model=model)
    if not el:
        ref.groups = _desc_dict(comp, desc, keys, 'ref')
    return ref


def _build_refs(ids, cfg, trefs=None):
    from pmutt.empirical.references import References
    desc = cfg['desc']
    trefs = trefs or [_tref_of(p, cfg['tref']) for p in range(len(ids))]
    lst = [_reference(i, t, cfg['exp'], desc, cfg.get('route', 'direct'), cfg.get('comp', 'int'),
                      cfg.get('keys', 'str')) for i, t in zip(ids, trefs)]
    return References(references=lst, descriptor=desc)


# ------------------------------------------------------------------ reference model (harness side)
def _matrix(ids, cmode='int'):
    cols = [e for e in ELEMS if any(e in MENU[i][1] for i in ids)]
    A = np.array([[float(_comp(i, cmode).get(e, 0)) for e in cols] for i in ids])
    return cols, A


def _rank_class(A):
    m, n = A.shape
    r = int(np.linalg.matrix_rank(A))
    if r == n and m == n:
        return 'square-full', r
    if r == n and m > n:
        return 'over-fullcol', r
    if r == m and m < n:
        return 'under-fullrow', r
    return 'deficient', r


def _num(T, route, np_int=False):
    """Integer-typed temperature on the 'int' route whenever the value is an integer."""
    if route == 'int' and float(T).is_integer():
        return np.int64(T) if np_int else int(T)
    return T


def _kw(name, T, route, np_int=False):
    """Keyword arguments that tell the species called `name` its temperature through `route`."""
    wrong = 1.37 * float(T) + 11.0
    if route in ('direct', 'int'):
        return dict(T=_num(T, route, np_int))
    if route == 'species':                      # per-species dictionary only
        return {'%s_kwargs' % name: dict(T=T)}
    if route == 'override':                     # per-species dictionary overrides the general condition
        return {'T': wrong, '%s_kwargs' % name: dict(T=T)}
    if route == 'other':                        # other species' dictionaries are none of this species' business
        return {'T': T, '%sO_kwargs' % name: dict(T=wrong), 'x%s_kwargs' % name: dict(T=wrong)}
    raise ValueError(route)


def _temps(route):
    return [200.0, 300.0, 1000.0] if route == 'int' else TEMPS


def _get(sp, getter, T, route, np_int=False, **extra):
    return getattr(sp, getter)(**dict(_kw(sp.name, T, route, np_int), **extra))


def _delta(sp_w, sp_0, getter, T, route='direct'):
    np_int = getter == 'get_GoRT'
    return _get(sp_w, getter, T, route, np_int) - _get(sp_0, getter, T, route, np_int)


# ------------------------------------------------------------------ oracles on one References object
def check_refs(refs, ids, trefs, cfg, ctx, sig, case, full=True, fitted_ids=None):
    """All clauses of C10 on one (real) References object whose offsets were fitted to the menu
    species `fitted_ids` (default: ids) at temperatures `trefs`."""
    desc, exp = cfg['desc'], cfg['exp']
    route = cfg.get('route', 'direct')
    cmode = cfg.get('comp', 'int')
    keys = cfg.get('keys', 'str')
    fitted = ids if fitted_ids is None else fitted_ids
    cols, A = _matrix(fitted, cmode)
    ctx.tag('comp:' + cmode)
    ctx.tag('keys:' + keys)
    if np.any((A > 0) & (A < 1)):
        ctx.tag('comp:below-one')
    rclass, rank = _rank_class(A)
    equal_T = len(set(trefs)) == 1
    T_fit = float(np.mean(trefs))
    ok = True

    # (1) (2) the fitted references themselves, evaluated through StatMech at their reference temperature
    obs, expv, dft, dft0 = [], [], [], []
    for i, t in zip(fitted, trefs):
        sp = _species(MENU[i][0], _comp(i, cmode), desc, refs, _model(i), keys)
        obs.append(_get(sp, 'get_HoRT', t, route))
        dft.append(_get(sp, 'get_HoRT', t, route, use_references=False))
        # the same species built without any References object, at ITS OWN reference temperature (for the
        # least-squares statement below)
        dft0.append(_get(_species(MENU[i][0], _comp(i, cmode), desc, None, _model(i), keys), 'get_HoRT', t, route))
        expv.append(_exp_HoRT(i, t, exp, cmode))
        ctx.evals(3)
    ctx.tag('target:reference-itself')
    obs, expv, dft = np.array(obs), np.array(expv), np.array(dft)
    r = obs - expv
    scale = np.abs(dft) + np.abs(expv) + 1.0
    if equal_T:
        consistent = (exp == 'consistent') or rank == len(fitted)
        if consistent:
            ctx.tag('resid:zero')
            ok &= ctx.close('fitted references reproduce their experimental HoRT at T_ref '
                            '(offsets determined / data consistent)', obs, expv, sig, case,
                            rtol=1e-9, scale=scale)
        else:
            ctx.tag('resid:nonzero' if np.max(np.abs(r)) > 1e-6 else 'resid:zero')
        ok &= ctx.close('least-squares residual orthogonal to the composition matrix (A^T r = 0)',
                        A.T @ r, np.zeros(A.shape[1]), sig, case, rtol=1e-9,
                        scale=np.abs(A).T @ scale + 1.0)

    # targets: unit compositions measure the offsets through the public getter
    cheap = _cheap_model()
    sp0 = _species('t', {'H': 1}, desc, None, cheap, keys)  # no references: composition is irrelevant

    def dH(comp, T, getter='get_HoRT'):
        spw = _species('t', comp, desc, refs, cheap, keys)
        ctx.evals(2)
        return _delta(spw, sp0, getter, T, route)

    unit = {e: dH({e: 1}, T_fit) for e in ELEMS}
    unit['Xx'] = dH({'Xx': 1}, T_fit)
    if equal_T and exp == 'consistent' and rank == A.shape[1]:
        # unique offsets, consistent data: the hidden offsets are recovered (sign: H_exp = H_dft - offset.n)
        ok &= ctx.close('hidden offsets recovered (consistent data, full column rank)',
                        [unit[e] for e in cols], [-HIDDEN[e] for e in cols], sig, case, rtol=1e-9,
                        scale=[abs(HIDDEN[e]) * 4 + 1.0 for e in cols])
    ok &= _check_lsq(A, cols, rank, np.array(dft0), expv, unit, equal_T, exp, ctx, sig, case)

    n1, n2 = _comp(ids[0], cmode), _comp(ids[-1], cmode)
    both = {e: n1.get(e, 0) + n2.get(e, 0) for e in set(n1) | set(n2)}
    targets = [('ref-first', dict(n1)), ('sum', both), ('double', {e: 2 * v for e, v in n1.items()}),
               ('fractional', dict({e: 0.5 * v for e, v in n2.items()}, S=0.25)),
               ('absent', dict(n2, Xx=1)), ('zero-coeff', dict(n1, N=0))]
    ctx.tag('target:sum-of-references')
    ctx.tag('target:fractional')
    ctx.tag('target:absent-descriptor')
    temps = _temps(route) if full else _temps(route)[1:2]
    for tname, comp in targets:
        s = dict(sig, target=tname)
        lin = sum(v * unit[e] for e, v in comp.items())
        mag = sum(abs(v * unit[e]) for e, v in comp.items()) + 1.0
        e_ref = None
        for T in temps:
            d = dH(comp, T)
            # linear in the composition, with the T_ref/T scaling of a T-independent energy
            ok &= ctx.close('adjustment of H is linear in the composition', d * T / T_fit, lin, s, case,
                            rtol=1e-9, scale=mag * max(1.0, T / T_fit) + 600.0 * 1e-3)
            if e_ref is None:
                e_ref = d * T
            else:
                ok &= ctx.close('adjustment energy (dHoRT x T) independent of temperature', d * T, e_ref, s, case,
                                rtol=1e-9, scale=abs(e_ref) + mag * T_fit)
            g = dH(comp, T, 'get_GoRT')
            ok &= ctx.close('adjustment of G equals adjustment of H', g, d, s, case, rtol=1e-9,
                            scale=mag * T_fit / T + 1.0)
    # additivity between targets, measured on the implementation only
    T = TEMPS[2]
    ok &= ctx.close('adjustment additive: D(n1+n2) = D(n1)+D(n2), D(2n) = 2 D(n)',
                    [dH(both, T), dH({e: 2 * v for e, v in n1.items()}, T)],
                    [dH(dict(n1), T) + dH(dict(n2), T), 2 * dH(dict(n1), T)], dict(sig, target='sum'), case,
                    rtol=1e-9, scale=sum(abs(unit[e]) for e in ELEMS) * 12 + 1.0)
    if not full:
        return bool(ok)

    # (3) nothing in S, Cp, Cv; switched off = species built without references; units
    from pmutt import constants as c
    i = ids[0]
    comp = _comp(i, cmode)
    spw = _species(MENU[i][0], comp, desc, refs, _model(i), keys)
    spn = _species(MENU[i][0], comp, desc, None, _model(i), keys)

    def g_(sp, getter, T, **extra):
        return _get(sp, getter, T, route, **extra)

    def u_(sp, getter, units, T, **extra):
        # getters with units multiply by their own argument T: give it directly as well
        kw = dict(_kw(sp.name, T, route), T=_num(T, route))
        return getattr(sp, getter)(units=units, **dict(kw, **extra))

    for T in (TEMPS[0], TEMPS[2]):
        s = dict(sig, target='ref-first')
        w = [g_(spw, 'get_SoR', T), g_(spw, 'get_CpoR', T), g_(spw, 'get_CvoR', T)]
        n = [g_(spn, 'get_SoR', T), g_(spn, 'get_CpoR', T), g_(spn, 'get_CvoR', T)]
        ok &= ctx.close('references contribute nothing to S, Cp, Cv', w, n, s, case, rtol=1e-13)
        off = [g_(spw, 'get_HoRT', T, use_references=False), g_(spw, 'get_GoRT', T, use_references=False),
               g_(spw, 'get_SoR', T, use_references=False), g_(spw, 'get_CpoR', T, use_references=False),
               g_(spw, 'get_CvoR', T, use_references=False),
               u_(spw, 'get_H', 'kJ/mol', T, use_references=False),
               u_(spw, 'get_G', 'eV', T, use_references=False)]
        non = [g_(spn, 'get_HoRT', T), g_(spn, 'get_GoRT', T), g_(spn, 'get_SoR', T), g_(spn, 'get_CpoR', T),
               g_(spn, 'get_CvoR', T), u_(spn, 'get_H', 'kJ/mol', T), u_(spn, 'get_G', 'eV', T)]
        ok &= ctx.close('use_references=False is identical to the species without references', off, non, s,
                        case, rtol=0.0, atol=0.0)
        d = g_(spw, 'get_HoRT', T) - g_(spn, 'get_HoRT', T)
        dHu = u_(spw, 'get_H', 'kJ/mol', T) - u_(spn, 'get_H', 'kJ/mol', T)
        dGu = u_(spw, 'get_G', 'eV', T) - u_(spn, 'get_G', 'eV', T)
        ok &= ctx.close('H and G with units carry the same adjustment (x R T)', [dHu, dGu],
                        [d * c.R('kJ/mol/K') * T, d * c.R('eV/K') * T], s, case, rtol=1e-9,
                        scale=[abs(u_(spn, 'get_H', 'kJ/mol', T)) + 1.0, abs(u_(spn, 'get_G', 'eV', T)) + 1.0])
        # an option passed explicitly at its default is the option omitted
        ok &= ctx.close('use_references=True given explicitly is the default',
                        [g_(spw, 'get_HoRT', T, use_references=True), g_(spw, 'get_GoRT', T, use_references=True),
                         u_(spw, 'get_H', 'kJ/mol', T, use_references=True)],
                        [g_(spw, 'get_HoRT', T), g_(spw, 'get_GoRT', T), u_(spw, 'get_H', 'kJ/mol', T)], s, case,
                        rtol=0.0, atol=0.0)
        ctx.evals(38)
    ok &= _check_calls(refs, cfg, unit, T_fit, ctx, sig, case)
    return bool(ok)


def _check_lsq(A, cols, rank, dft0, expv, unit, equal_T, exp, ctx, sig, case):
    """The fit as a least-squares problem, for equal AND unequal reference temperatures: the offsets (measured
    through unit-composition species at the mean reference temperature, where the T_ref/T factor is one) are a
    least-squares solution of A x = b with b_i = HoRT_dft,i(T_ref,i) - HoRT_exp,i, every reference taken at its OWN
    reference temperature.  A, b and the solution are formed here (SVD with the rank of the case description);
    nothing is read from the References object."""
    b = dft0 - expv
    x = np.array([-unit[e] for e in cols])                  # sign: H_exp = H_dft - offset.n
    U, sv, Vt = np.linalg.svd(A, full_matrices=False)
    Ur, sr, Vr = U[:, :rank], sv[:rank], Vt[:rank]
    x_star = Vr.T @ ((Ur.T @ b) / sr)                       # minimum-norm least-squares solution
    fit_star = Ur @ (Ur.T @ b)                              # projection of b on the column space: unique
    bmag = np.abs(dft0) + np.abs(expv) + 1.0
    amp = float(np.linalg.norm(bmag)) / float(sr[-1])
    ctx.tag('lsq:equal-T' if equal_T else 'lsq:unequal-T')
    unique = rank == A.shape[1]
    ctx.tag('lsq:unique' if unique else 'lsq:not-unique')
    consistent = (exp == 'consistent') or rank == A.shape[0]
    ctx.tag('lsq:consistent' if consistent else 'lsq:inconsistent')
    fitv = A @ x
    ok = ctx.close('offsets applied to the references (A x) = projection of b on the composition matrix, b_i = '
                   'HoRT_dft,i - HoRT_exp,i each at its own T_ref', fitv, fit_star, sig, case, rtol=1e-9,
                   scale=np.abs(A) @ np.abs(x_star) + bmag)
    ok &= ctx.close('least-squares residual orthogonal to the composition matrix (A^T (A x - b) = 0), every reference '
                    'at its own T_ref', A.T @ (fitv - b), np.zeros(A.shape[1]), sig, case, rtol=1e-9,
                    scale=np.abs(A).T @ (np.abs(A) @ np.abs(x_star) + bmag) + 1.0)
    if unique:
        ok &= ctx.close('fitted offsets = the least-squares solution of A x = b (references determine the offsets '
                        'uniquely), every reference at its own T_ref', x, x_star, sig, case, rtol=1e-9,
                        scale=np.abs(x_star) + amp)
    if consistent:
        ok &= ctx.close('fitted references reproduce their experimental HoRT, each at its own T_ref with the offsets '
                        'as fitted (HoRT_dft,i - (A x)_i = HoRT_exp,i)', dft0 - fitv, expv, sig, case, rtol=1e-9,
                        scale=bmag + np.abs(A) @ np.abs(x_star))
    if unique and exp == 'consistent' and not equal_T:
        ok &= ctx.close('hidden offsets recovered with unequal reference temperatures (consistent data, full column '
                        'rank)', -x, [-HIDDEN[e] for e in cols], sig, case, rtol=1e-9,
                        scale=[abs(HIDDEN[e]) * 4 + 1.0 for e in cols])
    return bool(ok)


def _check_calls(refs, cfg, unit, T_fit, ctx, sig, case):
    """Call-level clauses on one referenced species: the same call again, the caller's data left alone, mutable
    arguments edited in place between two calls, the per-mode breakdown."""
    import copy
    desc, route = cfg['desc'], cfg.get('route', 'direct')
    keys = cfg.get('keys', 'str')
    cheap = _cheap_model()
    comp = {'H': 2, 'O': 1, 'C': 1}
    spw = _species('t', comp, desc, refs, cheap, keys)
    sp0 = _species('t', comp, desc, None, cheap, keys)
    held = getattr(spw, desc)                       # the dictionary the species holds
    T1, T2 = 500.0, 800.0
    kw = _kw('t', T1, route)
    snap = copy.deepcopy((kw, held, dict(refs.offset), refs.T_ref, len(refs.references)))
    s = dict(sig, target='calls')
    lin = sum(v * unit[e] for e, v in comp.items())
    mag = sum(abs(v * unit[e]) for e, v in comp.items()) + 1.0
    first = [spw.get_HoRT(**kw), spw.get_GoRT(**kw), spw.get_SoR(**kw)]
    again = [spw.get_HoRT(**kw), spw.get_GoRT(**kw), spw.get_SoR(**kw)]
    ok = ctx.close('the same call repeated gives the same answer', again, first, s, case, rtol=0.0, atol=0.0)
    now = (kw, held, dict(refs.offset), refs.T_ref, len(refs.references))
    ok &= ctx.true("evaluation leaves the caller's keyword dictionaries, the species' composition and the fitted "
                   'offsets as they were', _same(now, snap), s, case, observed=repr(now)[:300],
                   expected=repr(snap)[:300])
    base = [sp0.get_HoRT(**kw), sp0.get_GoRT(**kw)]
    # the per-mode breakdown adds up to the total and is a fresh array
    vb = spw.get_HoRT(verbose=True, **kw)
    vb_off = spw.get_HoRT(verbose=True, use_references=False, **kw)
    ok &= ctx.close('per-mode breakdown (verbose) adds up to the total, with and without references',
                    [float(np.sum(vb)), float(np.sum(vb_off))], [first[0], base[0]], s, case, rtol=1e-12,
                    scale=mag + abs(base[0]) + 1.0)
    vb[...] = 7.0
    ok &= ctx.close('editing a returned breakdown does not change the next call',
                    [spw.get_HoRT(**kw), float(np.sum(spw.get_HoRT(verbose=True, **kw)))], [first[0]] * 2, s, case,
                    rtol=1e-12, scale=mag + abs(base[0]) + 1.0)
    # the keyword dictionary edited in place: answer for the new temperature (same energy)
    inner = kw.get('t_kwargs', kw)
    inner['T'] = T2
    if route == 'override':
        kw['T'] = 1.37 * T2 + 11.0
    elif route == 'other':
        kw['T'] = T2
    d2 = spw.get_HoRT(**kw) - sp0.get_HoRT(**kw)
    ok &= ctx.close('keyword dictionary edited in place between two calls: answer for its new content',
                    d2 * T2 / T_fit, lin, s, case, rtol=1e-9, scale=mag * T2 / T_fit + 0.6)
    # the composition edited in place: answer for the new composition
    if keys == 'str':
        key = [k for k in held if k.endswith('H')][0]
        held[key] += 1
        held['Xx'] = 3
    else:
        held[_key('H', desc, keys)] += 1
        held[_key('Xx', desc, keys)] = 3
    d3 = np.array([spw.get_HoRT(**kw) - sp0.get_HoRT(**kw), spw.get_GoRT(**kw) - sp0.get_GoRT(**kw)])
    ok &= ctx.close('composition edited in place between two calls: answer for its new content',
                    d3 * T2 / T_fit, [lin + unit['H'] + 3 * unit['Xx']] * 2, s, case, rtol=1e-9,
                    scale=(mag + abs(unit['H'])) * T2 / T_fit + 0.6)
    ctx.evals(18)
    ctx.tag('call:repeat')
    ctx.tag('call:edited-in-place')
    return bool(ok)


def _same(a, b):
    """Structural equality that also compares the types of numbers (an int must stay an int)."""
    if isinstance(a, dict) and isinstance(b, dict):
        return list(a) == list(b) and all(_same(a[k], b[k]) for k in a)
    if isinstance(a, (list, tuple)) and isinstance(b, (list, tuple)):
        return len(a) == len(b) and all(_same(x, y) for x, y in zip(a, b))
    return type(a) is type(b) and bool(a == b)


# ------------------------------------------------------------------ fit cases
def _fit_sig(case):
    _, A = _matrix(case['refs'], case.get('comp', 'int'))
    sig = dict(kind='fit', rank=_rank_class(A)[0], exp=case['exp'], tref=case['tref'], desc=case['desc'],
               route=case.get('route', 'direct'), comp=case.get('comp', 'int'))
    if case.get('keys', 'str') != 'str':
        sig['keys'] = case['keys']
    return sig


def _run_fit(case, ctx):
    ids = case['refs']
    cfg = dict(exp=case['exp'], tref=case['tref'], desc=case['desc'], route=case.get('route', 'direct'),
               comp=case.get('comp', 'int'), keys=case.get('keys', 'str'))
    sig = _fit_sig(case)
    if len(set(ids)) < len(ids):
        ctx.tag('order:repeated')
    elif ids != sorted(ids):
        ctx.tag('order:descending')
    trefs = [_tref_of(p, cfg['tref']) for p in range(len(ids))]
    refs = _build_refs(ids, cfg, trefs)
    ctx.trace()
    ctx.trans()
    for k in ('exp', 'tref', 'desc', 'route'):
        ctx.tag('%s:%s' % (k, cfg[k]))
    ctx.tag('rank:' + sig['rank'])
    ctx.close('fitted T_ref is the mean reference temperature', float(refs.T_ref), float(np.mean(trefs)), sig, case,
              rtol=1e-12)
    check_refs(refs, ids, trefs, cfg, ctx, sig, case, full=True)


def _offset_sig(case):
    sig = dict(kind='offset-given', desc=case['desc'], with_refs=bool(case.get('with_refs')),
               route=case.get('route', 'direct'))
    if case.get('keys', 'str') != 'str':
        sig['keys'] = case['keys']
    return sig


def _run_offset(case, ctx):
    """construct-with-offset: no fit; every unconditional clause applies, and the offsets given
    are the ones applied."""
    import copy
    from pmutt.empirical.references import References
    desc = case['desc']
    route = case.get('route', 'direct')
    keys = case.get('keys', 'str')
    offs = {(_desc_dict({e: 1}, desc, keys, 'ref').popitem()[0]): v for e, v in case['offset'].items()}
    offs0 = copy.deepcopy(offs)
    with_refs = case.get('with_refs')
    lst = None
    if with_refs:
        lst = [_reference(i, T0, 'table', desc, keys=keys) for i in with_refs]
    if keys != 'str':
        ctx.tag('offset-given:keys')
    refs = References(offset=offs, references=lst, descriptor=desc, T_ref=case['T_ref'])
    ctx.trace()
    ctx.tag('offset-given:no-fit')
    ctx.tag('route:' + route)
    sig = _offset_sig(case)
    cheap = _cheap_model()
    sp0 = _species('t', {'H': 1}, desc, None, cheap, keys)
    T_ref = case['T_ref']
    for comp in ({'H': 2, 'O': 1}, {'C': 1, 'H': 4}, {'H': 1.5, 'N': 0.5, 'Xx': 2}, {'S': 1, 'O': 2}, {}):
        spw = _species('t', comp, desc, refs, cheap, keys)
        lin = -sum(case['offset'].get(e, 0.0) * v for e, v in comp.items())
        for T in _temps(route):
            d = _delta(spw, sp0, 'get_HoRT', T, route)
            g = _delta(spw, sp0, 'get_GoRT', T, route)
            ctx.evals(4)
            ctx.close('given offsets applied: dHoRT = -offset.n T_ref/T', [d, g], [lin * T_ref / T] * 2, sig, case,
                      rtol=1e-9, scale=abs(lin) * T_ref / T + 600.0)
        w = [_get(spw, 'get_SoR', 500.0, route), _get(spw, 'get_CpoR', 500.0, route),
             _get(spw, 'get_CvoR', 500.0, route), _get(spw, 'get_HoRT', 500.0, route, use_references=False),
             _get(spw, 'get_GoRT', 500.0, route, use_references=False)]
        n = [_get(sp0, 'get_SoR', 500.0, route), _get(sp0, 'get_CpoR', 500.0, route),
             _get(sp0, 'get_CvoR', 500.0, route), _get(sp0, 'get_HoRT', 500.0, route),
             _get(sp0, 'get_GoRT', 500.0, route)]
        ctx.close('use_references=False is identical to the species without references', w, n, sig, case,
                  rtol=0.0, atol=0.0)
    ctx.true('the offset dictionary given by the caller is left as it was', _same(offs, offs0), sig, case,
             observed=repr(offs), expected=repr(offs0))
    key = ('offset', desc, route, case['T_ref'], bool(with_refs), sorted(case['offset'].items()), keys)
    ctx.state(key)
    ctx.nontrivial(key)


def _offset_cases():
    for desc in DESC_MODES:
        for route in ROUTES:
            for T_ref in (T0, 300.0, 500):
                for offs in ({'H': -123.4, 'O': -186.9}, dict(HIDDEN), {'C': 12.5}, {'H': -123, 'O': 7, 'N': 0}, {}):
                    for wr in (None, [0, 2]):
                        yield dict(kind='offset', desc=desc, route=route, T_ref=T_ref, offset=offs, with_refs=wr)
    # offsets given by hand under keys that are not plain strings (route and T_ref cycling)
    n = 0
    for keys in NONSTR:
        for desc in DESC_MODES:
            for offs in ({'H': -123.4, 'O': -186.9}, dict(HIDDEN), {'C': 12.5}, {'H': -123, 'O': 7, 'N': 0}, {}):
                for wr in (None, [0, 2]):
                    yield dict(kind='offset', desc=desc, route=ROUTES[n % 5], T_ref=(T0, 300.0, 500)[n % 3],
                               offset=offs, with_refs=wr, keys=keys)
                    n += 1


# ------------------------------------------------------------------ two References objects at once
PCFG_B = dict(exp='consistent', tref='all300', desc='elements')


def _pair_sig(case):
    sig = dict(kind='pair', make=case['make'], edit=case['edit'][0])      # composition modes: see _run_pair
    if case.get('keys', 'str') != 'str':
        sig['keys'] = case['keys']
    return sig


def _run_pair(case, ctx):
    """A is fitted and measured; B is made (new with other parameters / deep copy of A / to_dict-from_dict of A),
    edited and refitted; A must report what it reported before, B must satisfy every clause for its own list,
    and a species moved from A to B reports B's adjustment."""
    import copy
    from pmutt.empirical.references import Reference, References
    sig = _pair_sig(case)
    a_ids, make, edit = case['a'], case['make'], case['edit']
    cfgA = dict(exp='table', tref='equal' if len(a_ids) == 2 else 'all300',
                desc='groups' if (make == 'deepcopy' and len(a_ids) % 2) else 'elements',
                comp=COMP_MODES[(sum(a_ids) + PAIR_MAKES.index(make)) % 3])
    keysA = cfgA['keys'] = case.get('keys', 'str')
    if keysA != 'str':
        ctx.tag('pair:keys')
    tA = _tref_of(0, cfgA['tref'])
    trefsA = [tA] * len(a_ids)
    lstA = [_reference(i, t, cfgA['exp'], cfgA['desc'], cmode=cfgA['comp'], keys=keysA)
            for i, t in zip(a_ids, trefsA)]
    lst_before = list(lstA)
    A = References(references=lstA, descriptor=cfgA['desc'])
    T = 650.0
    a0 = _measure_offsets(A, T, cfgA['desc'], keysA)
    tr0 = float(A.T_ref)
    mover = _species('t', {'H': 3, 'O': 1, 'C': 2}, cfgA['desc'], A, _cheap_model(), keysA)
    m0 = mover.get_HoRT(T=T)
    b_ids = a_ids + [edit[1]] if edit[0] == 'append' else a_ids[:-1]
    ctx.tag('pair:' + make)
    if make == 'new':
        cfgB = dict(PCFG_B, comp=COMP_MODES[(COMP_MODES.index(cfgA['comp']) + 1 + len(a_ids) % 2) % 3])
        # a new B next to an A with non-string keys is keyed by another type (tuples next to ints ...)
        cfgB['keys'] = 'str' if keysA == 'str' else NONSTR[(NONSTR.index(keysA) + 1 + len(a_ids)) % 4]
        trefsB = [300.0] * len(b_ids)
        lstB = [_reference(i, t, cfgB['exp'], cfgB['desc'], cmode=cfgB['comp'], keys=cfgB['keys'])
                for i, t in zip(b_ids, trefsB)]
        # every option spelled out, offset=None and a T_ref that the fit has to replace
        B = References(offset=None, references=lstB, descriptor='elements', T_ref=777.0)
    else:
        cfgB = dict(cfgA)
        trefsB = [tA] * len(b_ids)
        if make == 'deepcopy':
            B = copy.deepcopy(A)
        else:
            B = References.from_dict(A.to_dict())
        ctx.true('a copy is a References object with its own list of Reference objects',
                 isinstance(B, References) and B.references is not A.references
                 and all(isinstance(r, Reference) for r in B.references)
                 and not any(rb is ra for rb, ra in zip(B.references, A.references)), sig, case)
        ctx.close('a copy reports the offsets and T_ref of the original', _measure_offsets(B, T, cfgB['desc'], keysA)
                  + [float(B.T_ref)], a0 + [tr0], sig, case, rtol=0.0, atol=0.0)
        if edit[0] == 'append':
            B.append(_reference(edit[1], tA, cfgB['exp'], cfgB['desc'], cmode=cfgB['comp'], keys=keysA))
        else:
            B.pop()
        B.fit_HoRT_offset()
        ctx.trans(2)
    ctx.trace(2)
    ctx.evals(30)
    ok = ctx.close('fitted T_ref is the mean reference temperature', float(B.T_ref), float(np.mean(trefsB)), sig,
                   case, rtol=1e-12)
    # A after B was made, edited and refitted
    ok &= ctx.close('making, editing and refitting another References object leaves the first one as it was',
                    _measure_offsets(A, T, cfgA['desc'], keysA) + [float(A.T_ref), mover.get_HoRT(T=T)], a0 + [tr0, m0],
                    sig, case, rtol=0.0, atol=0.0)
    ok &= ctx.true('the list of references given to the constructor still holds the same objects',
                   len(lstA) == len(lst_before) and all(x is y for x, y in zip(lstA, lst_before))
                   and len(A) == len(a_ids), sig, case)
    if ok:
        ok &= check_refs(A, a_ids, trefsA, cfgA, ctx, dict(sig, obj='A'), case, full=False)
        ok &= check_refs(B, b_ids, trefsB, cfgB, ctx, dict(sig, obj='B'), case, full=False)
    if ok and cfgA['desc'] == cfgB['desc'] and keysA == cfgB['keys']:
        # the same species object handed from A to B: the answer is the one for its new References object
        fresh = _species('t', {'H': 3, 'O': 1, 'C': 2}, cfgB['desc'], B, _cheap_model(), keysA)
        mover.references = B
        ctx.close('a species whose references attribute is replaced reports the new adjustment',
                  [mover.get_HoRT(T=T), mover.get_GoRT(T=T)], [fresh.get_HoRT(T=T), fresh.get_GoRT(T=T)], sig, case,
                  rtol=0.0, atol=0.0)


# ------------------------------------------------------------------ histories (Shape A)
HCFG = dict(exp='table', tref='equal', desc='elements')


def _hT(i, init):
    """Reference temperature of menu species i in a history ('byid': depends on the species)."""
    return T0 if init.get('tref', 'equal') == 'equal' or i % 2 == 0 else 300.0


def _hist_init(init):
    """A real References object for the initial state; returns (refs, current ids, fitted ids)."""
    from pmutt.empirical.references import References
    keys = init.get('keys', 'str')
    lst = [_reference(i, _hT(i, init), 'table', 'elements', cmode=init.get('comp', 'int'), keys=keys)
           for i in init['refs']]
    if init['given']:
        refs = References(offset=_desc_dict({'H': 1.0, 'O': -2.0}, 'elements', keys, 'ref'), references=lst)
        fitted = None
    else:
        refs = References(references=lst)
        fitted = list(init['refs'])
    if init.get('attach'):
        # the reference species themselves carry the References object they are part of
        for ref in lst:
            ref.model.references = refs
    return refs, list(init['refs']), fitted


def _href(i, init, refs):
    ref = _reference(i, _hT(i, init), 'table', 'elements', cmode=init.get('comp', 'int'),
                     keys=init.get('keys', 'str'))
    if init.get('attach'):
        ref.model.references = refs
    return ref


def _apply(refs, cur, fitted, op, init):
    kind = op[0]
    if kind == 'append':
        refs.append(_href(op[1], init, refs))
        return cur + [op[1]], fitted
    if kind == 'extend':
        refs.extend([_href(i, init, refs) for i in op[1]])
        return cur + list(op[1]), fitted
    if kind == 'pop':
        refs.pop()
        return cur[:-1], fitted
    if kind == 'refit':
        refs.fit_HoRT_offset()
        return cur, list(cur)
    raise ValueError(kind)


def _hist_ops(cur, pool):
    rest = [i for i in pool if i not in cur]
    ops = [['append', i] for i in rest]
    ops += [['extend', [a, b]] for a, b in zip(rest, rest[1:])]
    if len(cur) > 1:
        ops.append(['pop'])
    ops.append(['refit'])
    return ops


def _measure_offsets(refs, T, desc='elements', keys='str'):
    cheap = _cheap_model()
    sp0 = _species('t', {'H': 1}, desc, None, cheap, keys)
    return [_delta(_species('t', {e: 1}, desc, refs, cheap, keys), sp0, 'get_HoRT', T) for e in ELEMS]


def _hist_sig(case):
    ops = case['ops']
    last = ops[-1][0] if ops else 'construct'
    sig = dict(kind='history', last=last, given=bool(case['init']['given']),
               tref=case['init'].get('tref', 'equal'))
    if case['init'].get('attach'):
        sig['attached'] = True
    if case['init'].get('comp', 'int') != 'int':
        sig['comp'] = case['init']['comp']
    if case['init'].get('keys', 'str') != 'str':
        sig['keys'] = case['init']['keys']
    return sig


def _run_hist(case, ctx, res=None):
    """Replay the whole history on a fresh real object; oracles on the final state."""
    sig = _hist_sig(case)
    refs, cur, fitted = _hist_init(case['init'])
    # a species created before the history holds the same References object
    keys = case['init'].get('keys', 'str')
    early = _species('early', {'H': 2, 'O': 1, 'C': 1}, 'elements', refs, _cheap_model(), keys)
    if case['init']['given']:
        ctx.tag('hist:init-offset-given')
    attach = bool(case['init'].get('attach'))
    cmode = case['init'].get('comp', 'int')
    hcfg = dict(HCFG, comp=cmode, keys=keys)
    if attach:
        ctx.tag('hist:attached')
    if keys != 'str':
        ctx.tag('hist:keys')
    if cmode != 'int':
        ctx.tag('hist:comp-' + cmode)
    for op in case['ops']:
        cur, fitted = _apply(refs, cur, fitted, op, case['init'])
        ctx.tag('hist:' + op[0])
        ctx.trans()
    ctx.trace()
    if res is not None:
        res['key'] = (tuple(cur), tuple(fitted) if fitted is not None else None)
    if fitted is None:
        ctx.tag('hist:stale')
        return                      # offsets are the ones given by hand: nothing was fitted yet
    if fitted != cur:
        ctx.tag('hist:stale')
    trefs = [_hT(i, case['init']) for i in fitted]
    ctx.tag('hist:tref-' + case['init'].get('tref', 'equal'))
    # history oracle: the offsets equal those of a fit built from scratch on the list last fitted
    scratch = _build_refs(fitted, hcfg, trefs)
    T = 650.0
    a, b = _measure_offsets(refs, T, keys=keys), _measure_offsets(scratch, T, keys=keys)
    ctx.evals(20)
    ok = ctx.close('offsets after the history equal a fit from scratch of the same references', a, b, sig, case,
                   rtol=1e-9, scale=np.abs(b) + 100.0)
    ok &= ctx.close('T_ref after the history equals T_ref of the fit from scratch', float(refs.T_ref),
                    float(scratch.T_ref), sig, case, rtol=1e-12)
    late = _species('early', {'H': 2, 'O': 1, 'C': 1}, 'elements', refs, _cheap_model(), keys)
    ok &= ctx.close('a species created before the history sees the refitted offsets',
                    [early.get_HoRT(T=T), early.get_GoRT(T=T)], [late.get_HoRT(T=T), late.get_GoRT(T=T)], sig,
                    case, rtol=1e-12)
    if attach and cur:
        # the reference species that carry the References object report what a fresh species reports
        held = [r.model.get_HoRT(T=r.T_ref) for r in refs]
        fresh = [_species(MENU[i][0], _comp(i, cmode), 'elements', refs, _model(i),
                          keys).get_HoRT(T=_hT(i, case['init'])) for i in cur]
        ctx.evals(2 * len(cur))
        ok &= ctx.close('reference species carrying the References object report the adjusted enthalpy of a fresh '
                        'species', held, fresh, sig, case, rtol=1e-12)
    if ok:
        check_refs(refs, cur, trefs, hcfg, ctx, sig, case, full=False, fitted_ids=fitted)


def check_case(case, ctx):
    if case['kind'] == 'fit':
        _run_fit(case, ctx)
    elif case['kind'] == 'offset':
        _run_offset(case, ctx)
    elif case['kind'] == 'hist':
        _run_hist(case, ctx)
    elif case['kind'] == 'pair':
        _run_pair(case, ctx)
    else:
        raise ValueError(case['kind'])


def run_shard(shard, ctx):
    kind = shard['kind']
    if kind == 'fit':
        for n, case in enumerate(_fit_cases(ctx.tier)):
            if n % shard['nparts'] != shard['part']:
                continue
            sig = _fit_sig(case)
            ctx.run_case(_run_fit, case, sig)
            key = ('fit', tuple(case['refs']), case['exp'], case['tref'], case['desc'], case['route'], case['comp'],
                   case['keys'])
            ctx.state(key)
            if sig['rank'] != 'square-full' or {k: case[k] for k in DEFAULT} != DEFAULT:
                ctx.nontrivial(key)
            if n % 997 == shard['part']:
                ctx.sample(case, limit=1)
        return
    if kind == 'offset':
        for case in _offset_cases():
            ctx.run_case(_run_offset, case, _offset_sig(case))
        return
    if kind == 'pair':
        for n, case in enumerate(_pair_cases(ctx.tier)):
            if n % shard['nparts'] != shard['part']:
                continue
            ctx.run_case(_run_pair, case, _pair_sig(case))
            key = ('pair', tuple(case['a']), case['make'], tuple(case['edit']), case.get('keys', 'str'))
            ctx.state(key)
            ctx.nontrivial(key)
            if n % 97 == shard['part']:
                ctx.sample(case, limit=1)
        return
    # histories: BFS, de-duplicated on (current list, list last fitted)
    init = dict(refs=shard['init'], given=shard['given'], tref=shard['tref'])
    if shard.get('attach'):
        init['attach'] = True
    if shard.get('comp', 'int') != 'int':
        init['comp'] = shard['comp']
    if shard.get('keys', 'str') != 'str':
        init['keys'] = shard['keys']
    pool, depth = shard['pool'], shard['depth']
    root = dict(kind='hist', init=init, ops=[])
    res = {}
    if not ctx.run_case(lambda c_, x_: _run_hist(c_, x_, res), root, _hist_sig(root)):
        return
    seen = {res['key']}
    hkey = ('hist', init['given'], init['tref'], bool(init.get('attach')), init.get('comp', 'int'),
            init.get('keys', 'str'))
    ctx.state(hkey + res['key'])
    frontier = [([], res['key'][0])]
    for d in range(depth):
        nxt = []
        for hist, cur in frontier:
            for op in _hist_ops(list(cur), pool):
                case = dict(kind='hist', init=init, ops=hist + [op])
                res = {}
                if not ctx.run_case(lambda c_, x_: _run_hist(c_, x_, res), case, _hist_sig(case)):
                    continue
                key = res['key']
                if key in seen:
                    continue
                seen.add(key)
                ctx.state(hkey + key)
                kinds = {o[0] for o in case['ops']}
                if 'refit' in kinds and kinds & {'append', 'extend'}:
                    ctx.nontrivial(hkey + key)
                nxt.append((hist + [op], key[0]))
                if len(hist) + 1 == depth:
                    ctx.sample(case, limit=1)
        frontier = nxt


LEVEL_TEXT = ('Exhaustive enumeration of every subset of 1-8 reference species of a 14-species menu over five '
              'descriptors (square, over-determined, under-determined and rank-deficient composition matrices), '
              'crossed with experimental-data, reference-temperature, descriptor-dictionary, composition-amount '
              '(integer / per-site scaled / real-valued) and descriptor-key-type (strings / Python ints / numpy ints '
              'against Python ints / tuples / unusual strings) modes up to the '
              'stated deviation level, each fitted by the real References class and evaluated through real '
              'StatMech species with the temperature supplied directly, through the per-species keyword '
              'dictionary, through both, next to other species\' dictionaries, and integer-typed; plus '
              'explicit-state BFS over append/extend/pop/refit histories (reference species with and without the '
              'References object attached) compared with a fit from scratch; plus pairs of References objects '
              '(new / deepcopy / to_dict-from_dict, edited and refitted) alive at once. All clauses evaluated in '
              'every case.')
LEVEL_NOTE = ('Menu of 14 species / 5 descriptors x 3 composition-amount modes x 5 descriptor-key types; pairs and triples also in descending '
              'order and with one species listed twice; quick: all subsets of size 1-4 plus size 5-8 of a 9-species '
              'sub-menu, history depth 4; thorough: all 12910 subsets, depth 5. With unequal reference '
              'temperatures (alternating 298.15 / 300 K, or every reference its own 298.15 + d K) the verdicts are the '
              'unconditional clauses and the least-squares statement on the offsets as fitted (each reference at its own '
              'T_ref). Scalar temperatures only.')
TECHNIQUE = ('deviation-bounded exhaustive product enumeration + explicit-state BFS over operation histories on '
             'the implementation; algebraic oracles (normal equations, hidden offsets, linearity)')
